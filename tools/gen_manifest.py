#!/venv/bin/python
"""Regenerate /verif/MANIFEST.json from the claims table below (kept in one place so that the
manifest is always schema-valid and in step with fsa/rules)."""
import json
import sys
from pathlib import Path

VERIF = Path(__file__).resolve().parent.parent
sys.path.insert(0, str(VERIF))
PY = "/venv/bin/python"

# property -> (level text, level note, technique, design ref)
CLAIMS = json.loads((VERIF / "tools" / "claims.json").read_text())
PROPS = [json.loads(l)["id"] for l in (VERIF / "properties.jsonl").read_text().splitlines() if l.strip()]

checks = []
for pid in PROPS:
    c = CLAIMS.get(pid)
    if not c or not (VERIF / "fsa" / "rules" / f"{pid.lower()}.py").exists():
        continue
    checks.append({
        "property_id": pid,
        "quick_cmd": f"cd /verif && {PY} -m fsa check {pid} --tier quick",
        "thorough_cmd": f"cd /verif && {PY} -m fsa check {pid} --tier thorough",
        "evidence_file": f"/verif/evidence/{pid}.json",
        "replay_cmd_template": "cat {path}",
        "engine": "fsa",
        "level_claimed": {"category": "other", "text": c["text"], "design_ref": c.get("design_ref", "DESIGN.md §4 " + pid)},
        "level_note": c["note"],
        "technique": c["technique"],
    })
claimed = {c["property_id"] for c in checks}
na = json.loads((VERIF / "tools" / "not_applicable.json").read_text())
manifest = {
    "version": 1,
    "setup_cmd": f"cd /verif && {PY} -m compileall -q fsa",
    "hooks": {
        "guard": "FAKESNOW_VERIF",
        "enable": "none needed: the checks parse /repo/fakesnow/*.py and never build or run it",
        "baseline_off_cmd": "cd /repo && /venv/bin/python -m pytest -ra -q -p no:cacheprovider --timeout=900 --continue-on-collection-errors",
        "source_commits": [],
        "add_only": True,
    },
    "engines": [{
        "name": "fsa",
        "path": "/verif/fsa",
        "serves_properties": sorted(claimed),
        "kind_free_text": "repository-specific static analyser (stdlib ast): program model, event CFG with typed exception "
                          "edges, path-sensitive abstract interpreter / typestate analysis, SQL-template reader, transform summaries",
    }],
    "checks": checks,
    "not_applicable": [{"property_id": p, "reason": na.get(p, "no static rule built yet for this property (work in progress)")}
                       for p in PROPS if p not in claimed],
    "notes": "Static analysis only. Exit 0 = all rules held (known findings printed as KNOWN-FINDING), 1 = VIOLATION, "
             "2 = ANALYSIS-ERROR (unsupported syntax / vanished anchor / inventory below floor). See DESIGN.md.",
}
(VERIF / "MANIFEST.json").write_text(json.dumps(manifest, indent=1) + "\n")
try:
    import jsonschema
    jsonschema.validate(manifest, json.loads(Path("/root/.vp/MANIFEST.schema.json").read_text()))
    print("manifest valid;", len(checks), "checks,", len(manifest["not_applicable"]), "not applicable")
except ImportError:
    print("manifest written (jsonschema not available here);", len(checks), "checks")
