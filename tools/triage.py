#!/venv/bin/python
"""Development aid (never run by a check): list the violations a property's check reports now, and
optionally record the ones matching a substring as known findings with an id and a description.

  tools/triage.py C06                      # list
  tools/triage.py C06 --add F09 "substr" "what fails"   # record matching findings
"""
import json
import sys
from pathlib import Path

VERIF = Path(__file__).resolve().parent.parent
sys.path.insert(0, str(VERIF))
from fsa.__main__ import run_check  # noqa: E402
from fsa.report import KNOWN, load_known  # noqa: E402

prop = sys.argv[1]
_, ctx = run_check(prop, "thorough", write=False)
known = load_known()
have = {(k["property"], k["key"]) for k in known["known"]}
if len(sys.argv) > 2 and sys.argv[2] == "--add":
    fid, sub, what = sys.argv[3], sys.argv[4], sys.argv[5]
    n = 0
    for f in ctx.findings:
        if sub in f.key and (prop, f.key) not in have:
            known["known"].append({"id": fid, "property": prop, "rule": f.rule, "key": f.key, "what": what})
            n += 1
    KNOWN.write_text(json.dumps(known, indent=1) + "\n")
    print("added", n)
else:
    for f in ctx.findings:
        print(("KNOWN " if (prop, f.key) in have else "NEW   ") + f.key)
