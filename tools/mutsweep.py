#!/venv/bin/python
"""Development aid (never run by a check): systematic mutation sweep to find blind spots of the checks.

  tools/mutsweep.py gen  <out.json>  [--modules cursor,conn,...]      # enumerate mutants (source-text edits)
  tools/mutsweep.py static <mutants.json> <out.json> [--jobs 16]       # run all 20 checks on every mutant, in memory
  tools/mutsweep.py tests <static.json> <out.json> [--jobs 6]          # pinned test suite on the mutants no check reported

Operators: negate an `if`/`elif`/ternary/while test, swap and/or, delete a simple statement (-> pass), drop a pipeline
stage, flip a comparison operator (== <-> !=, < <-> <=, in <-> not in), replace a string constant in a comparison,
swap the first two positional arguments of a call, flip True/False/None-defaults in keyword arguments.
Each mutant is one edit of one module.  Nothing is written under /repo or /verif except the requested output files.
"""
from __future__ import annotations

import ast
import json
import multiprocessing as mp
import os
import shutil
import subprocess
import sys
import tempfile
from pathlib import Path

VERIF = Path(__file__).resolve().parent.parent
sys.path.insert(0, str(VERIF))
REPO = Path("/repo")
PROPS = [f"C{i:02d}" for i in range(1, 21)]
DEFAULT_MODULES = ["cursor", "conn", "instance", "variables", "checks", "transforms", "transforms_merge", "info_schema", "macros",
                   "types", "arrow", "server", "pandas_tools", "cli", "__init__", "expr", "fakes"]


def seg(src_lines, node):
    if node.lineno == node.end_lineno:
        return src_lines[node.lineno - 1][node.col_offset:node.end_col_offset]
    parts = [src_lines[node.lineno - 1][node.col_offset:]]
    parts += src_lines[node.lineno:node.end_lineno - 1]
    parts.append(src_lines[node.end_lineno - 1][:node.end_col_offset])
    return "\n".join(parts)


def replace(src: str, node, new: str) -> str:
    lines = src.split("\n")
    # byte offsets: ast col offsets are utf8 bytes; sources here are ascii except a few comments — use encode/decode per line
    def cut(line, col):
        return line.encode()[:col].decode(), line.encode()[col:].decode()
    head, _ = cut(lines[node.lineno - 1], node.col_offset)
    _, tail = cut(lines[node.end_lineno - 1], node.end_col_offset)
    return "\n".join(lines[:node.lineno - 1] + [head + new + tail] + lines[node.end_lineno:])


def gen(modules):
    out = []
    for mod in modules:
        path = REPO / "fakesnow" / f"{mod}.py"
        if not path.exists():
            continue
        src = path.read_text()
        tree = ast.parse(src)
        lines = src.split("\n")
        funcs = {}
        for fn in ast.walk(tree):
            if isinstance(fn, (ast.FunctionDef, ast.AsyncFunctionDef)):
                for n in ast.walk(fn):
                    funcs.setdefault(id(n), fn.name)

        def add(op, node, new, note=""):
            try:
                msrc = replace(src, node, new)
                ast.parse(msrc)
            except SyntaxError:
                return
            if msrc == src:
                return
            out.append({"id": f"{mod}:{node.lineno}:{node.col_offset}:{op}", "module": mod, "op": op, "line": node.lineno,
                        "function": funcs.get(id(node), "<module>"), "old": seg(lines, node)[:160], "new": new[:160], "src": msrc, "note": note})

        for n in ast.walk(tree):
            if funcs.get(id(n)) is None and not isinstance(n, (ast.Dict,)):
                continue
            if isinstance(n, (ast.If, ast.While, ast.IfExp)):
                add("negate-test", n.test, f"not ({seg(lines, n.test)})")
            if isinstance(n, ast.BoolOp) and len(n.values) >= 2:
                # swap and/or by rebuilding from the operand segments
                joiner = " or " if isinstance(n.op, ast.And) else " and "
                add("swap-boolop", n, "(" + joiner.join("(" + seg(lines, v) + ")" for v in n.values) + ")")
                # drop the last operand
                add("drop-last-operand", n, "(" + (" and " if isinstance(n.op, ast.And) else " or ").join("(" + seg(lines, v) + ")" for v in n.values[:-1]) + ")")
            if isinstance(n, ast.Compare) and len(n.ops) == 1:
                o = n.ops[0]
                flip = {ast.Eq: "!=", ast.NotEq: "==", ast.Lt: "<=", ast.LtE: "<", ast.Gt: ">=", ast.GtE: ">", ast.In: "not in", ast.NotIn: "in",
                        ast.Is: "is not", ast.IsNot: "is"}.get(type(o))
                if flip:
                    add("flip-compare", n, f"{seg(lines, n.left)} {flip} {seg(lines, n.comparators[0])}")
                c = n.comparators[0]
                if isinstance(c, ast.Constant) and isinstance(c.value, str) and c.value:
                    add("const-compare", c, repr(c.value + "_X"))
            if isinstance(n, (ast.Assign, ast.AugAssign, ast.Expr)) and not (isinstance(n, ast.Expr) and isinstance(n.value, ast.Constant)):
                if isinstance(n, ast.Expr) and isinstance(n.value, (ast.Yield, ast.Await)):
                    continue
                add("delete-stmt", n, "pass")
            if isinstance(n, ast.Call):
                if len(n.args) >= 2 and not any(isinstance(a, ast.Starred) for a in n.args[:2]) and seg(lines, n.args[0]) != seg(lines, n.args[1]):
                    a0, a1 = n.args[0], n.args[1]
                    if a0.end_lineno == a1.lineno or True:
                        txt = seg(lines, n)
                        s0, s1 = seg(lines, a0), seg(lines, a1)
                        i0 = txt.find(s0)
                        i1 = txt.find(s1, i0 + len(s0)) if i0 >= 0 else -1
                        if i0 >= 0 and i1 >= 0:
                            add("swap-args", n, txt[:i0] + s1 + txt[i0 + len(s0):i1] + s0 + txt[i1 + len(s1):])
                for k in n.keywords:
                    if isinstance(k.value, ast.Constant) and isinstance(k.value.value, bool):
                        add("flip-kwarg", k.value, repr(not k.value.value))
                if isinstance(n.func, ast.Attribute) and n.func.attr == "transform" and mod == "cursor" and isinstance(n.func.value, (ast.Call, ast.Name)):
                    # drop one pipeline stage: `<prev>.transform(f)` -> `<prev>`
                    add("drop-stage", n, seg(lines, n.func.value), note=seg(lines, n.args[0])[:60] if n.args else "")
            if isinstance(n, ast.Return) and n.value is not None and isinstance(n.value, ast.Name):
                pass
            if isinstance(n, ast.Constant) and isinstance(n.value, int) and not isinstance(n.value, bool) and funcs.get(id(n)):
                add("int-const", n, repr(n.value + 1))
    return out


def _static_one(m):
    from fsa.model import AnalysisError, Program
    from fsa.selftest import _baseline, _findings

    srcs = dict(Program().sources)
    srcs[m["module"]] = m["src"]
    res = {"id": m["id"], "reported": [], "errors": []}
    try:
        prog = Program(sources=srcs)
    except Exception as e:  # noqa: BLE001
        res["errors"].append(f"program: {type(e).__name__}: {e}"[:200])
        return res
    for prop in PROPS:
        try:
            base = _baseline(prop)
            got = _findings(prop, prog)
            new = [k for k in got if k not in base]
            if new:
                res["reported"].append({"prop": prop, "rules": sorted({got[k].rule for k in new})[:4]})
        except AnalysisError as e:
            res["errors"].append(f"{prop}: {str(e)[:120]}")
        except Exception as e:  # noqa: BLE001
            res["errors"].append(f"{prop}: internal {type(e).__name__}: {str(e)[:100]}")
    return res


def _tests_one(m):
    tmp = Path(tempfile.mkdtemp(prefix="mutsweep_", dir="/tmp"))
    try:
        subprocess.run(["git", "-C", str(REPO), "worktree", "add", "-q", "--detach", str(tmp / "wt"), "HEAD"], check=True, capture_output=True)
        wt = tmp / "wt"
        (wt / "fakesnow" / f"{m['module']}.py").write_text(m["src"])
        r = subprocess.run(["/venv/bin/python", "-m", "pytest", "-q", "-x", "-p", "no:cacheprovider", "--timeout=300", "tests",
                            "--deselect", "tests/test_fakes.py::test_get_result_batches", "--deselect", "tests/test_fakes.py::test_get_result_batches_dict"],
                           cwd=wt, capture_output=True, text=True, timeout=900, env={**os.environ, "PYTHONPATH": str(wt)})
        last = (r.stdout.strip().splitlines() or [""])[-1]
        return {"id": m["id"], "tests_rc": r.returncode, "tests": last[:120]}
    except Exception as e:  # noqa: BLE001
        return {"id": m["id"], "tests_rc": -1, "tests": f"{type(e).__name__}: {e}"[:120]}
    finally:
        subprocess.run(["git", "-C", str(REPO), "worktree", "remove", "--force", str(tmp / "wt")], capture_output=True)
        shutil.rmtree(tmp, ignore_errors=True)


def main():
    cmd = sys.argv[1]
    jobs = int(sys.argv[sys.argv.index("--jobs") + 1]) if "--jobs" in sys.argv else 16
    if cmd == "gen":
        mods = sys.argv[sys.argv.index("--modules") + 1].split(",") if "--modules" in sys.argv else DEFAULT_MODULES
        ms = gen(mods)
        Path(sys.argv[2]).write_text(json.dumps(ms))
        by = {}
        for m in ms:
            by[(m["module"], m["op"])] = by.get((m["module"], m["op"]), 0) + 1
        print(len(ms), "mutants", sorted(by.items()))
    elif cmd == "static":
        ms = json.loads(Path(sys.argv[2]).read_text())
        with mp.get_context("fork").Pool(jobs) as pool:
            res = pool.map(_static_one, ms, chunksize=1)
        byid = {r["id"]: r for r in res}
        out = [{**{k: v for k, v in m.items() if k != "src"}, **byid[m["id"]], "src": m["src"]} for m in ms]
        Path(sys.argv[3]).write_text(json.dumps(out))
        rep = sum(1 for r in res if r["reported"])
        err = sum(1 for r in res if r["errors"] and not r["reported"])
        print(f"{len(res)} mutants: {rep} reported by a check, {err} analysis-error only, {len(res) - rep - err} silent")
    elif cmd == "tests":
        st = json.loads(Path(sys.argv[2]).read_text())
        todo = [m for m in st if not m["reported"] and not m["errors"]]
        with mp.get_context("fork").Pool(jobs) as pool:
            res = pool.map(_tests_one, todo, chunksize=1)
        byid = {r["id"]: r for r in res}
        out = [{**{k: v for k, v in m.items() if k != "src"}, **byid[m["id"]]} for m in todo]
        Path(sys.argv[3]).write_text(json.dumps(out, indent=1))
        surv = [m for m in out if m["tests_rc"] == 0]
        print(f"{len(out)} silent mutants: {len(surv)} also pass the pinned tests")


if __name__ == "__main__":
    main()
