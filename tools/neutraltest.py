#!/venv/bin/python
"""Development aid: apply a behaviour-preserving patch to /repo, run ALL 20 quick checks, restore /repo.
   tools/neutraltest.py <dir with patch.diff>  -> prints the checks that do not exit 0 (false alarms / analysis errors)"""
import json
import subprocess
import sys
from pathlib import Path

d = Path(sys.argv[1])
r = subprocess.run(f"git -C /repo apply {d}/patch.diff", shell=True, capture_output=True, text=True)
if r.returncode != 0:
    print(json.dumps({"dir": str(d), "apply": "FAILED", "err": r.stderr[:200]}))
    sys.exit(0)
bad = {}
try:
    for i in range(1, 21):
        p = f"C{i:02d}"
        c = subprocess.run(["/venv/bin/python", "-m", "fsa", "check", p, "--tier", "quick"], cwd="/verif", capture_output=True, text=True)
        if c.returncode != 0:
            bad[p] = {"rc": c.returncode, "lines": [l for l in c.stdout.splitlines() if l.startswith(("VIOLATION", "ANALYSIS-ERROR", "  fakesnow"))][:6]}
finally:
    subprocess.run("git -C /repo checkout -- . && git -C /repo clean -fdq fakesnow; git -C /verif checkout -- evidence", shell=True)
print(json.dumps({"dir": str(d), "false_alarms": bad}, indent=1))
