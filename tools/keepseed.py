#!/venv/bin/python
"""Development aid: confirm a sub-agent mutant and keep it under /verif/seeded/<id>/.
  tools/keepseed.py /tmp/wt_out/C05/m1 C05-fetchone-arraysize [--props C05,C04]
"""
import json
import shutil
import subprocess
import sys
from pathlib import Path

src, sid = Path(sys.argv[1]), sys.argv[2]
extra = sys.argv[3:]
r = subprocess.run(["/venv/bin/python", "/verif/tools/seedtest.py", str(src), "--confirm", *extra], capture_output=True, text=True)
res = json.loads(r.stdout)
ok = res.get("demo_clean_rc") == 0 and res.get("apply_rc") == 0 and res.get("demo_mutant_rc", 0) != 0 and "196 passed" in res.get("tests", "")
print(json.dumps({k: v for k, v in res.items() if k != "dir"}, indent=1)[:1500])
if not ok:
    print("NOT CONFIRMED")
    sys.exit(1)
dst = Path("/verif/seeded") / sid
dst.mkdir(parents=True, exist_ok=True)
for f in ("patch.diff", "demo.py"):
    shutil.copy(src / f, dst / f)
meta = json.loads((src / "meta.json").read_text()) if (src / "meta.json").exists() else {}
meta.update({
    "id": sid,
    "origin": "independent sub-agent given only the property text and a scratch worktree",
    "confirmed": {"demo_on_clean_tree_rc": res["demo_clean_rc"], "demo_on_mutated_tree_rc": res["demo_mutant_rc"], "pinned_tests_on_mutated_tree": res["tests"],
                  "how": "scratch worktree of /repo HEAD: run demo.py, git apply patch.diff, run demo.py, run the pinned pytest command; worktree removed"},
    "checks": {k[6:]: {"exit": v["rc"], "report": v["lines"][:4]} for k, v in res.items() if k.startswith("check_")},
})
(dst / "meta.json").write_text(json.dumps(meta, indent=1) + "\n")
print("KEPT", dst)
