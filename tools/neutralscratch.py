#!/venv/bin/python
"""Development aid: apply a patch to a scratch copy of /repo/fakesnow (never to /repo) and run all 20 checks on it in memory.
  tools/neutralscratch.py <dir-with-patch.diff> [--props C01,C02]      # prints new findings per property (none = silent)
"""
import json
import shutil
import subprocess
import sys
import tempfile
from pathlib import Path

VERIF = Path(__file__).resolve().parent.parent
sys.path.insert(0, str(VERIF))
from fsa.model import AnalysisError, Program  # noqa: E402
from fsa.selftest import _baseline, _findings  # noqa: E402

d = Path(sys.argv[1])
props = sys.argv[sys.argv.index("--props") + 1].split(",") if "--props" in sys.argv else [f"C{i:02d}" for i in range(1, 21)]
tmp = Path(tempfile.mkdtemp(prefix="fsa_scratch_", dir="/tmp"))
out = {"dir": str(d), "findings": {}}
try:
    shutil.copytree("/repo/fakesnow", tmp / "fakesnow", ignore=shutil.ignore_patterns("__pycache__"))
    r = subprocess.run(["patch", "-p1", "-s", "-f", "-i", str(d / "patch.diff")], cwd=tmp, capture_output=True, text=True)
    if r.returncode != 0:
        out["apply"] = "FAILED " + (r.stdout + r.stderr)[:200]
    else:
        prog = Program(root=tmp)
        for p in props:
            try:
                base = _baseline(p)
                from fsa.__main__ import run_check
                _, cx = run_check(p, "quick", prog=prog, write=False)
                got = {f.key: f for f in cx.findings}
                new = [f"{got[k].rule} {got[k].construct[:90]}" for k in got if k not in base] + [f"ANALYSIS-ERROR {e}"[:200] for e in cx.errors]
            except AnalysisError as e:
                new = [f"ANALYSIS-ERROR {e}"[:200]]
            except Exception as e:  # noqa: BLE001
                new = [f"INTERNAL {type(e).__name__}: {e}"[:200]]
            if new:
                out["findings"][p] = new[:4]
finally:
    shutil.rmtree(tmp, ignore_errors=True)
print(json.dumps(out, indent=1))
