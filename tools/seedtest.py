#!/venv/bin/python
"""Development aid: confirm a seeded mutant and run the checks against it.

  tools/seedtest.py <dir with patch.diff demo.py meta.json> [--props C03,C07] [--confirm]

--confirm: in a scratch worktree of /repo HEAD (created under /tmp and removed afterwards) check that the demo
passes on the clean tree, fails with the patch, and that the pinned test suite result is unchanged.
Then the patch is applied to /repo itself, the quick checks run, and /repo is restored (git checkout -- .).
"""
import json
import subprocess
import sys
import tempfile
from pathlib import Path

PY = "/venv/bin/python"


if __import__("subprocess").run(["git", "-C", "/repo", "status", "--porcelain", "--untracked-files=no"], capture_output=True, text=True).stdout.strip():
    print('{"error": "refusing to run: /repo has uncommitted changes (this tool restores /repo with git checkout -- .)"}')
    raise SystemExit(3)


def sh(cmd, cwd=None, timeout=900):
    r = subprocess.run(cmd, shell=True, cwd=cwd, capture_output=True, text=True, timeout=timeout)
    return r.returncode, r.stdout + r.stderr


def main():
    d = Path(sys.argv[1]).resolve()
    props = None
    confirm = "--confirm" in sys.argv
    for i, a in enumerate(sys.argv):
        if a == "--props":
            props = sys.argv[i + 1].split(",")
    meta = json.loads((d / "meta.json").read_text()) if (d / "meta.json").exists() else {}
    props = props or [meta.get("property", "C01")]
    patch = d / "patch.diff"
    out = {"dir": str(d), "props": props}
    if confirm:
        wt = tempfile.mkdtemp(prefix="seedwt_", dir="/tmp")
        sh(f"rmdir {wt}")
        rc, o = sh(f"git -C /repo worktree add -q --detach {wt} HEAD")
        try:
            rc, o = sh(f"{PY} {d}/demo.py", cwd=wt)
            out["demo_clean_rc"] = rc
            rc, o = sh(f"git apply {patch}", cwd=wt)
            out["apply_rc"] = rc
            if rc == 0:
                rc, o = sh(f"{PY} {d}/demo.py", cwd=wt)
                out["demo_mutant_rc"] = rc
                rc, o = sh(f"{PY} -m pytest -q -p no:cacheprovider tests 2>&1 | tail -1", cwd=wt)
                out["tests"] = o.strip()
        finally:
            sh(f"git -C /repo worktree remove --force {wt}")
    rc, o = sh(f"git -C /repo apply {patch}")
    out["repo_apply_rc"] = rc
    if rc != 0:
        out["repo_apply_err"] = o[:300]
    else:
        try:
            for p in props:
                rc, o = sh(f"{PY} -m fsa check {p} --tier quick", cwd="/verif")
                lines = [l for l in o.splitlines() if l.startswith(("VIOLATION", "ANALYSIS-ERROR", "  fakesnow"))]
                out[f"check_{p}"] = {"rc": rc, "lines": lines[:6]}
        finally:
            sh("git -C /repo checkout -- . && git -C /repo clean -fdq fakesnow")
            # evidence files were rewritten against the mutant: restore them
            sh("git -C /verif checkout -- evidence")
    print(json.dumps(out, indent=1))


main()
