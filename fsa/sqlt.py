"""E3/E4 — reader for the SQL text fakesnow itself generates (templates with holes), never user SQL.

Tokenises an abstract string (literal pieces and holes), splits scripts at ';', classifies each
statement by its leading keywords and parses the small subset needed by the rules: WHERE predicates
(= == != <> IN NOT IN LIKE NOT LIKE AND OR NOT, parentheses, function calls), the object named by
CREATE/ATTACH/INSERT/SET, ON CONFLICT targets, select-list aliases.
"""

from __future__ import annotations

import re

from .values import Const, Str, Val, tagof

WORD = re.compile(r"[A-Za-z_][A-Za-z0-9_$]*|\d+(?:\.\d+)?")
OPS = ["==", "!=", "<>", "<=", ">=", "||", "::", "->>", "->", "=", "<", ">", "(", ")", ",", ".", ";", "*", "+", "-", "/", "%", "[", "]", ":"]


class Tok:
    __slots__ = ("kind", "parts")

    def __init__(self, kind: str, parts):
        self.kind = kind  # word | str | qid | op | hole
        self.parts = parts  # list[str|Val] for str/qid/word ; str for op

    @property
    def text(self) -> str:
        if self.kind == "op":
            return self.parts
        return "".join(p if isinstance(p, str) else "{" + tagof(p) + "}" for p in self.parts)

    @property
    def up(self) -> str:
        return self.text.upper()

    def is_kw(self, *kws: str) -> bool:
        return self.kind == "word" and self.up in kws

    def holes(self):
        return [p for p in self.parts if not isinstance(p, str)] if self.kind != "op" else []

    def __repr__(self):
        return f"{self.kind}:{self.text}"


def parts_of(v: Val | str) -> list:
    if isinstance(v, str):
        return [v]
    if isinstance(v, Const):
        return [v.v if isinstance(v.v, str) else str(v.v)]
    if isinstance(v, Str):
        return list(v.parts)
    return [v]


def tokenize(v: Val | str) -> list[Tok]:
    parts = parts_of(v)
    toks: list[Tok] = []
    quote = None  # current quote char
    cur: list = []

    def flush_word():
        nonlocal cur
        if cur:
            toks.append(Tok("word", cur))
            cur = []

    for p in parts:
        if not isinstance(p, str):
            if quote:
                cur.append(p)
            else:
                # a hole adjacent to word characters is part of that word
                cur.append(p)
            continue
        i = 0
        while i < len(p):
            ch = p[i]
            if quote:
                if ch == quote:
                    if i + 1 < len(p) and p[i + 1] == quote:
                        cur.append(quote)
                        i += 2
                        continue
                    toks.append(Tok("str" if quote == "'" else "qid", _merge(cur)))
                    cur, quote = [], None
                    i += 1
                    continue
                cur.append(ch)
                i += 1
                continue
            if ch in "'\"":
                flush_word()
                quote = ch
                i += 1
                continue
            if ch.isspace():
                flush_word()
                i += 1
                continue
            if ch == "-" and p.startswith("--", i):
                flush_word()
                j = p.find("\n", i)
                i = len(p) if j < 0 else j
                continue
            m = WORD.match(p, i)
            if m:
                cur.append(m.group())
                i = m.end()
                continue
            flush_word()
            for op in OPS:
                if p.startswith(op, i):
                    toks.append(Tok("op", op))
                    i += len(op)
                    break
            else:
                toks.append(Tok("op", ch))
                i += 1
    if quote:
        toks.append(Tok("str" if quote == "'" else "qid", _merge(cur)))
    else:
        flush_word()
    for t in toks:
        if t.kind == "word":
            t.parts = _merge(t.parts)
    return toks


def _merge(parts: list) -> list:
    out: list = []
    for p in parts:
        if isinstance(p, str) and out and isinstance(out[-1], str):
            out[-1] += p
        else:
            out.append(p)
    return out


def split_statements(toks: list[Tok]) -> list[list[Tok]]:
    out, cur = [], []
    for t in toks:
        if t.kind == "op" and t.parts == ";":
            if cur:
                out.append(cur)
            cur = []
        else:
            cur.append(t)
    if cur:
        out.append(cur)
    return out


# ---------------------------------------------------------------------- predicates
class P:
    """Recursive-descent parser over a token list."""

    def __init__(self, toks: list[Tok]):
        self.t = toks
        self.i = 0

    def peek(self, k=0) -> Tok | None:
        return self.t[self.i + k] if self.i + k < len(self.t) else None

    def kw(self, *kws) -> bool:
        t = self.peek()
        if t is not None and t.is_kw(*kws):
            self.i += 1
            return True
        return False

    def op(self, *ops) -> str | None:
        t = self.peek()
        if t is not None and t.kind == "op" and t.parts in ops:
            self.i += 1
            return t.parts
        return None

    def expect_op(self, o):
        if not self.op(o):
            raise ValueError(f"expected {o} at {self.t[self.i:self.i+4]}")

    # predicate grammar
    def pred(self):
        return self.p_or()

    def p_or(self):
        xs = [self.p_and()]
        while self.kw("OR"):
            xs.append(self.p_and())
        return xs[0] if len(xs) == 1 else ("or", xs)

    def p_and(self):
        xs = [self.p_not()]
        while self.kw("AND"):
            xs.append(self.p_not())
        return xs[0] if len(xs) == 1 else ("and", xs)

    def p_not(self):
        if self.kw("NOT"):
            return ("not", self.p_not())
        return self.p_cmp()

    def p_cmp(self):
        save = self.i
        if self.op("("):
            # parenthesised predicate or expression
            try:
                inner = self.pred()
                self.expect_op(")")
                nxt = self.peek()
                if nxt is None or nxt.is_kw("AND", "OR", "ORDER", "LIMIT", "GROUP") or (nxt.kind == "op" and nxt.parts == ")"):
                    return inner
            except ValueError:
                pass
            self.i = save
        lhs = self.operand()
        neg = False
        if self.kw("IS"):
            neg = self.kw("NOT")
            self.kw("NULL")
            return ("isnull", lhs, neg)
        if self.kw("NOT"):
            neg = True
        if self.kw("IN"):
            self.expect_op("(")
            vals = [self.operand()]
            while self.op(","):
                vals.append(self.operand())
            self.expect_op(")")
            return ("in", lhs, vals, neg)
        if self.kw("LIKE", "ILIKE"):
            return ("like", lhs, self.operand(), neg)
        o = self.op("=", "==", "!=", "<>", "<", ">", "<=", ">=")
        if o:
            rhs = self.operand()
            return ("cmp", {"==": "=", "<>": "!="}.get(o, o), lhs, rhs)
        return ("truth", lhs)

    def operand(self):
        t = self.peek()
        if t is None:
            raise ValueError("unexpected end")
        if t.kind == "str":
            self.i += 1
            x = ("lit", t.parts)
        elif t.kind == "qid":
            self.i += 1
            x = ("col", t.text.upper())
        elif t.kind == "word":
            self.i += 1
            if self.op("("):
                args = []
                if not self.op(")"):
                    args.append(self.operand())
                    while self.op(","):
                        args.append(self.operand())
                    self.expect_op(")")
                x = ("func", t.up, args)
            else:
                name = [t]
                while self.op("."):
                    n2 = self.peek()
                    self.i += 1
                    name.append(n2)
                if len(name) == 1 and len(t.parts) == 1 and not isinstance(t.parts[0], str):
                    x = ("hole", t.parts[0])
                elif t.up in ("NULL", "TRUE", "FALSE") or t.text[:1].isdigit():
                    x = ("const", t.up)
                else:
                    x = ("col", name[-1].up, [n.up for n in name[:-1]])
        elif t.kind == "op" and t.parts == "(":
            self.i += 1
            x = self.operand()
            self.expect_op(")")
        else:
            raise ValueError(f"unexpected token {t}")
        while True:
            o = self.op("||", "::", "+", "-", "*", "/")
            if not o:
                break
            y = self.operand()
            x = ("binop", o, x, y)
        return x


def find_kw(toks: list[Tok], kw: str, start=0, depth0=True) -> int:
    depth = 0
    for i in range(start, len(toks)):
        t = toks[i]
        if t.kind == "op" and t.parts == "(":
            depth += 1
        elif t.kind == "op" and t.parts == ")":
            depth -= 1
        elif (not depth0 or depth == 0) and t.is_kw(kw):
            return i
    return -1


def where_pred(stmt: list[Tok]):
    """Top-level WHERE predicate of a SELECT (None if no WHERE; raises ValueError if unparsable)."""
    i = find_kw(stmt, "WHERE")
    if i < 0:
        return None
    end = len(stmt)
    for kw in ("ORDER", "LIMIT", "GROUP", "QUALIFY"):
        j = find_kw(stmt, kw, i)
        if j >= 0:
            end = min(end, j)
    p = P(stmt[i + 1:end])
    pred = p.pred()
    rest = p.t[p.i:]
    return pred, rest


def from_tables(stmt: list[Tok]) -> list[list[Tok]]:
    """Dotted names after FROM / JOIN at top level."""
    out = []
    depth = 0
    i = 0
    while i < len(stmt):
        t = stmt[i]
        if t.kind == "op" and t.parts == "(":
            depth += 1
        elif t.kind == "op" and t.parts == ")":
            depth -= 1
        elif depth == 0 and t.is_kw("FROM", "JOIN", "INTO", "UPDATE", "USING"):
            j = i + 1
            name = []
            while j < len(stmt) and stmt[j].kind in ("word", "qid"):
                name.append(stmt[j])
                if j + 1 < len(stmt) and stmt[j + 1].kind == "op" and stmt[j + 1].parts == ".":
                    j += 2
                else:
                    break
            if name:
                out.append(name)
        i += 1
    return out


def conjuncts(pred) -> list:
    if pred is None:
        return []
    if pred[0] == "and":
        out = []
        for x in pred[1]:
            out.extend(conjuncts(x))
        return out
    return [pred]


def classify(stmt: list[Tok]) -> dict:
    """Statement class of fakesnow-generated SQL."""
    if not stmt:
        return {"kind": "empty"}
    w = [t.up if t.kind == "word" else None for t in stmt[:6]] + [None] * 6
    d: dict = {"kind": "other", "head": " ".join(x for x in w[:3] if x)}
    if w[0] == "SELECT" or w[0] == "WITH":
        d["kind"] = "select"
        d["tables"] = from_tables(stmt)
    elif w[0] == "ATTACH":
        i = 1
        d["kind"] = "attach"
        d["if_not_exists"] = False
        if w[i] == "IF":
            d["if_not_exists"] = True
            i += 3
        if stmt[i].is_kw("DATABASE"):
            i += 1
        if stmt[i].is_kw("IF"):
            d["if_not_exists"] = True
            i += 3
        d["file"] = stmt[i].parts if stmt[i].kind == "str" else None
        i += 1
        if i < len(stmt) and stmt[i].is_kw("AS"):
            i += 1
        d["name"] = stmt[i] if i < len(stmt) else None
    elif w[0] == "CREATE":
        i = 1
        d["kind"] = "create"
        d["or_replace"] = False
        d["temp"] = False
        d["if_not_exists"] = False
        if stmt[i].is_kw("OR"):
            d["or_replace"] = True
            i += 2
        if stmt[i].is_kw("TEMP", "TEMPORARY"):
            d["temp"] = True
            i += 1
        d["what"] = stmt[i].up
        i += 1
        if stmt[i].is_kw("IF"):
            d["if_not_exists"] = True
            i += 3
        name = []
        while i < len(stmt) and stmt[i].kind in ("word", "qid"):
            name.append(stmt[i])
            if i + 1 < len(stmt) and stmt[i + 1].kind == "op" and stmt[i + 1].parts == ".":
                i += 2
            else:
                i += 1
                break
        d["name"] = name
        d["rest"] = stmt[i:]
    elif w[0] == "INSERT":
        d["kind"] = "insert"
        d["tables"] = from_tables(stmt)
        j = find_kw(stmt, "CONFLICT")
        if j >= 0:
            cols = []
            k = j + 1
            if stmt[k].kind == "op" and stmt[k].parts == "(":
                k += 1
                while stmt[k].kind != "op" or stmt[k].parts != ")":
                    if stmt[k].kind == "word":
                        cols.append(stmt[k].up)
                    k += 1
            d["conflict"] = cols
    elif w[0] == "SET":
        d["kind"] = "set"
        i = 1
        d["global"] = False
        if stmt[i].is_kw("GLOBAL", "SESSION", "LOCAL"):
            d["global"] = stmt[i].up
            i += 1
        d["var"] = stmt[i].up
        i += 1
        if i < len(stmt) and stmt[i].kind == "op" and stmt[i].parts == "=":
            i += 1
        d["value"] = stmt[i] if i < len(stmt) else None
    elif w[0] in ("UPDATE", "DELETE", "DROP", "ALTER", "BEGIN", "COMMIT", "ROLLBACK", "DESCRIBE", "TRUNCATE", "USE"):
        d["kind"] = w[0].lower()
        d["tables"] = from_tables(stmt)
    return d


def select_aliases(stmt: list[Tok]) -> list[str]:
    """Output column names of a top-level SELECT list (alias after AS, else last word of the item)."""
    i = 1
    end = find_kw(stmt, "FROM")
    if end < 0:
        end = len(stmt)
    items, cur, depth = [], [], 0
    for t in stmt[i:end]:
        if t.kind == "op" and t.parts == "(":
            depth += 1
        if t.kind == "op" and t.parts == ")":
            depth -= 1
        if depth == 0 and t.kind == "op" and t.parts == ",":
            items.append(cur)
            cur = []
        else:
            cur.append(t)
    if cur:
        items.append(cur)
    out = []
    for it in items:
        if not it:
            continue
        out.append(it[-1].text)
    return out
