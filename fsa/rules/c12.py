"""C12 — MERGE (narrow claim: the explode step's internal agreement, targets, helper lifetime, bracket)."""

from __future__ import annotations

import re

from .. import sqlt
from ..execmodel import ExecHooks, FullHooks, descriptors, lit, make_session, node, table
from ..interp import Hooks, explore
from ..model import AnalysisError
from ..values import Const, Lst, NodeV, Str, Sym, tagof
from .c02 import rule_ident_compare, rule_keyword_compare
from .common import text_of

EXPLANATION = (
    "Narrow claim. Row-level MERGE semantics and counts are computed by DuckDB and are not decided. Decided, by abstract "
    "interpretation of the three functions of the explode step on an abstract MERGE with every clause kind: the sibling "
    "ladders (candidate CASE, mutation statements, counts) classify each WHEN clause identically and by the same clause "
    "index, every clause index is used exactly once; every generated DML statement targets the MERGE target and reads "
    "the source only through the helper table; keyword comparisons in the ladders are case-normalised (C02.c); the helper "
    "table is TEMPORARY and must not outlive the statement; the exploded statements must be bracketed by a transaction "
    "to be all-or-nothing."
)
RULE_TEXT = (
    "C12.a=C02.c; C12.b per clause index: kind(candidates)==kind(mutations)==kind(counts)==clause kind; C12.c DML target "
    "== MERGE target; C12.f each generated statement names exactly its own clause's columns/values; C12.g the helper's select list carries every source column a clause reads, written with or without the source's name; C12.h render dialect == parse dialect for every assembled statement; C12.d helper TEMPORARY and dropped before execute returns; C12.e BEGIN..COMMIT/ROLLBACK bracket."
)
TRUSTED = ["CPython ast", "DuckDB temp tables are per connection", "statement descriptors mirror the pinned parser"]

CLAUSES = ["update", "delete", "insert", "update+cond", "delete(lower)", "insert(no column list)"]


def merge_descriptor():
    def ident(n):
        return NodeV("Identifier", {"this": Const(n), "quoted": Const(False)}, name=f"id:{n}", open=False)

    def col(t, c):
        return node("Column", f"{t}.{c}", this=ident(c), table=ident(t))
    on = node("EQ", "on", this=col("TGT", "ID"), expression=col("SRC", "ID"))
    upd = lambda c: node("Update", expressions=Lst([node("EQ", this=col("TGT", c), expression=col("SRC", c))]))  # noqa: E731
    ucol = lambda c: node("Column", c, this=ident(c))  # noqa: E731  (a source column written without its table)
    upd2 = lambda c, c2, u: node("Update", expressions=Lst([node("EQ", this=col("TGT", c), expression=col("SRC", c)),  # noqa: E731
                                                            node("EQ", this=col("TGT", c2), expression=ucol(u))]))
    ins = node("Insert", this=node("Tuple", expressions=Lst([col("TGT", "C2")])), expression=node("Tuple", expressions=Lst([col("SRC", "X2")])))
    whens = Lst([
        node("When", "w0", matched=Const(True), then=upd("V0")),
        node("When", "w1", matched=Const(True), then=node("Var", this=Const("DELETE"))),
        node("When", "w2", matched=Const(False), then=ins),
        node("When", "w3", matched=Const(True), then=upd2("V3", "W3", "U3"), condition=node("EQ", this=col("SRC", "FLAG"), expression=lit("1", False))),
        node("When", "w4", matched=Const(True), then=node("Var", this=Const("delete"))),
        node("When", "w5", matched=Const(False), then=node("Insert", expression=node("Tuple", expressions=Lst([col("SRC", "X5"), ucol("Y5")])))),
    ])
    t = node("Table", "TGT", this=ident("TGT"), db=ident("S9"), catalog=ident("D9"))  # MERGE INTO d9.s9.tgt
    s = node("Table", "SRC", this=ident("SRC"))
    return node("Merge", "merge", this=t, using=s, on=on, expressions=whens)


# the column / value names each clause's own payload consists of (every name belongs to exactly one clause)
PAYLOAD = [{"V0"}, set(), {"C2", "X2"}, {"V3", "W3", "U3"}, set(), {"X5", "Y5"}]
# the source columns each clause's statement reads (right-hand sides / inserted values), qualified or not
SOURCE_VALUES = [{"V0"}, set(), {"X2"}, {"V3", "U3"}, set(), {"X5", "Y5"}]

KIND = {"update": "updated", "delete": "deleted", "insert": "inserted", "update+cond": "updated", "delete(lower)": "deleted",
        "insert(no column list)": "inserted"}


PARTS = {"_create_merge_candidates": "candidates", "_mutations": "mutations", "_counts": "counts"}


def call_part(prog, I, fname, merge_node):
    """The `fname` part of the MERGE explode (the helper-table statement / the mutation statements / the counting statement) for
    one MERGE: the module-level function of that name when there is one, else — the explode restructured into a class, one
    function, … — the corresponding slice of what the public `merge()` returns ([helper, *mutations, counts])."""
    if prog.has_fn("transforms_merge", fname) and "." not in fname:
        return I.call(I.global_lookup("transforms_merge", fname), [merge_node], {}, None)
    whole = I.force(I.call(I.global_lookup("transforms_merge", "merge"), [merge_node], {}, None))
    items = whole.items if isinstance(whole, Lst) and not whole.open else None
    if not items or len(items) < 2:
        raise AnalysisError(f"C12: cannot locate the {PARTS[fname]} part of the MERGE explode")
    return {"candidates": items[0], "mutations": Lst(list(items[1:-1])), "counts": items[-1]}[PARTS[fname]]


def has_part(prog, fname):
    return prog.has_fn("transforms_merge", fname) or prog.has_fn("transforms_merge", "merge")


def _own_parses(p):
    """keep, of the path's parse effects, those that produced this part's statements (the whole explode ran on the path)"""
    nodes = p.value.items if isinstance(p.value, Lst) else [p.value]
    p.effects = [e for e in p.effects if e[0] != "parse" or len(e) < 6 or any(e[5] is n_ or getattr(n_, "copy_of", None) is e[5] for n_ in nodes)]
    return p


def _run(prog, fname):
    out = []
    whole = not (prog.has_fn("transforms_merge", fname) and "." not in fname)
    for p in explore(prog, lambda: ExecHooks(None), lambda I: call_part(prog, I, fname, merge_descriptor()), max_paths=64):
        out.append(_own_parses(p) if whole and p.outcome == "return" else p)
    return out


def rule_ladders(ctx):
    prog = ctx.prog
    ctx.analysed("transforms_merge._create_merge_candidates", "transforms_merge._mutations", "transforms_merge._counts", "transforms_merge.merge")
    m = prog.mod("transforms_merge")
    n = len(CLAUSES)
    # candidates: CASE WHEN ... THEN idx
    cand_idx = None
    for p in _run(prog, "_create_merge_candidates"):
        if p.outcome != "return":
            ctx.ob("C12.b", "candidate table statement is generated for every clause kind", False, m.path, repr(p.value))
            ctx.violation("C12.b", "transforms_merge", "_create_merge_candidates", f"raises {p.value.cls}", m.path,
                          f"building the candidates statement for a MERGE with clauses {CLAUSES} raises {p.value.cls}")
            continue
        parses = [e for e in p.effects if e[0] == "parse"]
        txt = text_of(parses[-1][2]) if parses else ""
        cand_idx = [int(x) for x in re.findall(r"THEN (\d+)", txt)]
        ok = cand_idx == list(range(n))
        ctx.ob("C12.b", f"candidates CASE assigns each clause its own index {list(range(n))}", ok, m.path, str(cand_idx))
        if not ok:
            ctx.violation("C12.b", "transforms_merge", "_create_merge_candidates", f"CASE indices {cand_idx}", m.path,
                          f"the candidate CASE uses clause indices {cand_idx} for {n} clauses; each WHEN clause needs its own index in order")
        # C12.g the helper carries every source column the mutation statements read
        up = txt.upper()
        i0, i1 = up.find("SELECT"), up.rfind(" FROM ")
        sel = txt[i0:i1] if 0 <= i0 < i1 else txt
        # the CASE that computes merge_op reads source columns in place; what the later statements can use is what is selected beside it
        sel = re.sub(r"\bCASE\b.*?\bEND\b(\s+AS\s+\w+)?", " ", sel, flags=re.I | re.S)
        carried = set(re.findall(r"[A-Za-z_][A-Za-z_0-9]*", sel))
        for i, need in enumerate(SOURCE_VALUES):
            missing = sorted(need - carried)
            ctx.ob("C12.g", f"the helper table carries the source columns clause {i} ({CLAUSES[i]}) reads: {sorted(need)}", not missing, m.path, str(missing))
            if missing:
                ctx.violation("C12.g", "transforms_merge", "_create_merge_candidates", f"clause {i} ({CLAUSES[i]}): source columns {missing} not carried", m.path,
                              f"WHEN clause #{i} ({CLAUSES[i]}) reads the source column(s) {missing}, but the helper table the mutation statements "
                              f"select from does not carry them (select list: {sorted(carried)[:12]}): the generated UPDATE/INSERT fails to bind "
                              f"(or binds a target column of the same name)")
        temp = bool(re.search(r"CREATE\s+(OR\s+REPLACE\s+)?TEMP(ORARY)?\s+TABLE", txt, re.I))
        ctx.ob("C12.d", "helper table is TEMPORARY (invisible to other connections)", temp, m.path)
        if not temp:
            ctx.violation("C12.d", "transforms_merge", "_create_merge_candidates", "helper table not temporary", m.path,
                          "the MERGE helper table is not created as a TEMPORARY table: it is visible to (and clobbered by) other sessions")
    # mutations
    mut = {}
    for p in _run(prog, "_mutations"):
        if p.outcome != "return":
            ctx.ob("C12.b", "mutation statements are generated for every clause kind", False, m.path, repr(p.value))
            ctx.violation("C12.b", "transforms_merge", "_mutations", f"raises {p.value.cls}", m.path,
                          f"building the mutation statements for a MERGE with clauses {CLAUSES} raises {p.value.cls}")
            continue
        for e in [e for e in p.effects if e[0] == "parse"]:
            txt = text_of(e[2])
            toks = sqlt.tokenize(e[2])
            kind = toks[0].up if toks else "?"
            im = re.search(r"merge_op\s*=\s*(\d+)", txt)
            idx = int(im.group(1)) if im else None
            mut.setdefault(idx, []).append({"DELETE": "deleted", "UPDATE": "updated", "INSERT": "inserted"}.get(kind, kind))
            # C12.f each statement carries its own clause's payload (SET list, column list, values) and nobody else's
            if idx is not None and idx < len(PAYLOAD):
                every = set().union(*PAYLOAD)
                got_p = {w for w in re.findall(r"[A-Za-z_][A-Za-z_0-9]*", txt) if w in every}
                ok_p = got_p == PAYLOAD[idx]
                ctx.ob("C12.f", f"{kind} statement of clause {idx} carries exactly that clause's columns and values {sorted(PAYLOAD[idx])}", ok_p,
                       m.loc(e[4]) if e[4] is not None else m.path, str(sorted(got_p)))
                if not ok_p:
                    ctx.violation("C12.f", "transforms_merge", "_mutations", f"clause {idx} ({CLAUSES[idx]}): payload {sorted(got_p)}", m.path,
                                  f"the {kind} generated for WHEN clause #{idx} ({CLAUSES[idx]}) names {sorted(got_p)} but the clause itself gives "
                                  f"{sorted(PAYLOAD[idx])}: columns/values of another clause leak into it (or its own are lost), so rows get "
                                  f"values in the wrong columns")
            # C12.c targets
            tabs = sqlt.from_tables(toks)
            first = ".".join(t.text for t in tabs[0]) if tabs else ""
            # the whole (qualified) target: the rendered table node, or every part of its name
            ok_t = ("sql(TGT)" in first or all(x in first for x in ("D9", "S9", "TGT"))) and "SRC" not in first
            others = [".".join(t.text for t in tb) for tb in tabs[1:]]
            ok_s = all("merge_candidates" in o.lower() or "TGT" in o for o in others)
            ctx.ob("C12.c", f"{kind} statement of clause {idx}: target is the MERGE target, source only via the helper table", ok_t and ok_s,
                   m.loc(e[4]) if e[4] is not None else m.path, f"{first} / {others}")
            if not (ok_t and ok_s):
                ctx.violation("C12.c", "transforms_merge", "_mutations", f"{kind} targets {first} reads {others}", m.path,
                              f"the {kind} generated for clause {idx} modifies `{first}` and reads {others}: MERGE must change only its target "
                              f"and read the source through the candidates table")
    # C12.h a statement assembled from rendered fragments is parsed in the dialect the fragments were rendered in
    for fname in ("_create_merge_candidates", "_mutations", "_counts"):
        for p in _run(prog, fname):
            for e in [e for e in p.effects if e[0] == "parse"]:
                read = e[3].get("read") if isinstance(e[3], dict) else None
                read = read.v if isinstance(read, Const) else None
                src = e[2]
                holes = [h for h in (src.parts if isinstance(src, Str) else []) if isinstance(h, Sym) and h.origin and h.origin[0] == "sql"]
                dialects = set()
                for h in holes:
                    d = h.origin[2] if len(h.origin) > 2 else None
                    dialects.add(d.v if isinstance(d, Const) else None)
                bad = [d for d in dialects if d != read]
                ctx.ob("C12.h", f"{fname}: fragments rendered in {sorted(map(str, dialects))} are parsed with read={read}", not bad,
                       m.loc(e[4]) if e[4] is not None else m.path)
                if bad:
                    ctx.violation("C12.h", "transforms_merge", fname, f"rendered as {sorted(map(str, dialects))}, parsed as {read}", m.loc(e[4]) if e[4] is not None else m.path,
                                  f"{fname} renders the fragments of the statement in dialect {sorted(map(str, dialects))} (None = sqlglot's default) but parses "
                                  f"the assembled text with read={read!r}: literal syntax differs between dialects (a backslash in a string literal "
                                  f"becomes an escape), so the values of UPDATE SET / INSERT VALUES change")
            break
    # counts
    cnt = {}
    for p in _run(prog, "_counts"):
        if p.outcome != "return":
            ctx.ob("C12.b", "counts statement is generated for every clause kind", False, m.path, repr(p.value))
            ctx.violation("C12.b", "transforms_merge", "_counts", f"raises {p.value.cls}", m.path,
                          f"building the counts statement for a MERGE with clauses {CLAUSES} raises {p.value.cls}")
            continue
        parses = [e for e in p.effects if e[0] == "parse"]
        txt = text_of(parses[-1][2]) if parses else ""
        for idxs, word in re.findall(r"merge_op in \(([\d,\s]*)\)\)? as \\?\"?number of rows (\w+)", txt):
            for i in idxs.split(","):
                if i.strip():
                    cnt.setdefault(int(i), []).append(word)
    for i, clause in enumerate(CLAUSES):
        want = KIND[clause]
        got_m, got_c = mut.get(i), cnt.get(i)
        ok = got_m == [want] and got_c == [want]
        ctx.ob("C12.b", f"clause {i} ({clause}): mutation kind == counted kind == {want}", ok, m.path, f"mutations {got_m} counts {got_c}")
        if not ok:
            ctx.violation("C12.b", "transforms_merge", "merge", f"clause {i} ({clause}): mutations {got_m} counts {got_c}", m.path,
                          f"WHEN clause #{i} ({clause}) is carried out as {got_m} but counted as {got_c} (expected both {want}): the sibling "
                          f"ladders of the MERGE explode step disagree, so rows are changed by the wrong statement or the reported counts are wrong")


def rule_quoted_identifiers_kept(ctx):
    """C12.j: identifiers of the user's MERGE reach the generated statements through their nodes (which render the quotes a
    name needs), never as bare text: a target column written `"Ship To"` is not emitted as `Ship To`."""
    prog = ctx.prog

    def ident(n, quoted=False):
        return NodeV("Identifier", {"this": Const(n), "quoted": Const(quoted)}, name=f"id:{n}", open=False)

    def col(t, c, quoted=False):
        return node("Column", f"{t}.{c}", this=ident(c, quoted), table=ident(t))

    def merge():
        on = node("EQ", "on", this=col("TGT", "ID"), expression=col("SRC", "ID"))
        upd = node("Update", expressions=Lst([node("EQ", this=col("TGT", "Ship To", True), expression=col("SRC", "Sent To", True))]))
        ins = node("Insert", this=node("Tuple", expressions=Lst([col("TGT", "Ship To", True)])),
                   expression=node("Tuple", expressions=Lst([col("SRC", "Sent To", True)])))
        whens = Lst([node("When", "w0", matched=Const(True), then=upd), node("When", "w1", matched=Const(False), then=ins)])
        return node("Merge", "merge", this=node("Table", "TGT", this=ident("TGT")), using=node("Table", "SRC", this=ident("SRC")),
                    on=on, expressions=whens)

    m = prog.mod("transforms_merge")
    n = 0
    for fname in ("_mutations", "_create_merge_candidates"):
        if not has_part(prog, fname):
            continue
        for p in explore(prog, lambda: ExecHooks(None), lambda I, fname=fname: call_part(prog, I, fname, merge()),
                         max_paths=32):
            if p.outcome != "return":
                continue
            stmts = p.value.items if isinstance(p.value, Lst) else [p.value]
            for st in stmts:
                src = getattr(st, "parsed_from", None)
                if not isinstance(src, Str):
                    continue
                n += 1
                literal = "".join(x for x in src.parts if isinstance(x, str))
                bare = [nm for nm in ("Ship To", "Sent To") if re.search(r'(?<!")' + re.escape(nm) + r'(?!")', literal)]
                ctx.ob("C12.j", f"{fname}: quoted identifiers are rendered through their nodes", not bare, m.path, str(bare))
                if bare:
                    ctx.violation("C12.j", "transforms_merge", fname, f"identifier {bare[0]!r} emitted as bare text", m.path,
                                  f"the statement generated by {fname} contains the column name {bare[0]!r} as bare text (taken from `.name`) instead "
                                  f"of the rendering of its identifier node: a column that needs its quotes (`\"Ship To\"`, `\"order\"`) is written "
                                  f"without them and the MERGE fails to parse or names another column")
            break
    ctx.floor("C12.j generated statements", n, 3)


def rule_conditions_keep_grouping(ctx):
    """C12.k: a WHEN condition is conjoined with the join predicate as one unit: a disjunction the user wrote in parentheses
    reaches the generated statements inside its parentheses (`join AND (a OR b)`, never `join AND a OR b`)."""
    prog = ctx.prog

    def ident(n):
        return NodeV("Identifier", {"this": Const(n), "quoted": Const(False)}, name=f"id:{n}", open=False)

    def col(t, c):
        return node("Column", f"{t}.{c}", this=ident(c), table=ident(t))

    def cond(tag):
        o = node("Or", f"or_{tag}", this=node("EQ", this=col("SRC", "FLAG"), expression=lit("1", False)),
                 expression=node("EQ", this=col("SRC", "FLAG"), expression=lit("2", False)))
        pr = node("Paren", f"paren_{tag}", this=o)
        o.parent = pr
        return pr

    def merge():
        on = node("EQ", "on", this=col("TGT", "ID"), expression=col("SRC", "ID"))
        ins = node("Insert", this=node("Tuple", expressions=Lst([col("TGT", "ID")])), expression=node("Tuple", expressions=Lst([col("SRC", "ID")])))
        whens = Lst([node("When", "w0", matched=Const(True), then=node("Var", this=Const("DELETE")), condition=cond("m")),
                     node("When", "w1", matched=Const(False), then=ins, condition=cond("n"))])
        return node("Merge", "merge", this=node("Table", "TGT", this=ident("TGT")), using=node("Table", "SRC", this=ident("SRC")),
                    on=on, expressions=whens)

    def bare_or(v, under_and):
        """an Or node reachable from v without passing its parentheses, below a conjunction"""
        if not isinstance(v, NodeV):
            return False
        if v.cls == "Paren":
            return False
        if v.cls == "Or":
            return under_and
        if v.cls == "And":
            return bare_or(v.args.get("this"), True) or bare_or(v.args.get("expression"), True)
        return False

    m = prog.mod("transforms_merge")
    n = 0
    for fname in ("_create_merge_candidates", "_mutations", "_counts"):
        if not has_part(prog, fname):
            continue
        for p in explore(prog, lambda: ExecHooks(None), lambda I, fname=fname: call_part(prog, I, fname, merge()),
                         max_paths=32):
            if p.outcome != "return":
                continue
            stmts = p.value.items if isinstance(p.value, Lst) else [p.value]
            for st in stmts:
                src = getattr(st, "parsed_from", None)
                if not isinstance(src, Str):
                    continue
                n += 1
                bad = []

                def scan(parts, prev_text=""):
                    for x in parts:
                        if isinstance(x, str):
                            prev_text = x
                            continue
                        if isinstance(x, Str):
                            scan(x.parts, prev_text)
                        elif isinstance(x, Sym) and x.origin and x.origin[0] == "sql" and isinstance(x.origin[1], NodeV):
                            nd = x.origin[1]
                            after_and = bool(re.search(r"\bAND\s*$", prev_text, re.I))
                            if bare_or(nd, after_and):
                                bad.append(nd.name)
                        elif isinstance(x, Sym) and x.origin and x.origin[0] == "join":
                            seq = x.origin[2] if len(x.origin) > 2 else None
                            for y in (getattr(seq, "items", None) or []):
                                if isinstance(y, Str):
                                    scan(y.parts, "")
                scan(src.parts)
                ctx.ob("C12.k", f"{fname}: a parenthesised disjunction in a WHEN condition stays grouped", not bad, m.path, str(bad))
                if bad:
                    ctx.violation("C12.k", "transforms_merge", fname, "WHEN condition conjoined without its parentheses", m.path,
                                  f"{fname} conjoins the WHEN condition `(a OR b)` with another predicate after stripping its parentheses: the text reads "
                                  f"`<join> AND a OR b`, so rows that satisfy only `b` are treated as matched (deleted / updated / counted) whatever "
                                  f"the join predicate says")
            break
    ctx.floor("C12.k generated statements", n, 2)


def rule_helper_carries_source_only(ctx):
    """C12.g2: what the helper table carries beside the join keys are columns of the *source*: a target column read by a SET /
    VALUES expression (`SET bal = t.bal + s.bal`) is the target's current value in the mutation statement, never a copy in the
    helper — a second column of the same name there makes `s.bal` ambiguous (or resolve to the target's value)."""
    prog = ctx.prog

    def ident(n):
        return NodeV("Identifier", {"this": Const(n), "quoted": Const(False)}, name=f"id:{n}", open=False)

    def col(t, c):
        return node("Column", f"{t}.{c}", this=ident(c), table=ident(t))

    def merge():
        on = node("EQ", "on", this=col("TGT", "ID"), expression=col("SRC", "ID"))
        add = node("Add", "sum", this=col("TGT", "BAL"), expression=col("SRC", "BAL"))
        upd = node("Update", expressions=Lst([node("EQ", this=col("TGT", "BAL"), expression=add)]))
        ins = node("Insert", this=node("Tuple", expressions=Lst([col("TGT", "BAL")])),
                   expression=node("Tuple", expressions=Lst([node("Add", "sum2", this=col("SRC", "BAL"), expression=lit("1", False))])))
        whens = Lst([node("When", "w0", matched=Const(True), then=upd), node("When", "w1", matched=Const(False), then=ins)])
        return node("Merge", "merge", this=node("Table", "TGT", this=ident("TGT")), using=node("Table", "SRC", this=ident("SRC")),
                    on=on, expressions=whens)

    m = prog.mod("transforms_merge")
    n = 0
    for p in explore(prog, lambda: ExecHooks(None), lambda I: call_part(prog, I, "_create_merge_candidates", merge()), max_paths=32):
        if p.outcome != "return":
            continue
        src = getattr(p.value, "parsed_from", None)
        if not isinstance(src, Str):
            continue
        n += 1
        from .c05 import _prov_nodes
        # renderings placed before the CASE (the carried select list)
        head = []
        for x in src.parts:
            if isinstance(x, str) and re.search(r"\bCASE\b", x, re.I):
                break
            head.append(x)
        carried_nodes = [y.origin[1] for x in head if not isinstance(x, str) for y in _prov_nodes(x)
                         if isinstance(y, Sym) and y.origin and y.origin[0] == "sql" and isinstance(y.origin[1], NodeV)]
        bad = [nd.name for nd in carried_nodes if nd.cls == "Column" and isinstance(nd.args.get("table"), NodeV)
               and isinstance(nd.args["table"].args.get("this"), Const) and nd.args["table"].args["this"].v == "TGT"]
        ctx.ob("C12.g2", "the helper table carries no column of the MERGE target", not bad, m.path, str(bad))
        if bad:
            ctx.violation("C12.g2", "transforms_merge", "_create_merge_candidates", "target column carried into the helper table", m.path,
                          f"the helper table selects {bad} — columns of the MERGE *target* — next to the source's: with `SET bal = t.bal + s.bal` it "
                          f"holds two columns named bal, and `s.bal` in the UPDATE resolves to the target's own value (rows doubled, inserts NULL)")
        break
    ctx.floor("C12.g2 helper statements", n, 1)


def rule_whole_on_condition(ctx):
    """C12.l: the UPDATE / DELETE generated for a WHEN MATCHED clause finds "its" target rows by joining the target to the helper
    table with the MERGE's ON condition — all of it. The helper identifies source rows only, so a conjunct on the target alone
    (`ON t.id = s.id AND t.cur = 1`) is what keeps target rows the ON excluded out of the mutation."""
    from .c05 import _prov_nodes

    prog = ctx.prog
    m = prog.mod("transforms_merge")

    def ident(n_):
        return NodeV("Identifier", {"this": Const(n_), "quoted": Const(False)}, name=f"id:{n_}", open=False)

    def md():
        d = merge_descriptor()
        on = d.args["on"]
        extra = node("EQ", "on_target_only", this=node("Column", "TGT.CUR", this=ident("CUR"), table=ident("TGT")), expression=lit("1", False))
        both = node("And", "on_and", this=on, expression=extra)
        on.parent = extra.parent = both
        both.parent = d
        d.args["on"] = both
        return d

    n = 0
    for p in explore(prog, lambda: ExecHooks(None), lambda I: call_part(prog, I, "_mutations", md()), max_paths=64):
        if p.outcome != "return":
            continue
        if not (prog.has_fn("transforms_merge", "_mutations")):
            p = _own_parses(p)
        for e in [e for e in p.effects if e[0] == "parse"]:
            toks = sqlt.tokenize(e[2])
            kind = toks[0].up if toks else "?"
            if kind not in ("UPDATE", "DELETE"):
                continue
            n += 1
            rendered = {x.origin[1].name for x in _prov_nodes(e[2]) if isinstance(x, Sym) and x.origin and x.origin[0] in ("sql", "str")
                        and len(x.origin) > 1 and isinstance(x.origin[1], NodeV)}
            missing = [] if "on_and" in rendered else [c for c in ("on", "on_target_only") if c not in rendered]
            loc = m.loc(e[4]) if e[4] is not None else m.path
            ctx.ob("C12.l", f"{kind} statement joins target and helper with the whole ON condition", not missing, loc, str(sorted(rendered))[:80])
            if missing:
                ctx.violation("C12.l", "transforms_merge", "_mutations", f"{kind} joins without the ON conjunct(s) {missing}", loc,
                              f"for `ON tgt.id = src.id AND tgt.cur = 1` the generated {kind} re-joins the target to the helper table without "
                              f"{'the target-only conjunct `tgt.cur = 1`' if missing == ['on_target_only'] else missing}: every target row sharing the key "
                              f"with a matched pair is changed, including rows the ON condition excluded (while the counts report only the real pairs)")
    ctx.floor("C12.l matched-clause statements", n, 4)


def rule_same_named_columns_kept_apart(ctx):
    """C12.m: `WHEN MATCHED THEN UPDATE SET v = src.v, prev = tgt.v` reads a source column and a target column of the same bare
    name: the helper table still carries the *source* column (keyed by the whole reference, not by the bare name — a map keyed
    by `v` keeps one of the two and the SET silently assigns the target's own old value)."""
    prog = ctx.prog
    m = prog.mod("transforms_merge")

    def ident(n_):
        return NodeV("Identifier", {"this": Const(n_), "quoted": Const(False)}, name=f"id:{n_}", open=False)

    def col(t, c):
        return node("Column", f"{t}.{c}", this=ident(c), table=ident(t))

    def md():
        d = merge_descriptor()
        upd = node("Update", expressions=Lst([node("EQ", this=col("TGT", "V"), expression=col("SRC", "V")),
                                              node("EQ", this=col("TGT", "PREV"), expression=col("TGT", "V"))]))
        d.args["expressions"] = Lst([node("When", "w0", matched=Const(True), then=upd)])
        return d

    n = 0
    whole = not prog.has_fn("transforms_merge", "_create_merge_candidates")
    for p in explore(prog, lambda: ExecHooks(None), lambda I: call_part(prog, I, "_create_merge_candidates", md()), max_paths=64):
        if p.outcome != "return":
            continue
        if whole:
            p = _own_parses(p)
        parses = [e for e in p.effects if e[0] == "parse"]
        if not parses:
            continue
        n += 1
        txt = text_of(parses[-1][2] if not whole else parses[0][2])
        up = txt.upper()
        i0, i1 = up.find("SELECT"), up.rfind(" FROM ")
        sel = txt[i0:i1] if 0 <= i0 < i1 else txt
        sel = re.sub(r"\bCASE\b.*?\bEND\b(\s+AS\s+\w+)?", " ", sel, flags=re.I | re.S)
        ok = "SRC.V" in sel
        ctx.ob("C12.m", "SET v = src.v, prev = tgt.v: the helper carries the source column src.v", ok, m.path, " ".join(sel.split())[:90])
        if not ok:
            ctx.violation("C12.m", "transforms_merge", "_create_merge_candidates", "source column lost to a same-named target column", m.path,
                          f"for `UPDATE SET v = src.v, prev = tgt.v` the helper table selects `{' '.join(sel.split())[:80]}`: the source column src.v is "
                          f"not carried (columns are collected under their bare name, the target's `v` replaced it), so `v` keeps its old value "
                          f"while the reported counts look right")
    ctx.floor("C12.m helper statements", n, 1)


class MergeHooks(FullHooks):
    def external(self, I, d, args, kwargs, site):
        if d in ("sqlglot.parse_one",) and isinstance(kwargs.get("read"), Const) and kwargs["read"].v == "snowflake":
            self.parsed += 1
            return merge_descriptor()
        return super().external(I, d, args, kwargs, site)


def rule_lifetime_and_bracket(ctx):
    prog = ctx.prog
    hooks, sessions = [], []

    def fac():
        h = MergeHooks(None, "SELECT")
        hooks.append(h)
        return h

    def run(I):
        duck, conn, cur = make_session()
        sessions.append(cur)
        return I.call(I.getattr(cur, "execute"), [Sym("MERGE_COMMAND", typ="str", truthy=True), Const(None)], {}, None)

    n = 0
    for p, h in zip(explore(prog, fac, run, max_paths=64), hooks):
        if h.parsed and p.outcome == "raise" and not h.calls:
            ctx.ob("C12.b", "a MERGE with every clause kind (incl. lower-case DELETE) is exploded without error", False, "fakesnow/transforms_merge.py")
            ctx.violation("C12.b", "transforms_merge", "merge", f"explode raises {p.value.cls}", "fakesnow/transforms_merge.py",
                          f"exploding a MERGE with clauses {CLAUSES} raises {p.value.cls} before anything is executed")
            n += 1
            continue
        if not h.parsed or p.outcome != "return":
            continue
        n += 1
        heads = []
        for sqlv, _, _ in h.calls:
            from .common import sql_root
            k, root = sql_root(sqlv)
            if k == "node":
                src = getattr(root, "parsed_from", None)
                heads.append((text_of(src).split(None, 3)[:3] if src is not None else [root.cls or "?"]))
            elif k == "text":
                heads.append([t.up for t in root[:3] if t.kind == "word"])
        flat = [" ".join(x).upper() for x in heads]
        dropped = any(f.startswith("DROP") and "MERGE_CANDIDATES" in text_of(c[0]).upper() for f, c in zip(flat, h.calls))
        ctx.ob("C12.d", "the helper table is dropped before execute() returns", dropped, "fakesnow/transforms_merge.py", str(flat[:8]))
        if not dropped:
            ctx.violation("C12.d", "transforms_merge", "merge", "helper table never dropped", "fakesnow/transforms_merge.py",
                          "MERGE leaves its helper table behind: `select * from merge_candidates` works afterwards and SHOW OBJECTS lists "
                          "MERGE_CANDIDATES; CREATE OR REPLACE also shadows a user table of that name")
        # C12.i: every statement the MERGE explodes into passes the whole rewrite pipeline before it is executed (the clauses
        # embed the user's own conditions and expressions, which need the same rewrites as anywhere else)
        from ..pipeline import stages
        want = {f"transforms.{s_.name}" for s_ in stages(prog) if s_.fn is not None}
        seg, n_exec = set(), 0
        for e in p.effects:
            if e[0] != "enter":
                continue
            if e[1].endswith("._execute"):
                n_exec += 1
                missing = sorted(want - seg)
                ok_i = not missing
                ctx.ob("C12.i", f"exploded statement #{n_exec} passes every rewrite stage before _execute", ok_i, "fakesnow/cursor.py",
                       f"{len(want) - len(missing)}/{len(want)} stages")
                if not ok_i and n_exec <= 8:
                    ctx.violation("C12.i", "cursor", "FakeSnowflakeCursor.execute", f"exploded MERGE statement skips {len(missing)} rewrite stages",
                                  "fakesnow/cursor.py",
                                  f"statement #{n_exec} of an exploded MERGE reaches _execute without the rewrite stages {missing[:4]}…: the "
                                  f"user's ON / WHEN conditions and SET / VALUES expressions inside it are evaluated with raw DuckDB semantics "
                                  f"(semi-structured access, Snowflake functions and types are not rewritten)")
                seg = set()
            elif e[1] in want:
                seg.add(e[1])
        ctx.floor("C12.i exploded statements executed", n_exec, 3)
        begins = [i for i, f in enumerate(flat) if f.startswith(("BEGIN", "TRANSACTION", "START"))]
        ends = [i for i, f in enumerate(flat) if f.startswith(("COMMIT", "ROLLBACK"))]
        bracket = bool(begins) and bool(ends) and begins[0] < ends[-1]
        ctx.ob("C12.e", "the exploded statements run inside one transaction", bracket, "fakesnow/cursor.py", str(flat[:8]))
        if not bracket:
            ctx.violation("C12.e", "cursor", "FakeSnowflakeCursor.execute", "exploded statements not bracketed", "fakesnow/cursor.py",
                          "the statements a MERGE is exploded into are executed one after another in autocommit: when a later one fails "
                          "(e.g. NOT NULL violation in the INSERT step) the earlier UPDATE/DELETE stay applied — MERGE is not all-or-nothing")
    ctx.floor("C12 execute paths", n, 1)


from .c19 import rule_temporary_stays_private  # noqa: E402  (the helper is TEMPORARY in the template *and* at the engine)

RULES = [
    ("C12.m", rule_same_named_columns_kept_apart, ("quick", "thorough")),
    ("C12.l", rule_whole_on_condition, ("quick", "thorough")),
    ("C12.g2", rule_helper_carries_source_only, ("quick", "thorough")),
    ("C12.k", rule_conditions_keep_grouping, ("quick", "thorough")),
    ("C12.j", rule_quoted_identifiers_kept, ("quick", "thorough")),
    ("C12.d2", rule_temporary_stays_private, ("quick", "thorough")),
    ("C12.a", rule_keyword_compare, ("quick", "thorough")),
    ("C12.a2", rule_ident_compare, ("quick", "thorough")),
    ("C12.b", rule_ladders, ("quick", "thorough")),
    ("C12.d", rule_lifetime_and_bracket, ("quick", "thorough")),
]
