"""C15 — session variables substitute exactly, per connection."""

from __future__ import annotations

import ast
import re
import re._parser as sre_parse  # type: ignore[import-not-found]

from ..execmodel import run_execute
from ..interp import Hooks, explore
from ..values import Const, Dct, Ext, Func, Lam, Obj, Str, Sym, tagof
from .c07 import rule_undefined_variable
from .common import text_of

EXPLANATION = (
    "Ownership and pattern-shape rules: the variable mapping is created per Variables object, the Variables object "
    "per connection (constructor effect trace), and no class-level or module-level mutable container holds variable "
    "state; the name-specific reference pattern is read with the regex parser: after the name it must assert that no "
    "word character follows (otherwise a variable whose name is a prefix of another rewrites the longer reference), "
    "it must be case-insensitive, and the replacement must be a callable (a string replacement is interpreted for "
    "backslash escapes); a residual reference is refused before parsing; substitution must not touch string literals. "
    "SET/UNSET recognition is checked through the statement descriptors. Values themselves are not computed."
)
RULE_TEXT = (
    "C15.a no shared container; C15.b regex AST of the pattern: `\\$`+name followed by a negative word look-ahead or "
    "\\b, IGNORECASE flag; C15.c replacement argument is a callable; C15.d=C07.e; C15.e substitution is token-aware; "
    "C15.f SET/UNSET descriptors update the connection's own mapping and become the success no-op; C15.g stored value "
    "rendered in the Snowflake dialect; C15.h SET/UNSET stage after the folding stage; C15.i every state the "
    "substitution reads is updated by both SET and UNSET."
    " C15.e also: a string-literal branch of the reference pattern must know backslash escapes."
    " C15.j = C16.a (execute_string does not substitute the whole script up front)."
)
TRUSTED = ["CPython ast and re._parser", "re.sub interprets backslash escapes in a string replacement"]


def rule_store(ctx):
    prog = ctx.prog
    m = prog.mod("variables")
    cls = prog.cls("variables", "Variables")
    ctx.analysed("variables.Variables.__init__", "conn.FakeSnowflakeConnection.__init__")
    def per_instance(st_):  # a dataclass field with a default factory is created per object, not once per class
        v = getattr(st_, "value", None)
        return isinstance(st_, ast.AnnAssign) and isinstance(v, ast.Call) and ast.unparse(v.func).split(".")[-1] == "field" \
            and any(k.arg == "default_factory" for k in v.keywords)

    bad = [s for s in cls.body if isinstance(s, (ast.Assign, ast.AnnAssign)) and isinstance(getattr(s, "value", None), (ast.Dict, ast.List, ast.Set, ast.Call))
           and not per_instance(s)]
    ctx.ob("C15.a", "Variables has no class-level mutable container", not bad, m.loc(cls))
    for s in bad:
        ctx.violation("C15.a", "variables", "Variables", s, m.loc(s),
                      "a class-level container holds variable state: it is shared by every connection, so SET in one session is seen by all")
    modbad = [k for k, v in m.consts.items() if isinstance(v, (ast.Dict, ast.List, ast.Set)) or (isinstance(v, ast.Call) and ast.unparse(v.func) in ("dict", "list", "set", "defaultdict"))]
    ctx.ob("C15.a", "variables.py has no module-level mutable container", not modbad, m.path)
    for k in modbad:
        ctx.violation("C15.a", "variables", "<module>", m.const_stmts[k], m.loc(m.const_stmts[k]),
                      f"module-level container `{k}` may hold variable state shared by all connections")
    # the connection constructor creates a fresh Variables whose mapping is created in its own constructor
    from ..connectmodel import Point, run_point_states

    n = 0
    for path, st in run_point_states(prog, Point(False, None, True, True, False, False, False)):
        conn = path.value
        n += 1
        v = conn.attrs.get("variables") if isinstance(conn, Obj) else None
        news = [e for e in path.effects if e[0] == "new" and e[1].endswith("variables.Variables")]
        ok = isinstance(v, Obj) and v.cls == ("variables", "Variables") and len(news) == 1 and news[0][5] is v
        from ..values import Lst as _Lst
        inner = [e for e in path.effects if e[0] == "store" and e[1] is v and isinstance(e[3], (Dct, _Lst))]  # its own fresh container
        ok = ok and len(inner) >= 1
        ctx.ob("C15.a", "each connection constructs its own Variables with its own mapping", ok, "fakesnow/conn.py")
        if not ok:
            ctx.violation("C15.a", "conn", "FakeSnowflakeConnection.__init__", "variables ownership", "fakesnow/conn.py",
                          "the connection does not create its own Variables object / mapping in its constructor: variables would be "
                          "shared across connections")
    ctx.floor("C15.a constructor paths", n, 1)


def _sub_calls(prog):
    """re.sub / re.search effects of inline_variables with one variable defined."""
    out = []
    for tr in run_execute(prog, "SELECT", None, variables={"VARNAME": Const("VALUE")}):
        compiled = {}
        for e in tr.path.effects:
            if e[0] == "call" and e[1] in ("re.sub", "re.subn"):
                out.append(e)
            elif e[0] == "call" and e[1] == "re.compile":
                compiled[len(compiled)] = e
            elif e[0] == "call" and str(e[1]).endswith((".sub", ".subn")) and "re.compile" in str(e[1]) and compiled:
                # <compiled>.sub(repl, text): present it in re.sub's argument layout
                c = list(compiled.values())[-1]
                pat = c[2][0] if c[2] else c[3].get("pattern")
                flags = c[3].get("flags", c[2][1] if len(c[2]) > 1 else None)
                args = [pat, *e[2]]
                out.append(("call", "re.sub", args, {"flags": flags} if flags is not None else {}, e[4]))
        if out:
            break
    if not out:
        # the variable store is not the mapping the session model fills in: define the variable through SET instead
        from ..execmodel import ExecHooks, lit, node
        from ..values import ClsRef, Lst, NodeV

        def run(I):
            v = I.construct(ClsRef("fakesnow.variables.Variables"), [], {}, None)
            col = NodeV("Column", {"this": NodeV("Identifier", {"this": Const("VARNAME"), "quoted": Const(False)}, name="id:VARNAME", open=False)},
                        name="col:VARNAME", open=False)
            st = node("Set", "stmt", unset=Const(False), tag=Const(False),
                      expressions=Lst([node("SetItem", this=node("EQ", this=col, expression=lit("1", False)))]))
            I.call(I.getattr(v, "update_variables"), [st], {}, None)
            return I.call(I.getattr(v, "inline_variables"), [Sym("SQL", typ="str", truthy=True)], {}, None)

        for p in explore(prog, lambda: ExecHooks(None), run, max_paths=16):
            out = [e for e in p.effects if e[0] == "call" and e[1] in ("re.sub", "re.subn")]
            if out:
                break
    return out


def _pattern_text(v):
    if isinstance(v, Const):
        return str(v.v), False
    if isinstance(v, Str):
        txt = ""
        has = False
        for p in v.parts:
            if isinstance(p, str):
                txt += p
            else:
                txt += "VARNAME"
                has = True
        return txt, has
    return None, False


def _branches(pattern: str) -> list[str]:
    """top-level alternatives of a regex (split at `|` outside groups and character classes)"""
    out, cur, depth, in_class, i = [], "", 0, False, 0
    while i < len(pattern):
        c = pattern[i]
        if c == "\\" and i + 1 < len(pattern):
            cur += pattern[i:i + 2]
            i += 2
            continue
        if in_class:
            in_class = c != "]"
        elif c == "[":
            in_class = True
        elif c == "(":
            depth += 1
        elif c == ")":
            depth -= 1
        elif c == "|" and depth == 0:
            out.append(cur)
            cur = ""
            i += 1
            continue
        cur += c
        i += 1
    out.append(cur)
    return out


def _strip_group(b: str) -> str:
    while b.startswith("(") and b.endswith(")") and not b.startswith("(?"):
        b = b[1:-1]
    return b


def _boundary_after_name(pattern: str) -> bool:
    """Does the pattern forbid a word character right after the literal VARNAME?"""
    try:
        parsed = sre_parse.parse(pattern)
    except Exception:  # noqa: BLE001
        return False
    items = list(parsed)
    # locate the end of the literal run spelling VARNAME
    lits = ""
    for i, (op, av) in enumerate(items):
        if str(op) == "LITERAL":
            lits += chr(av)
            if lits.endswith("VARNAME"):
                nxt = items[i + 1] if i + 1 < len(items) else None
                if nxt is None:
                    return False
                nop, nav = nxt
                if str(nop) == "AT" and "BOUNDARY" in str(nav) and "NON" not in str(nav):
                    return True
                if str(nop) == "ASSERT_NOT" and nav[0] == 1:
                    sub = list(nav[1])
                    if len(sub) == 1 and str(sub[0][0]) == "IN" and any("CATEGORY_WORD" in str(x[1]) for x in sub[0][1]):
                        return True
                    if len(sub) == 1 and str(sub[0][0]) == "IN":
                        # an explicit class of continuation characters: it has to cover what the undefined-variable scan (`\$\w+`,
                        # Unicode-aware) takes for a name character — an ASCII-only class ends `$idé` after `$id`
                        return False
                if str(nop) == "AT" and "END" in str(nav):
                    return True
                return False
        else:
            lits = ""
    return False


def rule_pattern(ctx):
    prog = ctx.prog
    m = prog.mod("variables")
    fn = prog.fn("variables", "Variables.inline_variables")
    loc = m.loc(fn)
    calls = _sub_calls(prog)
    ctx.floor("re.sub sites reached with a defined variable", len(calls), 1)
    for e in calls:
        args, kwargs, site = e[2], e[3], e[4]
        pat = args[0] if args else kwargs.get("pattern")
        repl = args[1] if len(args) > 1 else kwargs.get("repl")
        flags = kwargs.get("flags", args[4] if len(args) > 4 else None)
        txt, has_name = _pattern_text(pat)
        sloc = m.loc(site) if site is not None else loc
        if txt is None:
            ctx.ob("C15.b", "reference pattern readable", None, sloc)
            continue
        inline_flags = re.match(r"\(\?([aiLmsux]+)\)", txt)
        body = txt[inline_flags.end():] if inline_flags else txt
        # every reference is substituted: the count argument (4th positional of re.sub) is absent or 0
        count = kwargs.get("count", args[3] if len(args) > 3 else None)
        okn = count is None or (isinstance(count, Const) and count.v == 0)
        ctx.ob("C15.b", "every reference of a statement is substituted (no count limit)", okn, sloc, tagof(count) if count is not None else "")
        if not okn:
            ctx.violation("C15.b", "variables", "Variables.inline_variables", "substitution count limited", sloc,
                          f"re.sub is called with count=`{tagof(count)}` (a flag passed positionally lands in `count`): only that many references "
                          f"of a variable are substituted per statement, the next one is reported as an undefined variable")
        alts = [_strip_group(b) for b in _branches(body)]
        skippers = [b for b in alts if b.startswith("'")]
        for b in skippers:
            # a branch that skips over '…' literals must read them as Snowflake's tokenizer does: '' AND backslash escapes
            okl = "\\\\." in b
            ctx.ob("C15.e", f"the string-literal branch `{b}` of the reference pattern knows backslash escapes", okl, sloc)
            if not okl:
                ctx.violation("C15.e", "variables", "Variables.inline_variables", "string-literal skipper without backslash escapes", sloc,
                              f"the pattern skips string literals with `{b}`, which ends a literal at a backslash-escaped quote (`'it\\'s'`): text after "
                              f"it is taken for a literal, so a later `$name` is neither substituted nor reported")
        if len(alts) > 1:
            named = [b for b in alts if "VARNAME" in b or b.startswith("\\$")]
            body = named[0] if named else body
            txt = body
        if has_name or "VARNAME" in txt:
            okb = _boundary_after_name(txt) and body.startswith("\\$")
            ctx.ob("C15.b", f"pattern `{txt}` ends the name at a word boundary", okb, sloc)
            if not okb:
                ctx.violation("C15.b", "variables", "Variables.inline_variables", "name pattern without end-of-name boundary", sloc,
                              f"the reference pattern `{txt.replace('VARNAME', '{name}')}` matches a prefix of a longer name: with $n1 and "
                              f"$n10 defined, `$n10` is rewritten using $n1's value")
        else:
            ok = "\\w" in txt
            ctx.ob("C15.b", f"generic reference pattern `{txt}` consumes the whole name", ok, sloc)
            if not ok:
                ctx.violation("C15.b", "variables", "Variables.inline_variables", "generic pattern does not consume the whole name", sloc,
                              f"the reference pattern `{txt}` does not match whole names")
        okf = flags is not None and "IGNORECASE" in tagof(flags) or bool(inline_flags and "i" in inline_flags.group(1))
        ctx.ob("C15.b", "reference pattern is case-insensitive", okf, sloc, tagof(flags))
        if not okf:
            ctx.violation("C15.b", "variables", "Variables.inline_variables", "pattern flags", sloc,
                          "the reference pattern is not case-insensitive: `$Name` would not denote the variable `name`")
        okc = isinstance(repl, (Lam, Func))
        ctx.ob("C15.c", "replacement argument is a callable (value inserted literally)", okc, sloc, tagof(repl))
        if not okc:
            ctx.violation("C15.c", "variables", "Variables.inline_variables", "string replacement argument", sloc,
                          f"the variable's value is passed to re.sub as a replacement *string* (`{tagof(repl)}`): backslash sequences in the "
                          f"value are interpreted (`'a\\\\b'` becomes 'a\\x08', `\\1` raises)")


def rule_token_aware(ctx):
    prog = ctx.prog
    m = prog.mod("variables")
    fn = prog.fn("variables", "Variables.inline_variables")
    # substitution over raw text: any re.* call applied to the whole statement parameter
    param = fn.args.args[1].arg if len(fn.args.args) > 1 else "sql"
    raw = [c for c in ast.walk(fn) if isinstance(c, ast.Call) and isinstance(c.func, ast.Attribute) and isinstance(c.func.value, ast.Name)
           and c.func.value.id == "re" and any(isinstance(a, ast.Name) and a.id == param for a in c.args)]
    tokenised = any(isinstance(c, ast.Call) and "token" in ast.unparse(c.func).lower() for c in ast.walk(fn))
    ok = not raw or tokenised
    ctx.ob("C15.e", "variable substitution skips string literals (token-aware)", ok, m.loc(fn))
    if not ok:
        ctx.violation("C15.e", "variables", "Variables.inline_variables", "regex substitution over raw statement text", m.loc(raw[0]),
                      "references are found by regex over the raw statement text, so `$x` inside a string literal is rewritten or "
                      "rejected (`select 'cost$x'` -> \"Session variable '$X' does not exist\")")


def rule_stage_order(ctx):
    """C15.h (obligation O2): the stage that records SET/UNSET runs after identifiers were folded, so that
    `set x = 1`, `SET X = 2` and `unset x` name the same variable."""
    from ..pipeline import stages
    from .c02 import rule_fold_first

    prog = ctx.prog
    rule_fold_first(ctx)  # stage 0 folds unquoted identifiers
    st = stages(prog)
    var_stages = [s for s in st if "variables" in s.kwargs or (s.fn is not None and "Variables" in ast.unparse(s.fn))]
    ctx.floor("pipeline stages that record SET/UNSET", len(var_stages), 1)
    for s in var_stages:
        ok = s.index > 0
        ctx.ob("C15.h", f"SET/UNSET stage `{s.name}` (stage {s.index}) runs after the folding stage", ok, "fakesnow/cursor.py")
        if not ok:
            ctx.violation("C15.h", "cursor", "FakeSnowflakeCursor._transform", f"{s.name} before identifier folding", "fakesnow/cursor.py",
                          f"`{s.name}` records SET/UNSET before unquoted identifiers are upper-cased: `set batch_id = 1` and `SET BATCH_ID = 2` "
                          f"create two variables and `unset batch_id` does not remove BATCH_ID")


def rule_state_dependencies(ctx):
    """C15.i: every piece of instance state the substitution reads is updated by both SET and UNSET
    (a memo that only SET invalidates keeps serving the value of an UNSET variable)."""
    prog = ctx.prog
    m = prog.mod("variables")
    fn = prog.fn("variables", "Variables.inline_variables")

    def attrs(f, store=None):
        out = set()
        for n in ast.walk(f):
            if isinstance(n, ast.Attribute) and isinstance(n.value, ast.Name) and n.value.id == "self":
                out.add(n.attr)
        return out
    methods = {q.split(".")[-1] for q in m.functions if q.startswith("Variables.")}
    reads = {a for a in attrs(fn) if a not in methods}
    set_fn = m.functions.get("Variables._set") or m.functions.get("Variables.update_variables")
    unset_fn = m.functions.get("Variables._unset") or m.functions.get("Variables.update_variables")
    ctx.floor("instance attributes read by inline_variables", len(reads), 1)
    for a in sorted(reads):
        ok = set_fn is not None and unset_fn is not None and a in attrs(set_fn) and a in attrs(unset_fn)
        ctx.ob("C15.i", f"state `{a}` read by the substitution is updated by both SET and UNSET", ok, m.loc(fn))
        if not ok:
            ctx.violation("C15.i", "variables", "Variables.inline_variables", f"state `{a}` not maintained by both SET and UNSET", m.loc(fn),
                          f"inline_variables depends on `self.{a}`, which SET and UNSET do not both update: after the variable changes "
                          f"(e.g. UNSET) the same statement text is still rewritten with the stale value")


def rule_set_unset(ctx):
    """C15.f: SET / UNSET descriptors update this connection's mapping and become the success no-op."""
    from .common import traces

    prog = ctx.prog
    for kind, want in (("SET variable", "set"), ("UNSET variable", "unset")):
        for tr in traces(prog, kind):
            vars_obj = tr.conn.attrs["variables"]
            from ..execmodel import R
            from ..values import Lst as _Lst
            mapping = vars_obj.attrs.get(R().variables)
            if isinstance(mapping, Dct):
                sets = [e for e in tr.path.effects if e[0] == "dictset" and e[1] is mapping]
                holds_v = "V" in mapping.items
            else:
                # another container: what the Variables object holds after the statement (the semantics are C15.k's)
                stores = [x for x in vars_obj.attrs.values() if isinstance(x, (_Lst, Dct))]
                recs = [r_ for c_ in stores for r_ in (c_.items if isinstance(c_, _Lst) else c_.items.values())]
                sets = [("held", None, None, getattr(r_, "attrs", {}).get("value", r_)) for r_ in recs]
                holds_v = bool(recs)
            nop = tr.engine_sql and "SUCCESS_NOP" in tagof(tr.engine_sql[0])
            if want == "set":
                ok = tr.path.outcome == "return" and len(sets) == 1 and nop
            else:
                ok = tr.path.outcome == "return" and nop and not holds_v
            if want == "set" and sets:
                val = sets[0][3]
                if hasattr(val, "attrs") and not isinstance(val, Sym):  # a record holding the text: the field that carries the rendering
                    key_ = sets[0][2]
                    val = next((x for x in val.attrs.values() if isinstance(x, Sym) and x.origin and x.origin[0] == "sql" and x is not key_
                                and tagof(x) != tagof(key_)), val)
                dia = val.origin[2] if isinstance(val, Sym) and val.origin and val.origin[0] == "sql" and len(val.origin) > 2 else None
                okd = isinstance(dia, Const) and dia.v == "snowflake"
                ctx.ob("C15.g", "the stored value is rendered in the dialect it is re-parsed in (snowflake)", okd, "fakesnow/variables.py", tagof(dia))
                if not okd:
                    ctx.violation("C15.g", "variables", "Variables.update_variables", "value rendered in another dialect", "fakesnow/variables.py",
                                  "the value of SET is rendered with a dialect other than Snowflake's and later inlined into Snowflake SQL: "
                                  "string escapes are applied twice (`set v='a\\\\b'` yields 'a' + backspace)")
            if want == "unset" and tr.path.outcome == "raise":
                ctx.ob("C15.f", "UNSET of a variable that is not set succeeds", False, "fakesnow/variables.py", repr(tr.path.value))
                ctx.violation("C15.f", "variables", "Variables.update_variables", "UNSET of an undefined variable raises", "fakesnow/variables.py",
                              f"UNSET of a variable that is not set raises {tr.path.value.cls} (a bare Python error, not a Snowflake one); it should succeed")
                continue
            ctx.ob("C15.f", f"{kind}: updates the connection's own mapping, statement becomes the success no-op", ok, "fakesnow/variables.py")
            if not ok:
                ctx.violation("C15.f", "variables", "Variables.update_variables", f"{kind} handling", "fakesnow/variables.py",
                              f"{kind} does not update the issuing connection's variable mapping exactly once and turn into the success no-op")


def rule_script_not_presubstituted(ctx):
    """C15.j: in a script run by execute_string every statement sees the variables as they are when *it* runs: the script
    text reaches the statement splitter as given (C16.a's obligation) — substituting the whole script up front would give a
    later statement the value from before an earlier SET / UNSET of the same script."""
    from .c16 import rule_execute_string

    before = len(ctx.findings)
    ob0 = len(ctx.obligations)
    rule_execute_string(ctx)
    ctx.obligations[ob0:] = [dict(o, rule="C15.j") for o in ctx.obligations[ob0:] if "reaches the Snowflake parser unmodified" in o["what"]]
    keep = []
    for f in ctx.findings[before:]:
        if "script pre-processed" in f.construct:
            f.rule = "C15.j"
            keep.append(f)
    ctx.findings[before:] = keep


class _SubHooks(Hooks):
    """records, for every regex substitution, what its replacement inserts (the replacement callable applied to a match)"""

    def __init__(self):
        self.inserted = []

    def external(self, I, d, args, kwargs, site):
        if d in ("re.sub", "re.subn") and len(args) >= 2:
            repl = args[1]
            v = I.call(repl, [Obj("m", kind="match")], {}, site) if isinstance(repl, (Lam, Func)) else repl
            self.inserted.append(v)
        return NotImplemented


def rule_histories(ctx):
    """C15.k: short SET / UNSET histories through the Variables object's own methods, whatever it stores internally:
    after `SET x = a; SET x = b` a reference inserts b's text and never a's; after `SET x = a; UNSET x` nothing is inserted."""
    from ..execmodel import lit, node
    from ..values import ClsRef, Lst, NodeV

    def ident(nm):  # a concrete name: SET reads it from the column's rendering, UNSET from the alias identifier
        return NodeV("Identifier", {"this": Const(nm), "quoted": Const(False)}, name=f"id:{nm}", open=False)

    prog = ctx.prog
    loc = "fakesnow/variables.py"

    def set_stmt(col, val):
        return node("Set", "stmt", unset=Const(False), tag=Const(False),
                    expressions=Lst([node("SetItem", this=node("EQ", this=col, expression=val))]))

    def unset_stmt():
        return node("Alias", "stmt", this=node("Column", this=NodeV("Identifier", {"this": Const("UNSET"), "quoted": Const(False)},
                                                                    name="id:UNSET", open=False)), alias=ident("X"))

    n = 0
    for history in (("set a", "set b"), ("set a", "unset"), ("set a", "unset", "set b"), ("set t",)):
        hooks, lits = [], []

        def fac():
            h = _SubHooks()
            hooks.append(h)
            return h

        def run(I, history=history):
            v = I.construct(ClsRef("fakesnow.variables.Variables"), [], {}, None)
            col = NodeV("Column", {"this": ident("X")}, name="col:X", open=False)
            vals = {"a": lit("1", False), "b": lit("2", False),
                    # one variable whose value is a parenthesised list (an IN-list): the whole list is the value
                    "t": node("Tuple", "in_list", expressions=Lst([lit("10", False), lit("20", False), lit("30", False)]))}
            lits.append(vals)
            for step in history:
                st = unset_stmt() if step == "unset" else set_stmt(col, vals[step[-1]])
                I.call(I.getattr(v, "update_variables"), [st], {}, None)
            return I.call(I.getattr(v, "inline_variables"), [Sym("SQL", typ="str", truthy=True)], {}, None)

        for p, h, vals in zip(explore(prog, fac, run, max_paths=32), hooks, lits):
            if p.outcome != "return":
                continue  # the residual-reference refusal: C15.d
            n += 1

            def of(v):  # which SET's value an inserted text renders
                o = getattr(v, "origin", None)
                for k, l_ in vals.items():
                    if o and o[0] == "sql" and o[1] is l_:
                        return k
                return None

            got = [of(v) for v in h.inserted]
            final = {"set a": "a", "set b": "b", "unset": None, "set t": "t"}[history[-1]]
            want = [final] if final else []
            ok = got == want
            ctx.ob("C15.k", f"after {'; '.join(history)} a reference to x inserts {final or 'nothing'}", ok, loc, str(got))
            if not ok:
                ctx.violation("C15.k", "variables", "Variables.inline_variables", f"after {'; '.join(history)}: inserts {got}", loc,
                              f"after the history `{'; '.join(history)}` the substitution of `$x` inserts the value(s) of {got} (in that order) "
                              f"instead of {want}: "
                              + ("the value of a variable is the whole expression after `=` — `SET ids = (10, 20, 30)` stores the list, not its first member"
                                 if history == ("set t",) else "a later SET must replace the earlier value and UNSET must forget it"))
    ctx.floor("C15.k histories", n, 3)


def rule_every_entry_point_inlines(ctx):
    """C15.l: `$name` is substituted in every statement the session runs, whichever entry point runs it and whatever the
    paramstyle: execute() and executemany() under pyformat and qmark all hand the parser a text that went through the
    variable substitution (a fast path that parses the raw command skips it, and with it the undefined-variable error)."""
    from ..execmodel import run_execute
    from ..values import Lst, Tup
    from .c05 import _prov_nodes
    from .c08 import _is_substitution

    prog = ctx.prog
    n = 0
    rows = Lst([Tup([Sym("A1")]), Tup([Sym("A2")])])
    for entry, params in (("execute", Tup([Sym("A1")])), ("executemany", rows)):
        if not prog.has_fn("cursor", f"FakeSnowflakeCursor.{entry}"):
            continue
        for style in ("pyformat", "qmark"):
            for tr in run_execute(prog, "INSERT", None, params=params, paramstyle=style, variables={"V": Const("1")}, entry=entry, undefined_var=False):
                texts = [e[1] for e in tr.path.effects if e[0] == "parse-user"]
                if not texts:
                    continue
                n += 1
                raw = [t for t in texts if not any(_is_substitution(x) for x in _prov_nodes(t))]
                ctx.ob("C15.l", f"{entry}() under {style}: the parsed text went through the variable substitution", not raw, "fakesnow/cursor.py",
                       tagof(raw[0])[:60] if raw else "")
                if raw:
                    ctx.violation("C15.l", "cursor", f"FakeSnowflakeCursor.{entry}", f"{entry}() under {style} parses the raw command", "fakesnow/cursor.py",
                                  f"{entry}() under paramstyle {style} hands `{tagof(raw[0])[:60]}` to the parser without substituting session variables: "
                                  f"`$v` in the statement reaches the engine as written (a parameter placeholder / column error), and an undefined "
                                  f"variable is not reported as such")
                break
    ctx.floor("C15.l entry point x paramstyle traces", n, 3)


RULES = [
    ("C15.l", rule_every_entry_point_inlines, ("quick", "thorough")),
    ("C15.k", rule_histories, ("quick", "thorough")),
    ("C15.j", rule_script_not_presubstituted, ("quick", "thorough")),
    ("C15.a", rule_store, ("quick", "thorough")),
    ("C15.b", rule_pattern, ("quick", "thorough")),
    ("C15.d", rule_undefined_variable, ("quick", "thorough")),
    ("C15.e", rule_token_aware, ("quick", "thorough")),
    ("C15.f", rule_set_unset, ("quick", "thorough")),
    ("C15.h", rule_stage_order, ("quick", "thorough")),
    ("C15.i", rule_state_dependencies, ("quick", "thorough")),
]
