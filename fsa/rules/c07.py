"""C07 — failures are Snowflake errors with the right codes, and change nothing."""

from __future__ import annotations

import ast

from ..cfg import CFG
from ..execmodel import R, run_execute, sget, sset, sowner, sowners
from ..values import Const, Str, Sym, tagof
from .c03 import rule_after_accept, rule_coherence, rule_guards
from .common import site_loc, text_of, traces

EXPLANATION = (
    "Error-discipline rules on fakesnow's own code: effect traces of the statement path under each engine outcome "
    "(the primary engine call raising Binder / Catalog / Connection / Transaction / Parser exceptions) give the "
    "exception class, errno and sqlstate that leave execute(); the sqlstate attribute is reset at the start of every "
    "execute and set from the raised error; session context is written only after the engine accepted the statement "
    "(C03.b) and the 90105/90106 guards precede every engine call (C03.d); an undefined session variable is refused "
    "before parsing or executing; and on the event CFG of every public entry point the first engine call lies inside "
    "the translating try. Decides the translation table and ordering, not DuckDB's own atomicity of failed statements."
)
RULE_TEXT = (
    "C07.a Binder->ProgrammingError(2043,'02000'), Catalog->ProgrammingError(2003,'42S02'), "
    "Connection->DatabaseError(250002,'08003'); C07.b sqlstate None after a successful execute whatever it was, "
    "== error's sqlstate after a failing one, same exception re-raised; C07.c=C03.b; C07.d=C03.d; C07.e undefined "
    "variable -> ProgrammingError before parse/engine; C07.f first engine call of each public entry is inside a try "
    "with a handler for duckdb.ConnectionException; C07.g=C13.e; C07.h=C03.c; C07.i a statement replaced by the no-op "
    "still has its table looked up by the engine."
)
TRUSTED = ["CPython ast", "error codes quoted in the property text", "DuckDB raises ConnectionException on any use of a closed cursor"]

CODES = {
    "duckdb.BinderException": ("snowflake.connector.errors.ProgrammingError", 2043, "02000"),
    "duckdb.CatalogException": ("snowflake.connector.errors.ProgrammingError", 2003, "42S02"),
    "duckdb.ConnectionException": ("snowflake.connector.errors.DatabaseError", 250002, "08003"),
}
KINDS = ["SELECT", "INSERT", "CREATE TABLE", "DROP TABLE", "USE SCHEMA", "DESCRIBE TABLE", "SHOW TABLES", "CREATE DATABASE", "COMMIT"]


def _kw(exc, k):
    v = exc.kwargs.get(k) if exc is not None else None
    return v.v if isinstance(v, Const) else None


def rule_table(ctx):
    prog = ctx.prog
    ctx.analysed("cursor.FakeSnowflakeCursor._execute")
    n = 0
    for kind in KINDS:
        for mode, (cls, errno, state) in CODES.items():
            for tr in traces(prog, kind, mode):
                n += 1
                exc = tr.path.value if tr.path.outcome == "raise" else None
                got = (exc.cls if exc is not None else None, _kw(exc, "errno"), _kw(exc, "sqlstate"))
                ok = got == (cls, errno, state)
                site = tr.hooks.calls[0][2] if tr.hooks.calls else None
                ctx.ob("C07.a", f"{kind}: {mode} -> {cls.rsplit('.', 1)[-1]}({errno},{state!r})", ok,
                       site_loc(prog, "cursor", site), str(got))
                if not ok:
                    if exc is None:
                        msg = f"{mode} raised by the engine for {kind} is swallowed: the statement appears to succeed"
                    elif exc.cls.startswith("duckdb."):
                        msg = f"{mode} raised by the engine for {kind} leaves execute() untranslated (engine-specific exception)"
                    else:
                        msg = (f"{mode} for {kind} becomes {got[0].rsplit('.', 1)[-1]}(errno={got[1]}, sqlstate={got[2]!r}); "
                               f"Snowflake's is {cls.rsplit('.', 1)[-1]}({errno}, {state!r})")
                    ctx.violation("C07.a", "cursor", "FakeSnowflakeCursor._execute", f"{mode} -> {got[0]}({got[1]},{got[2]})",
                                  site_loc(prog, "cursor", site), msg)
    # other engine errors must not be swallowed
    for kind in ("SELECT", "INSERT"):
        for mode in ("duckdb.TransactionException:other", "duckdb.ParserException"):
            for tr in traces(prog, kind, mode):
                n += 1
                ok = tr.path.outcome == "raise"
                ctx.ob("C07.a", f"{kind}: {mode} is not swallowed", ok, "fakesnow/cursor.py")
                if not ok:
                    ctx.violation("C07.a", "cursor", "FakeSnowflakeCursor._execute", f"{mode} swallowed", "fakesnow/cursor.py",
                                  f"an engine {mode.split(':')[0]} for {kind} is swallowed and the statement appears to succeed")
    ctx.floor("C07.a traces", n, 27)


def rule_sqlstate(ctx):
    prog = ctx.prog
    ctx.analysed("cursor.FakeSnowflakeCursor.execute", "cursor.FakeSnowflakeCursor.sqlstate")
    n = 0
    fn = prog.fn("cursor", "FakeSnowflakeCursor.execute")
    loc = prog.mod("cursor").loc(fn)
    for kind in ("SELECT", "INSERT", "USE DATABASE"):
        for mode in (None, "duckdb.CatalogException", "duckdb.BinderException"):
            for tr in run_execute(prog, kind, mode):
                if not tr.hooks.parsed:
                    continue  # undefined-variable path: C07.e
                n += 1
                st = sget(tr.cur, "sqlstate")
                if mode is None:
                    ok = tr.path.outcome == "return" and isinstance(st, Const) and st.v is None
                    ctx.ob("C07.b", f"{kind}: sqlstate reset by a successful execute", ok, loc, tagof(st))
                    if not ok:
                        ctx.violation("C07.b", "cursor", "FakeSnowflakeCursor.execute", "sqlstate reset", loc,
                                      f"after a successful {kind} cursor.sqlstate is `{tagof(st)}`: the state of an earlier failure is not reset")
                else:
                    want = CODES[mode][2]
                    exc = tr.path.value if tr.path.outcome == "raise" else None
                    ok = exc is not None and isinstance(st, Const) and st.v == want and _kw(exc, "sqlstate") == want
                    ctx.ob("C07.b", f"{kind}: sqlstate == {want!r} after {mode}", ok, loc, tagof(st))
                    if not ok:
                        ctx.violation("C07.b", "cursor", "FakeSnowflakeCursor.execute", f"sqlstate after {mode}", loc,
                                      f"after {kind} failed with {mode} cursor.sqlstate is `{tagof(st)}` (expected {want!r}) / the error is "
                                      f"{'not raised' if exc is None else 'raised'}")
    # describe() is an execute of its own (the connector's describe-only execute): same lifecycle on the cursor it is called on
    if prog.has_fn("cursor", "FakeSnowflakeCursor.describe"):
        for mode in (None, "duckdb.CatalogException"):
            for tr in run_execute(prog, "SELECT", mode, entry="describe"):
                if not tr.hooks.parsed:
                    continue
                n += 1
                st = sget(tr.cur, "sqlstate")
                if mode is None:
                    ok = isinstance(st, Const) and st.v is None  # (what the metadata conversion does with the rows is C06's)
                    what = "reset by a successful describe()"
                else:
                    want = CODES[mode][2]
                    ok = tr.path.outcome == "raise" and isinstance(st, Const) and st.v == want
                    what = f"== {want!r} after describe() failed with {mode}"
                ctx.ob("C07.b", f"describe(): sqlstate {what}", ok, loc, tagof(st))
                if not ok:
                    ctx.violation("C07.b", "cursor", "FakeSnowflakeCursor.describe", f"sqlstate {what.split(' ')[0]} describe", loc,
                                  f"after describe() ({'engine accepts' if mode is None else mode}) cursor.sqlstate is `{tagof(st)}`: describe() is an "
                                  f"execute on this cursor, so it must reset the state on success and show the error's state on failure")
    # a statement that matches nop_regexes is a successful execute too
    from ..values import Lst
    for tr in run_execute(prog, "SELECT", None, nop_regexes=Lst([Const("^CALL")])):
        if tr.path.outcome != "return":
            continue
        n += 1
        st = sget(tr.cur, "sqlstate")
        ok = isinstance(st, Const) and st.v is None
        ctx.ob("C07.b", f"sqlstate reset by a successful execute with nop_regexes configured (parsed={tr.hooks.parsed})", ok, loc, tagof(st))
        if not ok:
            ctx.violation("C07.b", "cursor", "FakeSnowflakeCursor.execute", "sqlstate reset on the nop_regexes path", loc,
                          f"after a successful execute ({'no-op match' if not tr.hooks.parsed else 'normal path'}, nop_regexes configured) "
                          f"cursor.sqlstate is `{tagof(st)}`: the state of an earlier failure is shown until some later statement resets it")
    ctx.floor("C07.b traces", n, 9)
    # the public property returns the stored attribute
    g = prog.fn("cursor", "FakeSnowflakeCursor.sqlstate")
    ret = [s for s in ast.walk(g) if isinstance(s, ast.Return)]
    stores = {t.attr for s in ast.walk(fn) if isinstance(s, ast.Assign) for t in s.targets if isinstance(t, ast.Attribute)}
    ok = len(ret) == 1 and isinstance(ret[0].value, ast.Attribute) and ret[0].value.attr in stores
    ctx.ob("C07.b", "sqlstate property returns the attribute execute() maintains", ok, prog.mod("cursor").loc(g))
    if not ok:
        ctx.violation("C07.b", "cursor", "FakeSnowflakeCursor.sqlstate", g, prog.mod("cursor").loc(g),
                      "cursor.sqlstate does not return the attribute that execute() resets and sets")


def rule_undefined_variable(ctx):
    """C07.e / C15.d."""
    prog = ctx.prog
    ctx.analysed("variables.Variables.inline_variables")
    n = 0
    for tr in run_execute(prog, "SELECT", None, undefined_var=True):
        n += 1
        if tr.hooks.parsed or tr.engine_sql:
            ctx.ob("C07.e", "a statement with a residual $name is refused before parsing / executing", False, "fakesnow/cursor.py")
            ctx.violation("C07.e", "cursor", "FakeSnowflakeCursor.execute", "residual $name reaches the parser/engine", "fakesnow/cursor.py",
                          f"a statement that still contains an undefined $name is parsed ({tr.hooks.parsed}) / sent to the engine "
                          f"({len(tr.engine_sql)} statements) instead of being refused first")
            continue
        exc = tr.path.value if tr.path.outcome == "raise" else None
        msg = exc.kwargs.get("msg") if exc is not None else None
        txt = text_of(msg) if msg is not None else ""
        ok = (exc is not None and exc.cls == "snowflake.connector.errors.ProgrammingError"
              and "Session variable '" in txt and "' does not exist" in txt and "upper(" in txt)
        ctx.ob("C07.e", "undefined $variable -> ProgrammingError \"Session variable '$NAME' does not exist\" before parse/engine",
               ok, "fakesnow/variables.py", txt[:80])
        if not ok:
            ctx.violation("C07.e", "variables", "Variables.inline_variables", f"undefined variable: {txt[:80] or exc}",
                          "fakesnow/variables.py",
                          "a residual $name must raise ProgrammingError \"Session variable '$NAME' does not exist\" (name upper-cased) "
                          f"before anything is parsed or executed; got {exc.cls if exc else 'no error'} `{txt[:60]}`")
    ok = n >= 1
    ctx.ob("C07.e", "a path exists on which a residual $name is refused before parsing", ok, "fakesnow/variables.py")
    if not ok:
        ctx.violation("C07.e", "cursor", "FakeSnowflakeCursor.execute", "no refusal path before parse", "fakesnow/cursor.py",
                      "no path of execute() refuses an undefined session variable before the statement is parsed and executed")


def rule_reference_checked(ctx):
    """C07.i: a statement that names a table but is replaced by the no-op still makes the engine look the table up
    (otherwise a reference to a missing object succeeds instead of raising 2003)."""
    from ..values import NodeV
    from .common import sql_root

    prog = ctx.prog
    for kind in ("COMMENT ON TABLE", "ALTER TABLE SET COMMENT", "ALTER TABLE CLUSTER BY", "ALTER TABLE SET TAG", "ALTER COLUMN COMMENT"):
        for tr in traces(prog, kind):
            if tr.path.outcome != "return":
                continue
            touched = False
            for sqlv in tr.engine_sql:
                k, root = sql_root(sqlv)
                if k == "node" and isinstance(root, NodeV) and getattr(root, "shared", False) is False and "SUCCESS_NOP" not in root.name:
                    touched = True
                if k == "text" and any(t.is_kw("FROM", "DESCRIBE", "TABLE") for t in root) and "{T}" in text_of(sqlv) and "_fs_" not in text_of(sqlv):
                    touched = True
            ctx.ob("C07.i", f"{kind}: the engine is asked about the named table", touched, "fakesnow/transforms.py")
            if not touched:
                ctx.violation("C07.i", "transforms", "extract_comment_on_table" if "COMMENT" in kind and "COLUMN" not in kind else "<stage>",
                              f"{kind}: table never referenced in an engine statement", "fakesnow/transforms.py",
                              f"{kind} is replaced by the success no-op (plus at most a side-table insert): no engine statement references the "
                              f"table, so the statement succeeds on a table that does not exist instead of raising 2003/42S02")


ENTRIES = [
    ("cursor", "FakeSnowflakeCursor.execute"),
    ("cursor", "FakeSnowflakeCursor.executemany"),
    ("cursor", "FakeSnowflakeCursor.describe"),
    ("cursor", "FakeSnowflakeCursor._describe_last_sql"),
    ("conn", "FakeSnowflakeConnection.commit"),
    ("conn", "FakeSnowflakeConnection.rollback"),
    ("conn", "FakeSnowflakeConnection.execute_string"),
    ("pandas_tools", "write_pandas"),
]


def rule_first_engine_call(ctx):
    """C07.f: the first engine call of every public entry point is translated."""
    prog = ctx.prog
    n = 0
    for mod, qual in ENTRIES:
        if not prog.has_fn(mod, qual):
            ctx.note(f"entry {mod}.{qual} absent")
            continue
        g = CFG(prog, mod, qual, inline_depth=5)
        ctx.analysed(f"{mod}.{qual}")
        eng = {x.id for x in g.nodes if x.kind == "call" and "duckdb" in x.raises}
        # first engine calls: reachable from entry along normal edges without passing another engine call
        seen, todo, firsts = {g.entry.id}, [g.entry], []
        while todo:
            x = todo.pop()
            for y, k in x.succ:
                if k == "x" or y.id in seen:
                    continue
                seen.add(y.id)
                if y.id in eng:
                    firsts.append(y)
                else:
                    todo.append(y)
        for f in firsts:
            n += 1
            handlers = [h for h, k in f.succ if k == "x" and h.kind == "handler"]
            translated = any("ConnectionException" in h.label or h.label in ("duckdb.Error", "Exception", "bare", "duckdb.OperationalError")
                             for h in handlers)
            fm = f.fn.split(".", 1)
            ctx.ob("C07.f", f"{mod}.{qual}: first engine call `{f.label}` in {f.fn} is inside the translating try", translated,
                   f"fakesnow/{fm[0]}.py:{f.line}")
            if not translated:
                ctx.violation("C07.f", mod, qual, f"first engine call reached from {qual} is outside the translating try",
                              f"fakesnow/{fm[0]}.py:{f.line}",
                              f"`{f.label}` is the first engine call reached from {qual} and no handler translates "
                              f"duckdb.ConnectionException there: on a closed connection a raw engine exception escapes "
                              f"instead of DatabaseError 250002/08003")
    ctx.floor("C07.f first engine calls", n, 6)


def rule_engine_consulted(ctx):
    """C07.j: no execute() succeeds without consulting the engine: on every path on which execute() returns normally — parsed
    statements, statements answered by a status message, statements matching nop_regexes — the engine handle was called at least
    once (a closed connection makes that call raise, which is what turns 'any use of a closed connection' into 250002/08003)."""
    from ..values import Lst
    prog = ctx.prog
    fn = prog.fn("cursor", "FakeSnowflakeCursor.execute")
    loc = prog.mod("cursor").loc(fn)
    n = 0
    scenarios = [(k, None, None) for k in ("SELECT", "INSERT", "USE DATABASE", "COMMENT ON TABLE", "CREATE USER", "SET variable")]
    scenarios += [("SELECT", Lst([Const("^SELECT")]), True), ("INSERT", Lst([Const("^INSERT")]), True), ("SELECT", Lst([Const("^CALL")]), False)]
    for kind, nops, match in scenarios:
        try:
            trs = run_execute(prog, kind, None, nop_regexes=nops, nop_match=match)
        except KeyError:
            continue
        for tr in trs:
            if tr.path.outcome != "return":
                continue
            n += 1
            what = f"{kind}{' matching nop_regexes' if match else ''}"
            ok = bool(tr.hooks.calls)
            ctx.ob("C07.j", f"{what}: a successful execute() called the engine", ok, loc, f"{len(tr.hooks.calls)} engine calls")
            if not ok:
                ctx.violation("C07.j", "cursor", "FakeSnowflakeCursor.execute", f"{what}: execute() succeeds without an engine call", loc,
                              f"execute() of a {what} statement returns successfully without calling the engine handle: on a closed "
                              f"connection the statement succeeds instead of raising DatabaseError 250002/08003")
    ctx.floor("C07.j successful execute paths", n, 8)


from .c13 import rule_no_implicit_tx_calls  # noqa: E402  (a failed statement must leave an open transaction as it was)

def rule_exploded_statements_guarded(ctx):
    """C07.k: a command fakesnow splits into several engine statements (MERGE) is refused like any other when it names a table
    without the context that would complete the name: `MERGE INTO d9.s9.tgt USING src` needs a current database (90105) and a
    current schema (90106) for `src`, and nothing of it reaches the engine."""
    from ..execmodel import make_session
    from ..interp import explore
    from .c12 import MergeHooks

    prog = ctx.prog
    n = 0
    for dbs, schs, want in ((False, False, (90105, "22000")), (True, False, (90106, "22000"))):
        hooks = []

        def fac():
            h = MergeHooks(None, "SELECT")
            hooks.append(h)
            return h

        def run(I, dbs=dbs, schs=schs):
            duck, conn, cur = make_session(dbs, schs)
            return I.call(I.getattr(cur, "execute"), [Sym("MERGE_COMMAND", typ="str", truthy=True), Const(None)], {}, None)

        for p, h in zip(explore(prog, fac, run, max_paths=64), hooks):
            if not h.parsed:
                continue
            n += 1
            exc = p.value if p.outcome == "raise" else None
            got = (_kw(exc, "errno"), _kw(exc, "sqlstate")) if exc is not None else None
            what = f"MERGE with an unqualified source, database_set={dbs} schema_set={schs}"
            ok = exc is not None and exc.cls.endswith("errors.ProgrammingError") and got == want and not h.calls
            ctx.ob("C07.k", f"{what}: refused with {want} before any engine call", ok, "fakesnow/cursor.py", str(got))
            if not ok:
                if exc is None:
                    msg = (f"{what} is not refused: {len(h.calls)} generated statements run without a current "
                           f"{'database' if want[0] == 90105 else 'schema'} (the engine answers with its own 'table does not exist', or resolves "
                           f"the name in its default schema and modifies data)")
                elif h.calls:
                    msg = f"{what}: the refusal comes after {len(h.calls)} engine call(s)"
                else:
                    msg = f"{what} is refused with {exc.cls.rsplit('.', 1)[-1]}{got} instead of ProgrammingError{want}"
                ctx.violation("C07.k", "cursor", "FakeSnowflakeCursor.execute", what, "fakesnow/cursor.py", msg)
    ctx.floor("C07.k exploded-command traces", n, 2)


RULES = [
    ("C07.k", rule_exploded_statements_guarded, ("quick", "thorough")),
    ("C07.g", rule_no_implicit_tx_calls, ("quick", "thorough")),
    ("C07.a", rule_table, ("quick", "thorough")),
    ("C07.b", rule_sqlstate, ("quick", "thorough")),
    ("C07.c", rule_after_accept, ("quick", "thorough")),
    ("C07.d", rule_guards, ("quick", "thorough")),
    ("C07.h", rule_coherence, ("quick", "thorough")),
    ("C07.i", rule_reference_checked, ("quick", "thorough")),
    ("C07.e", rule_undefined_variable, ("quick", "thorough")),
    ("C07.f", rule_first_engine_call, ("quick", "thorough")),
    ("C07.j", rule_engine_consulted, ("quick", "thorough")),
]
