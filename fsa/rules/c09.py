"""C09 — metadata views always describe exactly the current user objects."""

from __future__ import annotations

import ast
import fnmatch
import re

from .. import sqlt
from ..connectmodel import Point, run_point_states
from ..execmodel import ExecHooks, make_session, node, table
from ..interp import Hooks, explore
from ..model import AnalysisError, norm
from ..values import Const, Lst, NodeV, Obj, Str, Sym, tagof
from .common import sql_root, text_of, traces

EXPLANATION = (
    "Writer/reader agreement and filter evaluation over fakesnow's own SQL templates (never user SQL): the inventory of "
    "fakesnow-internal objects is read from the CREATE/ATTACH templates; the WHERE predicate of every listing statement "
    "fakesnow generates (SHOW TABLES/OBJECTS at account, database and schema scope, SHOW SCHEMAS with/without a "
    "database, SHOW PRIMARY/UNIQUE/IMPORTED KEYS, the databases view, information_schema.tables/columns) is parsed and "
    "evaluated three-valued on every inventory row: a definite TRUE is a leak; scope conjuncts of DESCRIBE and SHOW .. IN "
    "constrain exactly catalog/schema/table; side-table writers, ON CONFLICT targets, primary keys and reader joins "
    "agree on their key columns; DDL that invalidates a side-table key must delete or re-key its rows; free text placed "
    "between quotes must have quotes doubled. DuckDB's own information_schema contents are not decided."
)
RULE_TEXT = (
    "C09.a 3-valued evaluation of each listing predicate on each internal-object row; C09.b scope conjuncts; C09.c key "
    "column agreement writer/ON CONFLICT/PRIMARY KEY/reader join; C09.d side-table lifecycle on DROP TABLE; C09.e quote "
    "doubling for free-text holes; C09.f no comment row without a declared comment; C09.g=C06.e; C09.h WHEN/THEN pairs "
    "of the columns view / DESCRIBE == type-name oracle; C09.i side-table rows carry the object's own (catalog, schema, "
    "table); C09.j the (table, comment) pair is never stored on a module-level constant statement."
    " C09.k per-database views call no session-dependent function and filter catalog-wide sources by their own database; C09.e rejects the free text anywhere but in a single-quoted literal."
    " C09.f2 a declared empty comment is recorded."
)
TRUSTED = ["CPython ast", "DuckDB: information_schema.tables lists temp tables as LOCAL TEMPORARY in catalog temp; LIKE wildcards _ and %",
           "internal object inventory is derived from fakesnow's own CREATE/ATTACH templates"]

USERDB = "<current db>"


# ---------------------------------------------------------------------- inventory
def inventory(prog) -> list[dict]:
    rows = []
    # per-database bootstrap objects (from the connect typestate run)
    for path, st in run_point_states(prog, Point(True, None, True, True, False, False, False)):
        for b in sorted(st.bootstrap):
            what, name = b.split(":", 1)
            parts = name.split(".")
            if what in ("TABLE", "VIEW") and parts[-1].startswith("_fs_"):
                rows.append({"catalog": USERDB, "schema": parts[0] if len(parts) > 1 else "main", "name": parts[-1],
                             "type": "BASE TABLE" if what == "TABLE" else "VIEW", "kind": "table",
                             "constraint": "PRIMARY KEY" if what == "TABLE" else None})
        break
    # instance-level objects
    m = prog.mod("instance")
    consts = {}
    for k, v in m.consts.items():
        if isinstance(v, ast.Constant) and isinstance(v.value, str):
            consts[k] = v.value
    def const_text(e):
        if isinstance(e, ast.Constant):
            return str(e.value)
        if isinstance(e, ast.JoinedStr):
            return "".join(const_text(x.value) if isinstance(x, ast.FormattedValue) else x.value for x in e.values)
        if isinstance(e, ast.Name):
            return const_text(m.consts[e.id]) if e.id in m.consts else "{" + e.id + "}"
        return "{?}"
    global_cat = None
    for k, v, _stmt in m.text_sources():
        txt = const_text(v)
        if re.search(r"create\s+table", txt, re.I):
            stmts = sqlt.split_statements(sqlt.tokenize(txt))
            for s in stmts:
                c = sqlt.classify(s)
                if c["kind"] == "create" and c["what"] == "TABLE":
                    nm = [t.text for t in c["name"]]
                    cat = nm[0] if len(nm) >= 2 else None
                    global_cat = cat
                    rows.append({"catalog": cat, "schema": nm[1] if len(nm) == 3 else "main", "name": nm[-1], "type": "BASE TABLE", "kind": "table"})
    if global_cat:
        for sch in ("main", "information_schema"):
            rows.append({"catalog": global_cat, "schema": sch, "name": None, "type": None, "kind": "schema"})
    # MERGE helper table
    mm = prog.mod("transforms_merge")
    for c in ast.walk(mm.tree):
        if isinstance(c, (ast.Constant,)) and isinstance(c.value, str) and re.search(r"CREATE\s+(OR\s+REPLACE\s+)?TEMP", c.value, re.I):
            mt = re.search(r"TABLE\s+(\w+)", c.value, re.I)
            if mt:
                rows.append({"catalog": "temp", "schema": "main", "name": mt.group(1), "type": "LOCAL TEMPORARY", "kind": "table"})
    if len(rows) < 5:
        raise AnalysisError(f"C09: internal-object inventory too small ({len(rows)})")
    return rows


# ---------------------------------------------------------------------- three-valued evaluation
class Hole:
    def __init__(self, tag):
        self.tag = tag


COLMAP = {
    "tables": {"TABLE_CATALOG": "catalog", "TABLE_SCHEMA": "schema", "TABLE_NAME": "name", "TABLE_TYPE": "type"},
    "schemata": {"CATALOG_NAME": "catalog", "SCHEMA_NAME": "schema"},
    "duckdb_constraints": {"DATABASE_NAME": "catalog", "SCHEMA_NAME": "schema", "TABLE_NAME": "name", "CONSTRAINT_TYPE": "constraint"},
    "duckdb_views": {"DATABASE_NAME": "catalog", "SCHEMA_NAME": "schema", "VIEW_NAME": "name"},
}


def _val(x, row, cols, curdb_tags):
    if x[0] == "lit":
        parts = x[1]
        if all(isinstance(p, str) for p in parts):
            return "".join(parts)
        if len(parts) == 1:
            t = tagof(parts[0])
            return Hole(t)
        return Hole("".join(p if isinstance(p, str) else tagof(p) for p in parts))
    if x[0] == "col":
        f = cols.get(x[1])
        if f is None:
            return None
        return row.get(f)
    if x[0] == "func" and x[1] in ("UPPER", "LOWER") and x[2]:
        v = _val(x[2][0], row, cols, curdb_tags)
        if isinstance(v, str):
            return v.upper() if x[1] == "UPPER" else v.lower()
        return v
    if x[0] == "const":
        return x[1]
    if x[0] == "hole":
        return Hole(tagof(x[1]))
    return None


def _eq(a, b, curdb_tags):
    if a is None or b is None:
        return None
    if isinstance(a, str) and isinstance(b, str):
        if USERDB in (a, b):
            other = b if a == USERDB else a
            return False if other != USERDB else True  # a constant never names the user's database
        return a == b
    for x, y in ((a, b), (b, a)):
        if isinstance(x, Hole) and isinstance(y, str):
            if y == USERDB:
                return True if x.tag in curdb_tags else None
            return False  # a user-chosen name is distinct from every internal name
    return None


def _like(v, pat):
    if not isinstance(v, str) or not isinstance(pat, str):
        return None
    rx = "".join(".*" if ch == "%" else "." if ch == "_" else re.escape(ch) for ch in pat)
    return re.fullmatch(rx, v, re.S) is not None


def ev(pred, row, cols, curdb_tags):
    k = pred[0]
    if k == "and":
        vals = [ev(p, row, cols, curdb_tags) for p in pred[1]]
        return False if False in vals else (None if None in vals else True)
    if k == "or":
        vals = [ev(p, row, cols, curdb_tags) for p in pred[1]]
        return True if True in vals else (None if None in vals else False)
    if k == "not":
        v = ev(pred[1], row, cols, curdb_tags)
        return None if v is None else not v
    if k == "cmp":
        r = _eq(_val(pred[2], row, cols, curdb_tags), _val(pred[3], row, cols, curdb_tags), curdb_tags)
        if pred[1] == "=":
            return r
        if pred[1] == "!=":
            return None if r is None else not r
        return None
    if k == "in":
        v = _val(pred[1], row, cols, curdb_tags)
        rs = [_eq(v, _val(x, row, cols, curdb_tags), curdb_tags) for x in pred[2]]
        r = True if True in rs else (None if None in rs else False)
        return (None if r is None else not r) if pred[3] else r
    if k == "like":
        r = _like(_val(pred[1], row, cols, curdb_tags), _val(pred[2], row, cols, curdb_tags))
        return (None if r is None else not r) if pred[3] else r
    return None


# ---------------------------------------------------------------------- listings
def listings(prog):
    """(label, module, function, sql value, site) for every listing statement fakesnow generates."""
    out = []
    show = {
        "SHOW TABLES (account)": node("Show", "stmt", this=Const("TABLES"), terse=Const(False)),
        "SHOW OBJECTS (account)": node("Show", "stmt", this=Const("OBJECTS"), terse=Const(False)),
        "SHOW TABLES IN DATABASE": node("Show", "stmt", this=Const("TABLES"), terse=Const(False), scope=table("D"), scope_kind=Const("DATABASE")),
        "SHOW OBJECTS IN DATABASE": node("Show", "stmt", this=Const("OBJECTS"), terse=Const(True), scope=table("D"), scope_kind=Const("DATABASE")),
        "SHOW TABLES IN SCHEMA": node("Show", "stmt", this=Const("TABLES"), terse=Const(False), scope=table("S"), scope_kind=Const("SCHEMA")),
        "SHOW OBJECTS IN SCHEMA qualified": node("Show", "stmt", this=Const("OBJECTS"), terse=Const(False), scope=table("S", "D"), scope_kind=Const("SCHEMA")),
        "SHOW SCHEMAS": node("Show", "stmt", this=Const("SCHEMAS"), terse=Const(False)),
        "SHOW SCHEMAS IN DATABASE": node("Show", "stmt", this=Const("SCHEMAS"), terse=Const(False), scope=table("D"), scope_kind=Const("DATABASE")),
        # the short form: the pinned parser files the name under scope_kind TABLE
        "SHOW SCHEMAS IN <database>": node("Show", "stmt", this=Const("SCHEMAS"), terse=Const(False), scope=table("D"), scope_kind=Const("TABLE")),
        "SHOW PRIMARY KEYS": node("Show", "stmt", this=Const("PRIMARY KEYS"), terse=Const(False)),
        "SHOW UNIQUE KEYS": node("Show", "stmt", this=Const("UNIQUE KEYS"), terse=Const(False)),
        "SHOW IMPORTED KEYS": node("Show", "stmt", this=Const("IMPORTED KEYS"), terse=Const(False)),
        "SHOW PRIMARY KEYS IN SCHEMA": node("Show", "stmt", this=Const("PRIMARY KEYS"), terse=Const(False), scope=table("S", "D"), scope_kind=Const("SCHEMA")),
        "SHOW PRIMARY KEYS IN TABLE": node("Show", "stmt", this=Const("PRIMARY KEYS"), terse=Const(False), scope=table("T", "S"), scope_kind=Const("TABLE")),
    }
    for label, desc in show.items():
        for curdb in (True,):  # without a current database these statements are refused with 90105 before they run
            def run(I, desc=desc, curdb=curdb):
                duck, conn, cur = make_session()
                if not curdb:
                    conn.attrs["database"] = Const(None)
                return I.call(I.getattr(cur, "_transform"), [_clone(desc)], {}, None)
            for p in explore(prog, lambda: ExecHooks(None), run, max_paths=16):
                v = p.value
                src = getattr(v, "parsed_from", None) if isinstance(v, NodeV) else None
                if p.outcome == "return" and src is not None:
                    parse_eff = [e for e in p.effects if e[0] == "parse"]
                    out.append((label + ("" if curdb else " [no current database]"), "transforms", "show_*", src, parse_eff[-1][4] if parse_eff else None))
    # views created by the bootstrap
    m = prog.mod("info_schema")
    for k, txt, stmt_ in m.sql_templates():
        if True:
            if re.search(r"create\s+view", txt, re.I) and re.search(r"\bwhere\b", txt, re.I):
                i = re.search(r"\bselect\b", txt, re.I).start()
                out.append((f"view {k}", "info_schema", k, Const(re.sub(r"\$\{catalog\}", "CURDBVIEW", txt[i:])), stmt_))
    return out


def _clone(n):
    if isinstance(n, NodeV):
        c = NodeV(n.cls, {k: _clone(v) for k, v in n.args.items()}, name=n.name, open=n.open)
        for v in c.args.values():
            if isinstance(v, NodeV):
                v.parent = c
        return c
    if isinstance(n, Lst):
        return Lst([_clone(x) for x in n.items])
    return n


def rule_hidden(ctx):
    prog = ctx.prog
    inv = inventory(prog)
    ctx.inventory["internal objects"] = len(inv)
    ls = listings(prog)
    ctx.floor("listing statements", len(ls), 12)
    ctx.analysed("transforms.show_objects_tables", "transforms.show_schemas", "transforms.show_keys", "info_schema.creation_sql")
    for label, mod, fn, sqlv, site in ls:
        try:
            stmts = sqlt.split_statements(sqlt.tokenize(sqlv))
            st = stmts[0]
            wp = sqlt.where_pred(st)
        except Exception as e:  # noqa: BLE001
            ctx.ob("C09.a", f"{label}: predicate parsed", None, f"fakesnow/{mod}.py", str(e)[:60])
            continue
        tabs = [n[-1].text.lower() for n in sqlt.from_tables(st)]
        rel = next((t for t in tabs if t in COLMAP), None)
        if rel is None:
            ctx.ob("C09.a", f"{label}: source relation known", None, f"fakesnow/{mod}.py", str(tabs))
            continue
        cols = COLMAP[rel]
        pred = wp[0] if wp else ("and", [])
        curdb_tags = {"CUR_DB", "CURDBVIEW"}
        for row in inv:
            if (row["kind"] == "schema") != (rel == "schemata"):
                continue
            if rel in ("duckdb_constraints",) and (row["type"] != "BASE TABLE" or not row.get("constraint")):
                continue
            if rel == "duckdb_views" and row["type"] != "VIEW":
                continue
            r = ev(pred, row, cols, curdb_tags) if wp else True
            obj = ".".join(str(x) for x in (row["catalog"], row["schema"], row["name"]) if x)
            loc = f"fakesnow/{mod}.py:{getattr(site, 'lineno', 0)}"
            ctx.ob("C09.a", f"{label}: internal object {obj} is filtered out", r is not True, loc, f"predicate evaluates to {r}")
            if r is True:
                ctx.violation("C09.a", mod, fn, f"{label} lists {obj}", loc,
                              f"the statement generated for {label} has a WHERE clause that is definitely TRUE for fakesnow's internal "
                              f"object {obj} ({row['type'] or 'schema'}): it is listed among the user's objects")
    # the filters that hide fakesnow's own objects hide nothing of the user's: every LIKE / NOT LIKE test on the object name is
    # evaluated for a user table whose (quoted, lower-case) name merely contains `_fs_` in the middle
    def likes(p_):
        if not isinstance(p_, tuple):
            return []
        if p_[0] == "like":
            return [p_]
        if p_[0] in ("and", "or"):
            return [x for q_ in p_[1] for x in likes(q_)]
        if p_[0] == "not":
            return likes(p_[1])
        return []

    n_like = 0
    for label, mod, fn, sqlv, site in ls:
        try:
            st_ = sqlt.split_statements(sqlt.tokenize(sqlv))[0]
            wp_ = sqlt.where_pred(st_)
        except Exception:  # noqa: BLE001
            continue
        tabs_ = [n[-1].text.lower() for n in sqlt.from_tables(st_)]
        rel_ = next((t for t in tabs_ if t in COLMAP), None)
        if rel_ is None or rel_ == "schemata" or not wp_:
            continue
        if not likes(wp_[0]):
            continue

        def urow(uname):
            return {"catalog": USERDB, "schema": "S1", "name": uname, "type": "BASE TABLE", "kind": "table", "constraint": "PRIMARY KEY"}
        # the whole predicate, three-valued, for two user tables that differ in their name only: the adversarial name alone must
        # not turn the answer into a definite FALSE
        r_plain = ev(wp_[0], urow("orders"), COLMAP[rel_], {"CUR_DB", "CURDBVIEW"})
        r_adv = ev(wp_[0], urow("dwh_fs_keys"), COLMAP[rel_], {"CUR_DB", "CURDBVIEW"})
        n_like += 1
        hidden = r_adv is False and r_plain is not False
        loc_ = f"fakesnow/{mod}.py:{getattr(site, 'lineno', 0)}"
        ctx.ob("C09.a", f"{label}: the internal-object filter keeps the user table `dwh_fs_keys`", not hidden, loc_, f"orders: {r_plain}, dwh_fs_keys: {r_adv}")
        if hidden:
            ctx.violation("C09.a", mod, fn, f"{label} hides the user table dwh_fs_keys", loc_,
                          f"the WHERE clause of {label} is definitely FALSE for a user table called `dwh_fs_keys` (a quoted lower-case name that only "
                          f"contains `_fs_`) and not for `orders`: the table disappears from this listing while information_schema and the other "
                          f"listings still show it")
    ctx.floor("C09.a name filters evaluated on user tables", n_like, 4)
    # pass-through of information_schema.tables / columns: no filter at all
    for view, stage in (("information_schema.tables", "information_schema_fs_tables_ext"), ("information_schema.columns", "information_schema_fs_columns_snowflake")):
        fnode = prog.modules["transforms"].functions.get(stage)
        has_filter = fnode is not None and any(isinstance(c, ast.Constant) and isinstance(c.value, str) and "_fs_" in c.value.lower() and "like" in c.value.lower()
                                               for c in ast.walk(fnode))
        # the columns view itself may filter
        if "columns" in view:
            txt = next((t_ for _k, t_, _s in prog.mod("info_schema").sql_templates() if "_fs_columns_snowflake" in t_ and "create" in t_.lower()), "")
            has_filter = has_filter or bool(re.search(r"where[^;]*_fs_", txt, re.I | re.S))
        ctx.ob("C09.a", f"user query on {view}: internal _fs_* objects are filtered out", has_filter, "fakesnow/transforms.py")
        if not has_filter:
            ctx.violation("C09.a", "transforms", stage, f"{view} lists internal objects", "fakesnow/transforms.py",
                          f"a user query on {view} is passed through (redirected/joined) without any filter on fakesnow's _fs_* objects: "
                          f"information_schema._fs_tables_ext, _fs_columns_ext and _fs_columns_snowflake are listed as user objects")


def rule_scope(ctx):
    prog = ctx.prog
    # DESCRIBE TABLE: catalog, schema and table each constrained by equality with the matching hole
    n = 0
    for kind, want in (("DESCRIBE TABLE", {"TABLE_CATALOG": "CUR_DB", "TABLE_SCHEMA": "CUR_SCHEMA", "TABLE_NAME": "T"}),
                       ("DESCRIBE VIEW", {"TABLE_CATALOG": "CUR_DB", "TABLE_SCHEMA": "S", "TABLE_NAME": "V"})):
        for tr in traces(prog, kind):
            if tr.path.outcome != "return" or len(tr.engine_sql) < 2:
                continue
            k, root = sql_root(tr.engine_sql[-1])
            src = getattr(root, "parsed_from", None) if k == "node" else tr.engine_sql[-1]
            if src is None:
                continue
            n += 1
            got = _eq_conjuncts(src)
            probs = [f"{c} = {got.get(c)}" for c, h in want.items() if got.get(c) != h]
            ctx.ob("C09.b", f"{kind}: template constrains catalog, schema and table of the described object", not probs,
                   "fakesnow/transforms.py", "; ".join(probs))
            if probs:
                ctx.violation("C09.b", "transforms", "describe_table", f"{kind}: {probs[0]}", "fakesnow/transforms.py",
                              f"the DESCRIBE rewrite does not restrict its answer to the described object ({'; '.join(probs)}; expected "
                              f"{want}): columns of equally named tables elsewhere are mixed in")
    ctx.floor("C09.b describe traces", n, 2)
    # SHOW ... IN
    want_show = {
        "SHOW TABLES IN DATABASE": {"TABLE_CATALOG": "D"}, "SHOW OBJECTS IN DATABASE": {"TABLE_CATALOG": "D"},
        "SHOW TABLES IN SCHEMA": {"TABLE_CATALOG": "CUR_DB", "TABLE_SCHEMA": "S"},
        "SHOW OBJECTS IN SCHEMA qualified": {"TABLE_CATALOG": "D", "TABLE_SCHEMA": "S"},
        "SHOW SCHEMAS IN DATABASE": {"CATALOG_NAME": "D"},
        "SHOW SCHEMAS IN <database>": {"CATALOG_NAME": "D"},
        "SHOW PRIMARY KEYS IN SCHEMA": {"DATABASE_NAME": "D", "SCHEMA_NAME": "S"},
        "SHOW PRIMARY KEYS IN TABLE": {"TABLE_NAME": "T", "SCHEMA_NAME": "S"},
    }
    for label, mod, fn, sqlv, site in listings(prog):
        if label not in want_show:
            continue
        got = _eq_conjuncts(sqlv)
        w = want_show[label]
        probs = [f"{c} is {'not constrained' if got.get(c) is None else 'constrained to ' + str(got.get(c))}" for c, h in w.items()
                 if (got.get(c) != h) and not (c == "DATABASE_NAME" and got.get(c) in ("D", "CUR_DB") and h == "D" and False)]
        # SHOW KEYS: database_name is compared twice (current db and the qualifier): accept if any conjunct has the qualifier
        loc = f"fakesnow/{mod}.py:{getattr(site, 'lineno', 0)}"
        ctx.ob("C09.b", f"{label}: scope conjuncts {w}", not probs, loc, "; ".join(probs))
        if probs:
            ctx.violation("C09.b", mod, fn, f"{label}: {probs[0]}", loc,
                          f"{label}: {'; '.join(probs)} — objects outside the requested scope are listed")


def _eq_conjuncts(sqlv) -> dict:
    """column -> hole tag / constant for top-level `col = 'x'` conjuncts (last one wins)."""
    out: dict = {}
    try:
        st = sqlt.split_statements(sqlt.tokenize(sqlv))[0]
        wp = sqlt.where_pred(st)
    except Exception:  # noqa: BLE001
        return out
    if not wp:
        return out
    for cj in sqlt.conjuncts(wp[0]):
        if cj[0] == "cmp" and cj[1] == "=":
            l, r = cj[2], cj[3]
            if r[0] == "col" and l[0] != "col":
                l, r = r, l
            if l[0] == "col" and r[0] == "lit":
                parts = r[1]
                v = parts[0] if len(parts) == 1 else None
                out[l[1]] = v if isinstance(v, str) else tagof(v) if v is not None else "".join(p if isinstance(p, str) else tagof(p) for p in parts)
    # trailing conjuncts appended after the parsed predicate (statement += "AND ...") are in `rest`
    for i, t in enumerate(wp[1]):
        if t.is_kw("AND") and i + 3 < len(wp[1]) + 1:
            seg = wp[1][i + 1:i + 4]
            if len(seg) == 3 and seg[0].kind == "word" and seg[1].kind == "op" and seg[1].parts == "=" and seg[2].kind == "str":
                parts = seg[2].parts
                v = parts[0] if len(parts) == 1 else None
                out[seg[0].up] = v if isinstance(v, str) else tagof(v) if v is not None else None
    return out


def rule_keys(ctx):
    """C09.c: side-table writer / ON CONFLICT / PRIMARY KEY / reader join agree."""
    prog = ctx.prog
    m = prog.mod("info_schema")
    ctx.analysed("info_schema.insert_table_comment_sql", "info_schema.insert_text_lengths_sql", "transforms.information_schema_fs_tables_ext")
    tables = {}
    for k, txt, stmt_ in m.sql_templates():
        if True:
            mt = re.search(r"create (?:or replace )?table (?:if not exists )?\$\{\w+\}\.information_schema\.(\w+)\s*\((.*)\)", txt, re.S | re.I)
            if mt:
                body = mt.group(2)
                cols = [c.strip().split()[0] for c in body.split(",\n") if c.strip() and not c.strip().upper().startswith("PRIMARY")]
                pk = re.search(r"PRIMARY KEY\s*\(([^)]*)\)", body, re.I)
                tables[mt.group(1)] = {"cols": cols, "pk": [c.strip() for c in pk.group(1).split(",")] if pk else [], "stmt": stmt_}
    ctx.floor("side tables", len(tables), 2)
    writers = {"_fs_tables_ext": ("insert_table_comment_sql", ["CAT", "SCH", "TBL", "CMT"]),
               "_fs_columns_ext": ("insert_text_lengths_sql", ["CAT", "SCH", "TBL", Lst([__import__("fsa.values", fromlist=["Tup"]).Tup([Sym("COL", typ="str", truthy=True), Sym("SIZE", typ="int", truthy=True)])])])}
    for tname, (wfn, args) in writers.items():
        if tname not in tables or not prog.has_fn("info_schema", wfn):
            continue
        def run(I, wfn=wfn, args=args):
            vals = [a if not isinstance(a, str) else Sym(a, typ="str", truthy=True) for a in args]
            return I.call(I.global_lookup("info_schema", wfn), vals, {}, None)
        for p in explore(prog, Hooks, run, max_paths=8):
            sqlv = p.value
            toks = sqlt.tokenize(sqlv)
            c = sqlt.classify(toks)
            pk = [x.upper() for x in tables[tname]["pk"]]
            ok_conf = [x.upper() for x in c.get("conflict", [])] == pk
            fnode = prog.fn("info_schema", wfn)
            ctx.ob("C09.c", f"{wfn}: ON CONFLICT target == PRIMARY KEY of {tname}", ok_conf, m.loc(fnode), str(c.get("conflict")))
            if not ok_conf:
                ctx.violation("C09.c", "info_schema", wfn, f"ON CONFLICT {c.get('conflict')}", m.loc(fnode),
                              f"the upsert into {tname} conflicts on {c.get('conflict')} but the table's primary key is {tables[tname]['pk']}: "
                              f"re-declaring a comment/length raises or leaves the stale row")
            txt_all = text_of(sqlv)
            valcols = [c_ for c_ in tables[tname]["cols"] if c_.upper() not in pk]
            ok_up = bool(re.search(r"DO\s+UPDATE\s+SET", txt_all, re.I)) and all(
                re.search(rf"{c_}\s*=\s*excluded\.{c_}", txt_all, re.I) for c_ in valcols) and not re.search(r"OR\s+IGNORE|DO\s+NOTHING", txt_all, re.I)
            ctx.ob("C09.c", f"{wfn}: a re-declaration overwrites the stored {valcols} (upsert)", ok_up, m.loc(fnode))
            if not ok_up:
                ctx.violation("C09.c", "info_schema", wfn, "side-table write is not an overwriting upsert", m.loc(fnode),
                              f"the write to {tname} does not overwrite {valcols} on conflict (ON CONFLICT .. DO UPDATE SET col = excluded.col): "
                              f"after the object is declared again the metadata views keep the first declaration")
            # values tuple order == column order (first 3/4 key columns)
            i = sqlt.find_kw(toks, "VALUES", depth0=False)
            vals = [t for t in toks[i + 1:i + 12] if t.kind in ("str", "word")] if i >= 0 else []
            tags = [t.text.strip("{}") for t in vals[:len(pk)]]
            want = ["CAT", "SCH", "TBL", "COL"][:len(pk)]
            ok_vals = tags == want
            ctx.ob("C09.c", f"{wfn}: VALUES tuple follows the key column order of {tname}", ok_vals, m.loc(fnode), str(tags))
            if not ok_vals:
                ctx.violation("C09.c", "info_schema", wfn, f"VALUES order {tags}", m.loc(fnode),
                              f"the row written to {tname} has its key values in the order {tags}, the table's key columns are "
                              f"{tables[tname]['cols'][:len(pk)]}: readers join on the wrong values")
            tgt = ".".join(t.text for t in (c.get("tables") or [[]])[0])
            ok_t = tgt.lower() == "{cat}.information_schema." + tname
            ctx.ob("C09.c", f"{wfn}: writes the side table of the object's own catalog (C18.c)", ok_t, m.loc(fnode), tgt)
            if not ok_t:
                ctx.violation("C09.c", "info_schema", wfn, f"target {tgt}", m.loc(fnode),
                              f"the metadata row is written to `{tgt}` instead of the side table inside the object's own database file")
    # reader joins
    t = prog.modules["transforms"].functions.get("information_schema_fs_tables_ext")
    if t is not None and "_fs_tables_ext" in tables:
        txt = " ".join(c.value for c in ast.walk(t) if isinstance(c, ast.Constant) and isinstance(c.value, str))
        pairs = re.findall(r"tables\.(\w+)\s*=\s*_fs_tables_ext\.(\w+)", txt)
        want = {("table_catalog", "ext_table_catalog"), ("table_schema", "ext_table_schema"), ("table_name", "ext_table_name")}
        ok = set(pairs) == want
        ctx.ob("C09.c", "information_schema.tables join uses the three key columns of _fs_tables_ext", ok, prog.mod("transforms").loc(t), str(pairs))
        if not ok:
            ctx.violation("C09.c", "transforms", "information_schema_fs_tables_ext", f"join {pairs}", prog.mod("transforms").loc(t),
                          f"the join that adds table comments pairs {pairs}; the side table is keyed by catalog, schema and name: comments of "
                          f"equally named tables in other schemas/databases are mixed up")
    cv = next((t_ for _k, t_, _s in m.sql_templates() if "_fs_columns_snowflake" in t_ and "create" in t_.lower()), None)
    if cv and "_fs_columns_ext" in tables:
        pairs = set(re.findall(r"(ext_\w+)\s*=\s*columns\.(\w+)", cv))
        want = {("ext_table_catalog", "table_catalog"), ("ext_table_schema", "table_schema"), ("ext_table_name", "table_name"), ("ext_column_name", "column_name")}
        ok = pairs == want
        ctx.ob("C09.c", "columns view joins _fs_columns_ext on its four key columns", ok, m.path, str(sorted(pairs)))
        if not ok:
            ctx.violation("C09.c", "info_schema", "SQL_CREATE_INFORMATION_SCHEMA_COLUMNS_VIEW", f"join {sorted(pairs)}", m.path,
                          f"the columns view joins the VARCHAR-length side table on {sorted(pairs)}, not on catalog, schema, table and column")


def rule_lifecycle(ctx):
    """C09.d: DDL that invalidates a side-table key deletes or re-keys the rows."""
    prog = ctx.prog
    for kind in ("DROP TABLE",):
        for tr in traces(prog, kind):
            if tr.path.outcome != "return":
                continue
            touched = any("_fs_tables_ext" in text_of(s) or "_fs_columns_ext" in text_of(s) for s in tr.engine_sql)
            ctx.ob("C09.d", f"{kind}: side-table rows of the object are deleted", touched, "fakesnow/cursor.py")
            if not touched:
                ctx.violation("C09.d", "cursor", "FakeSnowflakeCursor._execute", f"{kind}: side tables not cleaned", "fakesnow/cursor.py",
                              f"{kind} leaves the object's rows in _fs_tables_ext/_fs_columns_ext: after `drop table st; create table st (v int)` "
                              f"the new table still shows the old comment and VARCHAR length")


def rule_lifecycle_keys(ctx):
    """C09.d2: when a DROP removes side-table rows, it removes the rows of the object the statement names — keyed by the
    statement's own qualifiers where it has them, by the session's database / schema only where it has none."""
    prog = ctx.prog
    n = 0
    for kind, want in (("DROP TABLE", ("CUR_DB", "CUR_SCHEMA")), ("DROP TABLE @schema", ("CUR_DB", "S9")), ("DROP TABLE @full", ("D9", "S9"))):
        try:
            trs = traces(prog, kind)
        except KeyError:
            continue
        for tr in trs:
            if tr.path.outcome != "return":
                continue
            n += 1
            for sqlv in tr.engine_sql:
                txt = text_of(sqlv)
                if not re.search(r"\b(DELETE\s+FROM|UPDATE)\b", txt, re.I) or ("_fs_tables_ext" not in txt and "_fs_columns_ext" not in txt):
                    continue
                missing = [w for w in want if "'{" + w + "}'" not in txt]
                foreign = [w for w in ("CUR_DB", "CUR_SCHEMA") if w not in want and "'{" + w + "}'" in txt]
                ok = not missing and not foreign
                ctx.ob("C09.d2", f"{kind}: side-table rows removed are keyed {want}", ok, "fakesnow/cursor.py", f"missing {missing} foreign {foreign}")
                if not ok:
                    ctx.violation("C09.d2", "cursor", "FakeSnowflakeCursor._execute", f"{kind}: side-table rows removed under the wrong key",
                                  "fakesnow/cursor.py",
                                  f"{kind} removes side-table rows with a key that lacks {missing} / uses the session's {foreign}: dropping "
                                  f"`s2.orders` while s1 is current wipes the comment and VARCHAR lengths of the still existing `s1.orders`")
    ctx.floor("C09.d2 DROP traces", n, 3)


def rule_quote(ctx):
    """C09.e: free text between single quotes has its quotes doubled."""
    prog = ctx.prog
    m = prog.mod("info_schema")
    if not prog.has_fn("info_schema", "insert_table_comment_sql"):
        return
    fn = prog.fn("info_schema", "insert_table_comment_sql")

    def run(I):
        return I.call(I.global_lookup("info_schema", "insert_table_comment_sql"),
                      [Sym("CAT", typ="str", truthy=True), Sym("SCH", typ="str", truthy=True), Sym("TBL", typ="str", truthy=True),
                       Sym("FREE_TEXT", typ="str", truthy=True)], {}, None)
    n_free = 0
    for p in explore(prog, Hooks, run, max_paths=8):
        toks = sqlt.tokenize(p.value)
        for t in toks:
            if t.kind != "str":
                # the free text anywhere else (bare, dollar-quoted, in a comment ...) has no escaping that is safe for every value
                for h in (t.holes() if hasattr(t, "holes") else []):
                    if "FREE_TEXT" in tagof(h):
                        n_free += 1
                        ctx.ob("C09.e", "table comment text is embedded as a single-quoted literal", False, m.loc(fn), f"{t.kind} token")
                        ctx.violation("C09.e", "info_schema", "insert_table_comment_sql", "comment text outside a single-quoted literal", m.loc(fn),
                                      "the comment text is spliced into the bookkeeping statement outside a single-quoted literal (e.g. between $$ … $$): "
                                      "a value containing the delimiter ends the literal early and the rest is executed as SQL")
                continue
            for h in t.holes():
                if "FREE_TEXT" not in tagof(h):
                    continue
                n_free += 1
                escaped = isinstance(h, Sym) and h.origin and h.origin[0] == "method" and h.origin[2] == "replace" and \
                    [getattr(a, "v", None) for a in h.origin[3]] == ["'", "''"]
                ctx.ob("C09.e", "table comment text has its single quotes doubled before being placed in a literal", bool(escaped), m.loc(fn), tagof(h))
                if not escaped:
                    ctx.violation("C09.e", "info_schema", "insert_table_comment_sql", "'{comment}' without quote doubling", m.loc(fn),
                                  "the comment text is placed between single quotes as is: a comment containing a quote (`comment = 'it''s'`) "
                                  "breaks the bookkeeping statement (raw ParserException after the table was created)")
    ctx.floor("C09.e occurrences of the comment text in the generated statement", n_free, 1)


VIEW_TYPE_ORACLE = {"BIGINT": "NUMBER", "VARCHAR": "TEXT", "DOUBLE": "FLOAT", "BLOB": "BINARY", "TIMESTAMP": "TIMESTAMP_NTZ",
                    "TIMESTAMP WITH TIME ZONE": "TIMESTAMP_TZ", "JSON": "VARIANT"}
DESCRIBE_TYPE_ORACLE = {"NUMBER": r"NUMBER\(.*numeric_precision.*numeric_scale", "TEXT": r"VARCHAR\(.*coalesce\(character_maximum_length,\s*16777216\)",
                        "TIMESTAMP_NTZ": r"TIMESTAMP_NTZ\(9\)", "TIMESTAMP_TZ": r"TIMESTAMP_TZ\(9\)", "TIME": r"TIME\(9\)", "BINARY": r"BINARY\(8388608\)"}


def rule_type_names(ctx):
    """C09.h: the columns view maps each DuckDB type to Snowflake's type name, and DESCRIBE renders each with its
    Snowflake precision/length suffix (WHEN/THEN pairs of the templates against the oracle)."""
    prog = ctx.prog
    m = prog.mod("info_schema")
    cv = next(((k, t_, s_) for k, t_, s_ in m.sql_templates() if "_fs_columns_snowflake" in t_ and "create" in t_.lower()), None)
    if cv is None:
        raise AnalysisError("anchor vanished: columns view template")
    k, txt, cv_stmt = cv
    first_case = txt[:txt.lower().find("as data_type")]
    pairs = dict(re.findall(r"when\s+columns\.data_type\s*=\s*'([^']+)'\s+then\s+'([^']+)'", first_case, re.I))
    dec = re.search(r"when\s+starts_with\(columns\.data_type,\s*'DECIMAL'\)\s+or\s+columns\.data_type\s*=\s*'BIGINT'\s+then\s+'(\w+)'", first_case, re.I)
    if dec:
        pairs["BIGINT"] = dec.group(1)
        pairs["DECIMAL"] = dec.group(1)
    ctx.floor("data_type mapping pairs in the columns view", len(pairs), 5)
    for duck, want in {**VIEW_TYPE_ORACLE, "DECIMAL": "NUMBER"}.items():
        got = pairs.get(duck)
        ok = got == want
        ctx.ob("C09.h", f"columns view: DuckDB {duck} is reported as {want}", ok, m.loc(cv_stmt), str(got))
        if not ok:
            ctx.violation("C09.h", "info_schema", k, f"data_type {duck} -> {got}", m.loc(cv_stmt),
                          f"information_schema.columns reports a DuckDB {duck} column as `{got}`; Snowflake's type name is {want} "
                          f"(DESCRIBE TABLE and SHOW build on this name)")
    # BIGINT precision 38 / radix 10
    okp = bool(re.search(r"when\s+columns\.data_type\s*=\s*'BIGINT'\s+then\s+38", txt, re.I)) and bool(
        re.search(r"when\s+columns\.data_type\s*=\s*'BIGINT'\s+then\s+10", txt, re.I))
    ctx.ob("C09.h", "columns view: integers report precision 38, radix 10", okp, m.loc(cv_stmt))
    if not okp:
        ctx.violation("C09.h", "info_schema", k, "integer precision/radix", m.loc(cv_stmt),
                      "integer columns must report numeric_precision 38 and radix 10 like Snowflake's NUMBER(38,0)")
    t = prog.mod("transforms")
    dtt = next(((k_, t_, s_) for k_, t_, s_ in t.sql_templates() if re.search(r"WHEN\s+data_type\s*=", t_, re.I) and "describe" in k_.lower()), None)
    if dtt is not None:
        text, dt_stmt = dtt[1], dtt[2]
        for ty, rx in DESCRIBE_TYPE_ORACLE.items():
            mt = re.search(rf"WHEN\s+data_type\s*=\s*'{ty}'\s+THEN\s+(.*?)(?=WHEN|ELSE)", text, re.I | re.S)
            ok = bool(mt) and bool(re.search(rx, mt.group(1).replace("' || ", "").replace(" || '", "").replace("'", ""), re.I | re.S))
            ctx.ob("C09.h", f"DESCRIBE TABLE renders {ty} with its Snowflake suffix", ok, t.loc(dt_stmt))
            if not ok:
                ctx.violation("C09.h", "transforms", "SQL_DESCRIBE_TABLE", f"type text for {ty}", t.loc(dt_stmt),
                              f"DESCRIBE TABLE does not render {ty} columns the way Snowflake does (expected pattern {rx})")


def rule_bookkeeping_names(ctx):
    """C09.i: the side-table rows carry (catalog, schema, table) of the object itself — the qualifier if the statement
    has one, else the session's current database / schema."""
    from ..execmodel import coldef, lit, node, table
    from ..values import Lst

    prog = ctx.prog
    cases = {
        "unqualified": (lambda: table("T"), ("CUR_DB", "CUR_SCHEMA", "T")),
        "schema-qualified": (lambda: table("T", "S"), ("CUR_DB", "S", "T")),
        "fully qualified": (lambda: table("T", "S", "D"), ("D", "S", "T")),
    }
    for label, (mk, want) in cases.items():
        hooks = []

        def fac():
            h = ExecHooks(None)
            hooks.append(h)
            return h

        def run(I, mk=mk):
            duck, conn, cur = make_session()
            stmt = node("Create", "stmt", kind=Const("TABLE"), this=node("Schema", this=mk(), expressions=Lst([coldef("A", "VARCHAR", 10)])),
                        properties=node("Properties", expressions=Lst([node("SchemaCommentProperty", this=lit(Sym("comment", typ="str", truthy=True)))])))
            tr = I.call(I.getattr(cur, "_transform"), [stmt], {}, None)
            return I.call(I.getattr(cur, "_execute"), [tr, Const(None)], {}, None)

        for p, h in zip(explore(prog, fac, run, max_paths=16), hooks):
            if p.outcome != "return":
                continue
            written = {w for sqlv, _, _ in h.calls for w in ("_fs_tables_ext", "_fs_columns_ext") if w in text_of(sqlv)}
            okb = written == {"_fs_tables_ext", "_fs_columns_ext"}
            ctx.ob("C09.i", f"{label} CREATE TABLE with a comment and a sized VARCHAR records both", okb, "fakesnow/cursor.py", str(sorted(written)))
            if not okb:
                ctx.violation("C09.i", "cursor", "FakeSnowflakeCursor._execute", f"{label}: only {sorted(written)} recorded", "fakesnow/cursor.py",
                              f"a CREATE TABLE that declares a comment and a VARCHAR(10) column writes only {sorted(written) or 'nothing'} of the two side "
                              f"tables: the other piece of metadata (length / comment) is lost for this table")
            for sqlv, _, site in h.calls:
                txt = text_of(sqlv)
                if "_fs_tables_ext" not in txt and "_fs_columns_ext" not in txt:
                    continue
                mt = re.search(r"values\s*\(\s*'\{([^}]*)\}',\s*'\{([^}]*)\}',\s*'\{([^}]*)\}'", txt, re.I)
                tgt = re.search(r"INSERT INTO \{([^}]*)\}\.information_schema", txt, re.I)
                got = mt.groups() if mt else None
                ok = got == want and tgt is not None and tgt.group(1) == want[0]
                which = "_fs_tables_ext" if "_fs_tables_ext" in txt else "_fs_columns_ext"
                ctx.ob("C09.i", f"{label} CREATE TABLE: {which} row is keyed {want} in catalog {want[0]}", ok, site_loc_(site), str(got))
                if not ok:
                    ctx.violation("C09.i", "cursor", "FakeSnowflakeCursor._execute", f"{label}: {which} keyed {got}", site_loc_(site),
                                  f"for a {label} CREATE TABLE the {which} row is written with key {got} (target catalog "
                                  f"{tgt.group(1) if tgt else '?'}); the object is {want}: comments / VARCHAR lengths are filed under the wrong "
                                  f"database or schema")
            break


def rule_lengths_of_query_defined_objects(ctx):
    """C09.m: an object whose columns are defined by a query with sized VARCHAR casts — a view or a CREATE TABLE AS — has its
    declared lengths recorded like a table with a column list (information_schema.columns / DESCRIBE report them)."""
    from ..execmodel import ident, lit, node, table
    from ..values import EnumV, Lst

    prog = ctx.prog
    n = 0
    for label, kind, extra in (("CREATE VIEW … AS SELECT c::varchar(12) AS name", "VIEW", {}),
                               ("CREATE OR REPLACE VIEW … AS SELECT c::varchar(12) AS name", "VIEW", {"replace": Const(True)}),
                               ("CREATE TABLE … AS SELECT c::varchar(12) AS name", "TABLE", {})):
        hooks = []

        def fac():
            h = ExecHooks(None)
            hooks.append(h)
            return h

        def run(I, kind=kind, extra=extra):
            duck, conn, cur = make_session()
            dt = node("DataType", this=EnumV("DataType.Type.VARCHAR"), nested=Const(False),
                      expressions=Lst([node("DataTypeParam", this=lit("12", False))]))
            sel = node("Select", expressions=Lst([node("Alias", this=node("Cast", this=node("Column", this=ident("C")), to=dt), alias=ident("NAME"))]),
                       **{"from": node("From", this=table("U"))})
            stmt = node("Create", "stmt", kind=Const(kind), this=table("V"), expression=sel, **extra)
            tr = I.call(I.getattr(cur, "_transform"), [stmt], {}, None)
            return I.call(I.getattr(cur, "_execute"), [tr, Const(None)], {}, None)

        for p, h in zip(explore(prog, fac, run, max_paths=16), hooks):
            if p.outcome != "return":
                continue
            n += 1
            recorded = any("_fs_columns_ext" in text_of(sqlv) for sqlv, _, _ in h.calls)
            ctx.ob("C09.m", f"{label}: the declared length is recorded", recorded, "fakesnow/transforms.py")
            if not recorded:
                ctx.violation("C09.m", "transforms", "extract_text_length", f"{label}: length not recorded", "fakesnow/transforms.py",
                              f"after `{label}` no row is written to the VARCHAR-length side table: DESCRIBE and information_schema.columns report "
                              f"16777216 / NULL for a column declared VARCHAR(12), while the same query as a table with a column list reports 12")
            break
    ctx.floor("C09.m query-defined objects", n, 3)


def rule_if_not_exists_keeps_metadata(ctx):
    """C09.n: `CREATE TABLE IF NOT EXISTS t (...)` on a table that already exists changes nothing — the statement's comment and
    VARCHAR lengths must not replace the existing table's. The side-table writes of an IF NOT EXISTS create therefore keep an
    existing row (accepted idioms: ON CONFLICT DO NOTHING / INSERT OR IGNORE, or a write made only when the table was created)."""
    from ..execmodel import coldef, lit, node, table
    from ..values import Lst

    prog = ctx.prog
    hooks = []

    def fac():
        h = ExecHooks(None)
        hooks.append(h)
        return h

    def run(I):
        duck, conn, cur = make_session()
        stmt = node("Create", "stmt", kind=Const("TABLE"), exists=Const(True),
                    this=node("Schema", this=table("T"), expressions=Lst([coldef("A", "VARCHAR", 10)])),
                    properties=node("Properties", expressions=Lst([node("SchemaCommentProperty", this=lit(Sym("comment", typ="str", truthy=True)))])))
        tr = I.call(I.getattr(cur, "_transform"), [stmt], {}, None)
        return I.call(I.getattr(cur, "_execute"), [tr, Const(None)], {}, None)

    n = 0
    for p, h in zip(explore(prog, fac, run, max_paths=16), hooks):
        if p.outcome != "return":
            continue
        for sqlv, _, site in h.calls:
            txt = text_of(sqlv)
            if "_fs_tables_ext" not in txt and "_fs_columns_ext" not in txt:
                continue
            n += 1
            which = "_fs_tables_ext" if "_fs_tables_ext" in txt else "_fs_columns_ext"
            overwrites = bool(re.search(r"DO\s+UPDATE|OR\s+REPLACE|\bDELETE\b", txt, re.I))
            ctx.ob("C09.n", f"CREATE TABLE IF NOT EXISTS: the {which} write keeps an existing row", not overwrites, site_loc_(site))
            if overwrites:
                ctx.violation("C09.n", "cursor", "FakeSnowflakeCursor._execute", f"IF NOT EXISTS create overwrites {which}", site_loc_(site),
                              f"`create table if not exists t (v varchar(9)) comment='c2'` on an existing table leaves the table as it is, but its "
                              f"{which} row is overwritten (ON CONFLICT … DO UPDATE): information_schema / DESCRIBE then report the new statement's "
                              f"{'comment' if which == '_fs_tables_ext' else 'VARCHAR length'} for the old table")
        break
    ctx.floor("C09.n side-table writes of an IF NOT EXISTS create", n, 1)


def site_loc_(site):
    return f"fakesnow/cursor.py:{getattr(site, 'lineno', 0)}"


def rule_no_phantom_comment(ctx):
    """C09.f: a CREATE without COMMENT records no comment (not the text of a Python None)."""
    prog = ctx.prog
    for tr in traces(prog, "CREATE TABLE props no comment"):
        if tr.path.outcome != "return":
            ctx.ob("C09.f", "CREATE TABLE with properties but no COMMENT succeeds", False, "fakesnow/cursor.py", repr(tr.path.value))
            ctx.violation("C09.f", "cursor", "FakeSnowflakeCursor._execute", "CREATE TABLE with properties but no comment raises", "fakesnow/cursor.py",
                          f"a CREATE TABLE with properties other than COMMENT raises {tr.path.value.cls} in the comment bookkeeping (the comment is None)")
            continue
        bad = [s for s in tr.engine_sql if "_fs_tables_ext" in text_of(s)]
        ctx.ob("C09.f", "CREATE TABLE with properties but no COMMENT writes no comment row", not bad, "fakesnow/transforms.py")
        if bad:
            ctx.violation("C09.f", "transforms", "extract_comment_on_table", "comment row without a declared comment", "fakesnow/transforms.py",
                          f"a CREATE TABLE with properties other than COMMENT still records a comment row (`{text_of(bad[0]).strip()[:90]}`): "
                          f"information_schema.tables reports the string 'None' as the table's comment")


def rule_views_session_independent(ctx):
    """C09.k: the per-database views fakesnow creates describe their own database whoever queries them: their bodies call no
    session-dependent function (current_database() ...), and a body that reads a catalog-wide duckdb_* view filters it by the
    database the view was created for."""
    prog = ctx.prog
    m = prog.mod("info_schema")
    if not prog.has_fn("info_schema", "creation_sql"):
        return
    fn = prog.fn("info_schema", "creation_sql")

    def run(I):
        return I.call(I.global_lookup("info_schema", "creation_sql"), [Sym("CAT", typ="str", truthy=True)], {}, None)

    n = 0
    for p in explore(prog, Hooks, run, max_paths=4):
        if p.outcome != "return":
            continue
        for st in sqlt.split_statements(sqlt.tokenize(p.value)):
            c = sqlt.classify(st)
            if c.get("kind") != "create" or c.get("what") != "VIEW":
                continue
            n += 1
            name = ".".join(t.text for t in (c.get("name") or []))
            words = [t.up for t in st if t.kind == "word"]
            dep = sorted({w for w in words if w in ("CURRENT_DATABASE", "CURRENT_SCHEMA", "CURRENT_SCHEMAS", "CURRENT_CATALOG", "CURRENT_SETTING", "CURRENT_USER")})
            ctx.ob("C09.k", f"view {name}: body does not depend on the querying session", not dep, m.loc(fn), str(dep))
            if dep:
                ctx.violation("C09.k", "info_schema", "creation_sql", f"view {name.split('.')[-1]} calls {dep[0].lower()}()", m.loc(fn),
                              f"the view `{name}` calls {', '.join(d.lower() + '()' for d in dep)}: what it lists follows the current database of whoever "
                              f"queries it, so `<db2>.information_schema.…` asked from a session on db1 describes db1 and disagrees with the other views")
            srcs = [".".join(t.text.lower() for t in nm) for nm in sqlt.from_tables(st)]
            # the relation the view lists (joined relations are tied to it by their ON conditions)
            wide = [x for x in srcs[:1] if x.startswith("duckdb_") and x.split("(")[0] in ("duckdb_views", "duckdb_tables", "duckdb_columns", "duckdb_constraints")]
            if wide:
                txt = " ".join((p.value.text() if isinstance(p.value, Str) else str(p.value.v)).split())
                seg = txt[txt.find(name.split(".")[-1]):]
                seg = seg[:seg.find(";")] if ";" in seg else seg
                ok = bool(re.search(r"database_name\s*(={1,2}|\bin\s*\()\s*'\{CAT\}'", seg, re.I))
                ctx.ob("C09.k", f"view {name}: rows of {wide[0]} are restricted to the view's own database", ok, m.loc(fn))
                if not ok:
                    ctx.violation("C09.k", "info_schema", "creation_sql", f"view {name.split('.')[-1]}: {wide[0]} not filtered by its own database", m.loc(fn),
                                  f"the view `{name}` reads `{wide[0]}` (every attached database) without `database_name = '<its database>'`")
    ctx.floor("C09.k per-database views", n, 3)


def rule_comment_not_sticky(ctx):
    """C09.j: "table comments as most recently declared" — the (table, comment) pair travels on the statement that declared
    it only: a stage that attaches it to a module-level constant statement makes every later statement that is rewritten
    to that constant record the stale comment again."""
    from .c19 import rule_constant_nodes

    rule_constant_nodes(ctx, "C09.j")


def rule_empty_comment_recorded(ctx):
    """C09.f (cont.): a declared comment is recorded even when it is the empty string — CREATE OR REPLACE TABLE … COMMENT = ''
    must overwrite the replaced table's comment ("table comments as most recently declared")."""
    prog = ctx.prog
    n = 0
    for tr in traces(prog, "CREATE OR REPLACE TABLE empty comment"):
        if tr.path.outcome != "return":
            continue
        n += 1
        rows = [s for s in tr.engine_sql if "_fs_tables_ext" in text_of(s)]
        ctx.ob("C09.f", "CREATE OR REPLACE TABLE … COMMENT = '' writes the (empty) comment row", bool(rows), "fakesnow/transforms.py")
        if not rows:
            ctx.violation("C09.f", "transforms", "extract_comment_on_table", "empty comment not recorded", "fakesnow/transforms.py",
                          "CREATE OR REPLACE TABLE … COMMENT = '' records nothing: the comment of the table it replaces stays in "
                          "information_schema.tables although the most recent declaration is the empty comment")
    ctx.floor("C09.f empty-comment traces", n, 1)


from .c06 import rule_precision_pattern  # noqa: E402  (description of SELECT * must agree on precision and scale)

def rule_columns_redirect_keeps_scope(ctx):
    """C09.l: redirecting `information_schema.columns` to fakesnow's own columns view keeps what the user wrote around the name:
    the catalog qualifier (`other_db.information_schema.columns` lists other_db), the schema and the alias."""
    from ..execmodel import node
    from .wiring import P, UNCHANGED, run_cases

    def ident(n):  # concrete names: the stage compares them with keywords
        return NodeV("Identifier", {"this": Const(n), "quoted": Const(False)}, name=f"id:{n}", open=False)

    def table(n, db, cat):
        a = {"this": ident(n), "db": ident(db)}
        if cat:
            a["catalog"] = ident(cat)
        t = NodeV("Table", a, name=f"tbl:{n}", open=False)
        for v in a.values():
            v.parent = t
        return t

    def q(cat, alias):
        def make():
            t = table("columns", "information_schema", cat)
            ops = {"db": t.args["db"]}
            if cat:
                ops["catalog"] = t.args["catalog"]
            if alias:
                a = node("TableAlias", "alias", this=ident("C"))
                t.args["alias"] = a
                a.parent = t
                ops["alias"] = a
            return t, ops
        return make

    def text(v):
        while isinstance(v, NodeV) and v.cls in ("Identifier", "TableAlias"):
            v = v.args.get("this")
        return v.v if isinstance(v, Const) else None

    def same(opnd):  # the operand itself or a rebuilt identifier / alias of the same name
        def pat(v, path):
            if v is opnd or (text(v) is not None and text(v) == text(opnd)):
                return None
            return f"{path} is `{tagof(v)}`, expected `{tagof(opnd)}`"
        return pat

    def want(o, i):
        slots = {"this": "_FS_COLUMNS_SNOWFLAKE", "db": same(o["db"])}
        if "catalog" in o:
            slots["catalog"] = same(o["catalog"])
        if "alias" in o:
            slots["alias"] = same(o["alias"])
        return P("Table", **slots)

    stage = "information_schema_fs_columns_snowflake"
    cases = [
        ("information_schema.columns -> the columns view", stage, q(None, False), want, "the view carries Snowflake's type names and lengths"),
        ("<db>.information_schema.columns keeps the database qualifier", stage, q("D9", False), want,
         "another database's columns are read from that database's view; without the qualifier the current database's (or no) metadata answers"),
        ("<db>.information_schema.columns AS c keeps qualifier and alias", stage, q("D9", True), want,
         "the alias is what the rest of the query refers to"),
        ("information_schema.columns AS c keeps the alias", stage, q(None, True), want, "the alias is what the rest of the query refers to"),
        ("a user table named COLUMNS is left alone", stage, lambda: (table("COLUMNS", "S1", "D9"), {}), UNCHANGED,
         "only the information_schema view is redirected"),
    ]
    n = run_cases(ctx, "C09.l", cases)
    ctx.floor("C09.l redirect cases", n, 5)


def rule_show_uses_current_context(ctx):
    """C09.o = C03.h: SHOW reports the catalog of the session's *current* database, also on a cursor made before a USE."""
    from .c03 import rule_context_read_at_statement_time
    rule_context_read_at_statement_time(ctx)


def rule_tables_view_extended_wherever_it_is_read(ctx):
    """C09.p: a SELECT on information_schema.tables gets the join that supplies the `comment` column wherever it stands — as the
    statement itself, as a CTE body, a subquery, the query of INSERT … SELECT / CREATE TABLE AS / a view (the stage is applied to
    every node; deciding by position in the tree makes the column unreadable in all nested uses)."""
    prog = ctx.prog
    tm = prog.mod("transforms")
    # the stage by role: the rewrite that mentions the tables side table
    cands = [q for q, f in tm.functions.items() if "." not in q and any(
        isinstance(c, ast.Constant) and isinstance(c.value, str) and "_fs_tables_ext" in c.value for c in ast.walk(f))
        and any(isinstance(c, ast.Attribute) and c.attr == "Select" for c in ast.walk(f))]
    ctx.floor("C09.p stages extending information_schema.tables", len(cands), 1)

    def idn(n_):
        return NodeV("Identifier", {"this": Const(n_), "quoted": Const(False)}, name=f"id:{n_}", open=False)

    def mk(parent_cls):
        t = NodeV("Table", {"this": idn("TABLES"), "db": idn("INFORMATION_SCHEMA")}, name="tbl:INFORMATION_SCHEMA.TABLES", open=False)
        fr = NodeV("From", {"this": t}, name="from", open=False)
        t.parent = fr
        sel = NodeV("Select", {"expressions": Lst([NodeV("Star", {}, name="star", open=False)]), "from": fr}, name="sel", open=False)
        fr.parent = sel
        if parent_cls:
            par = NodeV(parent_cls, {"this": sel} if parent_cls != "Insert" else {"this": NodeV("Table", {"this": idn("SNAP")}, name="tbl:SNAP", open=False),
                                                                              "expression": sel}, name="parent", open=False)
            sel.parent = par
        return sel

    n = 0
    for q in cands:
        fn = tm.functions[q]
        for parent_cls, label in ((None, "the statement itself"), ("Subquery", "a subquery"), ("CTE", "a CTE body"), ("Insert", "the query of INSERT … SELECT")):
            for p in explore(prog, lambda: ExecHooks(None), lambda I, q=q, parent_cls=parent_cls: I.call(I.global_lookup("transforms", q), [mk(parent_cls)], {}, None),
                             max_paths=16):
                if p.outcome != "return":
                    continue
                n += 1
                joined = any(e[0] == "nodejoin" and "_fs_tables_ext" in "".join(tagof(a) for a in e[2]) + str({k: tagof(v) for k, v in e[3].items()}) for e in p.effects) \
                    or any(e[0] == "nodejoin" for e in p.effects)
                ctx.ob("C09.p", f"{q}: SELECT on information_schema.tables as {label} is joined to the side table", joined, tm.loc(fn))
                if not joined:
                    ctx.violation("C09.p", "transforms", q, f"information_schema.tables not extended as {label}", tm.loc(fn),
                                  f"`{q}` leaves a SELECT on information_schema.tables untouched when it is {label}: the `comment` column Snowflake's "
                                  f"view has is missing there (binder error), although the same SELECT works as a statement of its own")
                break
    ctx.floor("C09.p positions evaluated", n, 4)


RULES = [
    ("C09.p", rule_tables_view_extended_wherever_it_is_read, ("quick", "thorough")),
    ("C09.o", rule_show_uses_current_context, ("quick", "thorough")),
    ("C09.l", rule_columns_redirect_keeps_scope, ("quick", "thorough")),
    ("C09.g", rule_precision_pattern, ("quick", "thorough")),
    ("C09.f", rule_no_phantom_comment, ("quick", "thorough")),
    ("C09.f2", rule_empty_comment_recorded, ("quick", "thorough")),
    ("C09.j", rule_comment_not_sticky, ("quick", "thorough")),
    ("C09.k", rule_views_session_independent, ("quick", "thorough")),
    ("C09.h", rule_type_names, ("quick", "thorough")),
    ("C09.i", rule_bookkeeping_names, ("quick", "thorough")),
    ("C09.a", rule_hidden, ("quick", "thorough")),
    ("C09.b", rule_scope, ("quick", "thorough")),
    ("C09.c", rule_keys, ("quick", "thorough")),
    ("C09.d", rule_lifecycle, ("quick", "thorough")),
    ("C09.d2", rule_lifecycle_keys, ("quick", "thorough")),
    ("C09.m", rule_lengths_of_query_defined_objects, ("quick", "thorough")),
    ("C09.n", rule_if_not_exists_keeps_metadata, ("quick", "thorough")),
    ("C09.e", rule_quote, ("quick", "thorough")),
]
