"""Helpers shared by the rule modules."""

from __future__ import annotations

import ast
import functools

from .. import sqlt
from ..execmodel import ENGINE_MODES, descriptors, run_kind
from ..model import AnalysisError, Program, norm
from ..values import Const, NodeV, Obj, Str, Sym, Val, tagof

QUERY_CLASSES = {"Select", "Union", "Intersect", "Except", "Subquery", "Values", "With"}

_cache: dict = {}


def traces(prog: Program, kind: str, mode=None, database_set=True, schema_set=True):
    key = (prog.digest(), kind, mode, database_set, schema_set)
    if key not in _cache:
        _cache[key] = run_kind(prog, kind, mode, database_set, schema_set)
    return _cache[key]


def all_kinds() -> list[str]:
    return list(descriptors())


def sql_root(v: Val):
    """('node', NodeV) for rendered AST statements, ('text', tokens) for templates, else ('?', None)."""
    if isinstance(v, Sym) and v.origin and v.origin[0] == "sql" and isinstance(v.origin[1], NodeV):
        return "node", v.origin[1]
    if isinstance(v, (Const, Str)):
        try:
            return "text", sqlt.tokenize(v)
        except Exception:  # noqa: BLE001
            return "?", None
    return "?", None


def is_query(v: Val) -> bool | None:
    """Is the SQL value a single query statement (something DESCRIBE can wrap)?  None = unknown."""
    k, x = sql_root(v)
    if k == "node":
        if x.cls is None:
            return None
        return x.cls in QUERY_CLASSES
    if k == "text":
        stmts = sqlt.split_statements(x)
        if len(stmts) != 1:
            return False
        return stmts[0][0].is_kw("SELECT", "WITH", "VALUES") if stmts[0] else False
    return None


def text_of(v: Val) -> str:
    if isinstance(v, Const):
        return str(v.v)
    if isinstance(v, Str):
        return v.text()
    return tagof(v)


def same_val(a: Val, b: Val) -> bool:
    if a is b:
        return True
    if isinstance(a, Const) and isinstance(b, Const):
        return a.v == b.v
    if isinstance(a, Str) and isinstance(b, Str):
        return a.text() == b.text()
    if isinstance(a, Sym) and isinstance(b, Sym):
        return a.tag == b.tag
    return False


def site_loc(prog: Program, mod: str, site) -> str:
    return f"fakesnow/{mod}.py:{getattr(site, 'lineno', 0)}"


def find_store_site(prog: Program, mod: str, qual: str, attr: str) -> ast.AST:
    """The statement that assigns self.<attr> in a function (for reporting)."""
    fn = prog.fn(mod, qual)
    best = None
    for n in ast.walk(fn):
        if isinstance(n, (ast.Assign, ast.AugAssign, ast.AnnAssign)):
            targets = n.targets if isinstance(n, ast.Assign) else [n.target]
            for t in targets:
                if isinstance(t, ast.Attribute) and t.attr == attr:
                    if best is None or n.lineno > best.lineno:
                        best = n
    return best or fn


SYSTEM_CATALOG_VIEWS = {"information_schema.tables", "information_schema.columns", "information_schema.schemata", "information_schema.views",
                        "duckdb_tables", "duckdb_views", "duckdb_columns", "duckdb_schemas", "duckdb_constraints", "duckdb_tables()", "duckdb_views()"}
CATALOG_COLUMNS = ("table_catalog", "catalog_name", "database_name")
NAME_COLUMNS = ("table_name", "table_schema", "schema_name", "view_name")


def unscoped_lookups(prog: Program, kinds=None):
    """[(kind, text, site)]: statements fakesnow itself sends that look an object up by name in one of DuckDB's catalog-wide
    system views (they span every attached database) without a conjunct on the database."""
    import re as _re

    out = []
    n = 0
    for kind in (kinds or all_kinds()):
        for tr in traces(prog, kind):
            for sqlv, _, site in tr.hooks.calls:
                k, root = sql_root(sqlv)
                txt = text_of(sqlv) if k == "text" else text_of(getattr(root, "parsed_from", None)) if k == "node" and getattr(root, "parsed_from", None) is not None else ""
                low = " ".join(txt.lower().split())
                m = _re.search(r"\bfrom\s+((information_schema\.(tables|columns|schemata|views))|duckdb_(tables|views|columns|schemas|constraints)(\(\))?)\b", low)
                if not m or _re.search(r"\}\s*\.\s*information_schema", low[:m.start() + 30]):
                    continue
                where = low[m.end():]
                if not any(_re.search(r"\b" + c + r"\b\s*\)?\s*={1,2}\s*('?\{|\?|\$\d)", where) for c in NAME_COLUMNS):
                    continue  # a listing (constant filters only), not a lookup of a given name (scope rules: C09.a/b)
                n += 1
                if not any(_re.search(r"\b" + c + r"\b", where) for c in CATALOG_COLUMNS):
                    out.append((kind, " ".join(txt.split())[:160], site))
    return out, n
