"""C10 — rewritten Snowflake functions (narrow claim: pipeline wiring only)."""

from __future__ import annotations

import ast

from ..model import norm
from ..pipeline import Stage, stages, summary
from ..values import Const, NodeV, Str, Sym, tagof
from .common import text_of, traces

EXPLANATION = (
    "Narrow claim. The value and result type of every rewritten function is DuckDB behaviour over unbounded argument "
    "domains and is not decided by static analysis. Decided: the wiring the rewrites depend on — (a) order obligations "
    "between pipeline stages (one stage's product is another's match; each obligation is resolved by the stages' semantic "
    "signatures, not their names, and carries its reason), (b) the side-channel protocol between transforms and _execute: "
    "every key read from the statement root is written by some stage, and a key written on a node class that can occur "
    "below the root is not read from the root only, (c) every site that attaches a user database runs the same bootstrap "
    "(information-schema extensions and macros such as EQUAL_NULL)."
)
RULE_TEXT = (
    "C10.a earlier/later pairs O3..O9 hold in the extracted stage order; C10.b side-channel keys read subset of keys "
    "written, nested-holder keys are searched for; C10.c bootstrap(CREATE DATABASE) == bootstrap(connect); C10.d operand "
    "wiring: stage(abstract input with symbolic operands) matches the documented product shape (slot, default, "
    "rejection, unchanged); C10.e EQUAL_NULL macro body three-valued over {NULL,x,y}^2."
    " C10.f closure: the product of stage i is a fixpoint of every stage j < i (exceptions listed with reasons)."
    " C10.g = C01.b; C10.h self-nesting: the product of a replacing stage must not embed an unrewritten occurrence of its own pattern (verdicts for the confirmed table NESTING_MATTERS)."
)
TRUSTED = ["CPython ast", "sqlglot Expression.transform visits pre-order and prunes below a replaced node",
           "order obligations table (DESIGN appendix B), each with its reason"]


def sig(prog, st: Stage):
    if st.fn is None:
        return None
    s = summary(prog, st.fn)
    src = norm(st.fn)
    return s, src


def find_stages(prog, pred) -> list[Stage]:
    out = []
    for st in stages(prog):
        x = sig(prog, st)
        if x is None:
            continue
        s, src = x
        try:
            if pred(s, src):
                out.append(st)
        except Exception:  # noqa: BLE001
            pass
    return out


def C(s, name):  # constructs class
    return any(c == name for c, _ in s.constructs)


OBLIGATIONS = [
    ("O3", "TRIM's implicit VARCHAR cast must exist before JSON-extract casts are rewritten",
     lambda s, src: "Trim" in s.match and C(s, "Cast"),
     lambda s, src: "Cast" in s.match and C(s, "JSONExtractScalar") and "JSONExtract" in src and "Explode" not in src and "Upper" not in src,
     "TRIM(v:a) must become TRIM(CAST(.. AS VARCHAR)) so that the quote-stripping stage sees a Cast over the JSON extraction"),
    ("O4", "index -> JSON extraction runs before REGEXP_SUBSTR is rewritten",
     lambda s, src: "Bracket" in s.match and C(s, "JSONExtract"),
     lambda s, src: "RegexpExtract" in s.match and C(s, "Bracket"),
     "REGEXP_SUBSTR is rewritten to a literal-index Bracket, which the index stage would turn into a JSON extraction"),
    ("O5a", "JSON-extract cast stage runs before the Paren-wrapping stage",
     lambda s, src: "Cast" in s.match and C(s, "JSONExtractScalar") and "Explode" not in src,
     lambda s, src: ("JSONExtract" in s.match or "JSONExtractScalar" in s.match) and C(s, "Paren"),
     "the Paren wrapper hides JSONExtract from the stages that strip JSON quotes"),
    ("O5b", "JSON-extract UPPER/LOWER stage runs before the Paren-wrapping stage",
     lambda s, src: ("Upper" in s.match or "Lower" in s.match) and C(s, "JSONExtractScalar"),
     lambda s, src: ("JSONExtract" in s.match or "JSONExtractScalar" in s.match) and C(s, "Paren"),
     "the Paren wrapper hides JSONExtract from the stages that strip JSON quotes"),
    ("O6", "semi-structured type mapping runs before FLATTEN is rewritten",
     lambda s, src: "DataType" in s.match and "VARIANT" in src and "JSON" in src,
     lambda s, src: "Lateral" in s.match and C(s, "Unnest"),
     "FLATTEN introduces DuckDB's JSON[] (ARRAY of JSON); mapping ARRAY -> JSON afterwards breaks UNNEST"),
    ("O7", "FLATTEN value cast stage runs before FLATTEN is rewritten",
     lambda s, src: "Cast" in s.match and "Explode" in src and C(s, "JSONExtractScalar"),
     lambda s, src: "Lateral" in s.match and C(s, "Unnest"),
     "the value-cast stage recognises FLATTEN by the Explode node the FLATTEN stage removes"),
    ("O8", "TO_DATE -> Cast(DATE) runs before the DATEADD date-cast stage",
     lambda s, src: "Anonymous" in s.match and "TO_DATE" in s.anon_names and C(s, "Cast"),
     lambda s, src: "DateAdd" in s.match and C(s, "Cast") and "DATE" in src and "Literal" not in s.match and "is_string" not in src,
     "DATEADD(day, n, TO_DATE(x)) is a DATE only if the Cast exists when DATEADD is inspected"),
    ("O9", "WITHIN GROUP rewrite runs before ARRAY_AGG is wrapped in TO_JSON",
     lambda s, src: "WithinGroup" in s.match and C(s, "ArrayAgg"),
     lambda s, src: "ArrayAgg" in s.match and C(s, "Anonymous") and "TO_JSON" in src and "WithinGroup" not in s.match,
     "wrapping ARRAY_AGG in TO_JSON first makes the WITHIN GROUP stage drop the wrapper"),
]
C10_IDS = {"O4", "O8", "O9"}
C11_IDS = {"O3", "O5a", "O5b", "O6", "O7"}


def check_obligations(ctx, rule_id: str, ids: set[str]):
    prog = ctx.prog
    st = stages(prog)
    ctx.floor("pipeline stages", len(st), 40)
    loc = prog.mod("cursor").loc(prog.fn("cursor", "FakeSnowflakeCursor._transform"))
    resolved = 0
    for oid, title, pe, pl, reason in OBLIGATIONS:
        if oid not in ids:
            continue
        early, late = find_stages(prog, pe), find_stages(prog, pl)
        if not early or not late:
            ctx.ob(rule_id, f"{oid} {title}", None, loc, f"signature resolves to earlier={early} later={late}: obligation dropped")
            ctx.note(f"{oid}: a signature no longer resolves (earlier={early}, later={late})")
            continue
        resolved += 1
        for e in early:
            for l in late:
                if e.index == l.index:
                    if e.name != l.name:
                        # two rewrites fused into one traversal: the later one runs on a node before the earlier one has
                        # seen the nodes visited after it, so for those the order is reversed
                        ctx.ob(rule_id, f"{oid} {title}: {e.name} and {l.name} are separate passes", False, loc)
                        ctx.violation(rule_id, "cursor", "FakeSnowflakeCursor._transform", f"{oid}: {l.name} fused with {e.name}", loc,
                                      f"pipeline order: `{e.name}` and `{l.name}` run in the same traversal (stage {e.index}): for every node "
                                      f"visited after the one `{l.name}` rewrites, `{e.name}` runs too late — {reason}")
                    continue
                ok = e.index < l.index
                ctx.ob(rule_id, f"{oid} {title}: {e.name}@{e.index} before {l.name}@{l.index}", ok, loc)
                if not ok:
                    ctx.violation(rule_id, "cursor", "FakeSnowflakeCursor._transform", f"{oid}: {l.name} before {e.name}", loc,
                                  f"pipeline order: `{l.name}` (stage {l.index}) runs before `{e.name}` (stage {e.index}) — {reason}")
    ctx.floor(f"{rule_id} obligations resolved", resolved, 1)


def rule_order(ctx):
    check_obligations(ctx, "C10.a", C10_IDS)


ROOT_ONLY = {"Use", "Create", "Alter", "Comment", "Command", "Drop", "Describe", "Show", "Set", "Merge", "Transaction", "Commit", "Rollback"}


def rule_side_channel(ctx):
    prog = ctx.prog
    sg = prog.sqlglot
    m = prog.mod("transforms")
    written: dict[str, list[tuple[str, set[str], ast.AST]]] = {}
    stage_fns = {st.name: st.fn for st in stages(prog) if st.fn is not None}

    def key_of(mod, node):
        """the key text of `args[<node>]` / `args.get(<node>)`: a string constant, or a module-level name bound to one"""
        if isinstance(node, ast.Constant) and isinstance(node.value, str):
            return node.value
        if isinstance(node, ast.Name):
            home = prog.locate(mod.name, node.id) or (mod.name, node.id)
            v = prog.modules[home[0]].consts.get(home[1]) if home[0] in prog.modules else None
            if isinstance(v, ast.Constant) and isinstance(v.value, str):
                return v.value
        return None

    # accessor helpers anywhere in the package: `def set_k(node, ...): node.args[K] = ...` / `def k(node): return node.args.get(K)`
    setters, getters = {}, {}
    for mod_ in prog.modules.values():
        for q, f in mod_.functions.items():
            if "." in q or not f.args.args:
                continue
            params = [a.arg for a in f.args.args]
            for n in ast.walk(f):
                if isinstance(n, ast.Assign):
                    for t in n.targets:
                        if isinstance(t, ast.Subscript) and isinstance(t.value, ast.Attribute) and t.value.attr == "args" \
                                and isinstance(t.value.value, ast.Name) and t.value.value.id in params and key_of(mod_, t.slice) is not None:
                            setters[(mod_.name, q)] = (params.index(t.value.value.id), key_of(mod_, t.slice))
                if isinstance(n, ast.Return) and isinstance(n.value, ast.Call) and isinstance(n.value.func, ast.Attribute) and n.value.func.attr == "get" \
                        and isinstance(n.value.func.value, ast.Attribute) and n.value.func.value.attr == "args" \
                        and isinstance(n.value.func.value.value, ast.Name) and n.value.func.value.value.id in params and n.value.args \
                        and key_of(mod_, n.value.args[0]) is not None and len(f.body) <= 2:
                    getters[(mod_.name, q)] = key_of(mod_, n.value.args[0])
    setters = {k: v for k, v in setters.items() if k[0] != "transforms" or k[1] not in stage_fns}

    def helper_of(mod, call, table):
        d = prog.dotted(mod, call.func) if isinstance(call, ast.Call) else None
        r = prog.resolve(d) if d else None
        if r is None and isinstance(call, ast.Call) and isinstance(call.func, ast.Name):
            r = prog.locate(mod.name, call.func.id) or (mod.name, call.func.id)
        return table.get(tuple(r)) if r else None
    # helpers of the stages write side-channel keys too (a stage split into private functions): scan the whole module
    all_fns = dict(stage_fns)
    for q, f in m.functions.items():
        if "." not in q and q not in all_fns:
            all_fns[q] = f
    for fname, fn in all_fns.items():
        st = type("S", (), {"name": fname})()
        s = summary(prog, fn)
        param = fn.args.args[0].arg if fn.args.args else None
        # (a) <x>.args["k"] = ...
        for n in ast.walk(fn):
            pairs = []
            if isinstance(n, ast.Assign):
                for t in n.targets:
                    if isinstance(t, ast.Subscript) and isinstance(t.value, ast.Attribute) and t.value.attr == "args" and key_of(m, t.slice) is not None:
                        pairs.append((key_of(m, t.slice), t.value.value))
            elif isinstance(n, ast.Call) and (hs := helper_of(m, n, setters)) is not None and len(n.args) > hs[0]:
                pairs.append((hs[1], n.args[hs[0]]))  # a setter helper called with this holder
            if pairs:
                    for key, holder in pairs:
                        classes = set()
                        if isinstance(holder, ast.Name):
                            if holder.id == param:
                                classes = set(s.match)
                            else:
                                # new = expression.copy() / SUCCESS_NOP.copy()
                                for d in ast.walk(fn):
                                    if isinstance(d, ast.Assign) and any(isinstance(tt, ast.Name) and tt.id == holder.id for tt in d.targets):
                                        if "SUCCESS_NOP" in norm(d.value):
                                            classes = {"Select(root no-op)"}
                                        elif param and param in norm(d.value):
                                            classes = set(s.match)
                        declared = any(key in (sg.arg_types(c) or []) for c in classes if c in sg.classes)
                        if not classes and any(key in (v["arg_types"] or []) for v in sg.classes.values()):
                            declared = True  # holder of unknown class, key is an ordinary slot name
                        if not declared:
                            written.setdefault(key, []).append((st.name, classes, n))
            # (b) undeclared kwargs of constructed nodes
            if isinstance(n, ast.Call):
                d = prog.dotted(m, n.func) or ""
                if d.startswith("sqlglot.exp.") and d.count(".") == 2:
                    cls = d.rsplit(".", 1)[-1]
                    at = sg.arg_types(cls)
                    if at is not None:
                        for k in n.keywords:
                            if k.arg and k.arg not in at:
                                written.setdefault(k.arg, []).append((st.name, {cls}, n))
    # readers in _execute: <root>.args.get("k") with k undeclared everywhere
    read: dict[str, ast.AST] = {}
    cur_mod = prog.mod("cursor")
    for n in [x for f_ in cur_mod.functions.values() for x in ast.walk(f_)]:
        if isinstance(n, ast.Call) and isinstance(n.func, ast.Attribute) and n.func.attr == "get" and isinstance(n.func.value, ast.Attribute) \
                and n.func.value.attr == "args" and isinstance(n.func.value.value, ast.Name) \
                and n.args and isinstance(n.args[0], ast.Constant):
            k = n.args[0].value
            if k in written or not any(k in (v["arg_types"] or []) for v in sg.classes.values()):
                read[k] = n
        elif isinstance(n, ast.Call) and (gk := helper_of(cur_mod, n, getters)) is not None:
            read[gk] = n  # a getter helper: `expr.seed(transformed)` reads args.get("seed")
    ctx.floor("side-channel keys written", len(written), 5)
    ctx.floor("side-channel keys read by _execute", len(read), 5)
    cm = prog.mod("cursor")
    for k, site in read.items():
        ok = k in written
        ctx.ob("C10.b", f"side-channel key `{k}` read by _execute is written by a stage", ok, cm.loc(site),
               ", ".join(w[0] for w in written.get(k, [])))
        if not ok:
            ctx.violation("C10.b", "cursor", "FakeSnowflakeCursor._execute", site, cm.loc(site),
                          f"_execute reads the side-channel key `{k}` from the statement but no pipeline stage writes it (writers: "
                          f"{sorted(written)}): the behaviour that depends on it silently never happens")
    for k, ws in written.items():
        if k not in read:
            ctx.ob("C10.b", f"side-channel key `{k}` written by {ws[0][0]} has a reader", None, m.loc(ws[0][2]), "never read by _execute")
            continue
        for name, classes, site in ws:
            nested = {c for c in classes if c not in ROOT_ONLY and "root no-op" not in c}
            ok = not nested
            ctx.ob("C10.b", f"key `{k}` written by {name} on {sorted(classes)}: holder is always the statement root", ok, m.loc(site))
            if not ok:
                ctx.violation("C10.b", "transforms", name, f"side-channel key `{k}` on nested-capable {'/'.join(sorted(nested))}", m.loc(site),
                              f"`{k}` is attached to a {'/'.join(sorted(nested))} node, which can occur below the statement root "
                              f"(subquery, INSERT ... SELECT, CTE), but _execute reads it from the root's args only: "
                              f"`insert into r select random(42)` twice gives two different values (the seed is ignored)")


def rule_bootstrap(ctx):
    """C10.c / C18.b: CREATE DATABASE bootstraps what connect bootstraps."""
    from .. import sqlt
    from ..connectmodel import Point, run_point_states

    prog = ctx.prog
    want = set()
    for path, st in run_point_states(prog, Point(True, None, True, True, False, False, False)):
        want = set(st.bootstrap)
        break
    ctx.floor("bootstrap objects created by connect", len(want), 5)
    for kind in ("CREATE DATABASE", "CREATE DATABASE IF NOT EXISTS"):
        for tr in traces(prog, kind):
            if tr.path.outcome != "return":
                continue
            got = set()
            for sqlv in tr.engine_sql:
                if not isinstance(sqlv, (Str, Const)):
                    continue
                try:
                    for s in sqlt.split_statements(sqlt.tokenize(sqlv)):
                        c = sqlt.classify(s)
                        if c["kind"] == "create" and c["name"] and c["name"][0].holes():
                            got.add(f"{c['what']}:{'.'.join(t.text.lower() for t in c['name'][1:])}")
                except Exception:  # noqa: BLE001
                    pass
            missing = want - got
            ctx.ob("C10.c", f"{kind}: the new database gets the same bootstrap objects as a database attached by connect", not missing,
                   "fakesnow/cursor.py", f"missing {sorted(missing)}")
            if missing:
                ctx.violation("C10.c", "cursor", "FakeSnowflakeCursor._execute", f"{kind}: bootstrap without {sorted(missing)}", "fakesnow/cursor.py",
                              f"a database made by {kind} lacks {sorted(missing)} that connect() creates for its databases: e.g. "
                              f"`create database db2; use schema db2.s; select equal_null(1,1)` fails (function does not exist)")


def rule_macros(ctx):
    """C10.e: EQUAL_NULL's macro body evaluated three-valued over the complete abstract domain {NULL, x, y}^2."""
    import re

    from .. import sqleval, sqlt

    prog = ctx.prog
    m = prog.mod("macros")
    n = 0
    for k, txt, stmt_ in m.sql_templates():
        mt = re.search(r"create\s+(?:or\s+replace\s+)?macro\s+(?:if\s+not\s+exists\s+)?\$\{\w+\}\.(\w+)\s*\(([^)]*)\)\s+as\s+(.*?);", txt, re.I | re.S)
        if not mt or mt.group(1).lower() != "equal_null":
            continue
        params = [p.strip().lower() for p in mt.group(2).split(",")]
        body = sqlt.tokenize(mt.group(3))
        bad = []
        try:
            for a in (None, "x", "y"):
                for b in (None, "x", "y"):
                    want = (a is None and b is None) or (a is not None and b is not None and a == b)
                    got = sqleval.evaluate(body, dict(zip(params, (a, b))))
                    n += 1
                    if got is not want:
                        bad.append(f"equal_null({a or 'NULL'}, {b or 'NULL'}) = {'NULL' if got is None else got}, expected {want}")
        except sqleval.Unsupported as e:
            ctx.ob("C10.e", "EQUAL_NULL macro body readable", None, m.loc(stmt_), str(e))
            continue
        ctx.ob("C10.e", "EQUAL_NULL(a, b) is TRUE iff both NULL or equal, FALSE otherwise, never NULL (9 argument classes)", not bad,
               m.loc(stmt_), "; ".join(bad[:3]))
        if bad:
            ctx.violation("C10.e", "macros", k, "EQUAL_NULL truth table", m.loc(stmt_),
                          f"the EQUAL_NULL macro body `{mt.group(3).strip()[:80]}` is not NULL-safe equality: {'; '.join(bad[:3])}")
    ctx.floor("EQUAL_NULL argument classes evaluated", n, 9)


from .c10_wiring import rule_wiring  # noqa: E402

def rule_closure(ctx):
    """C10.f / C11.e: products of a stage are fixpoints of every earlier stage (see wiring.run_closure)."""
    from . import c10_wiring, c11_wiring
    from .wiring import run_closure

    n = run_closure(ctx, "C10.f", c10_wiring.cases() + c11_wiring.cases(), CLOSURE_EXCEPTIONS)
    ctx.floor("C10.f (product, earlier stage) pairs interpreted", n, 10)


CLOSURE_EXCEPTIONS: dict = {
    # (later stage, earlier stage): why the later stage's product must NOT get the earlier stage's rewrite
    ("regex_substr", "indices_to_json_extract"): "the [1] it builds indexes the list regexp_extract_all returns, it is not a JSON subscript "
                                                 "(the code's own comment: indices_to_json_extract must be before regex_substr)",
    ("flatten", "semi_structured_types"): "UNNEST needs a real array: CAST(x AS JSON[]) must keep its ARRAY type and not become JSON",
    ("flatten_value_cast_as_varchar", "json_extract_precedence"): "`x ->> '$'` is parenthesised by sqlglot's DuckDB generator in binary operands and binds "
                                                                  "as intended under BETWEEN in the pinned DuckDB (checked: `j ->> '$[0]' BETWEEN 'a' AND 'a'`); no failing context known",
}


# stages for which the self-nested form was confirmed to be meaningful Snowflake that must work (stage -> nested input)
NESTING_MATTERS = {
    "to_decimal": "select to_decimal(1 + to_decimal('2'))",
    "try_to_decimal": "select try_to_decimal(try_to_decimal('12.3', 10, 1), 10, 0)",
    "sha256": "select sha2_hex(sha2_hex('a'))",
    "to_timestamp_ntz": "select to_timestamp_ntz(to_timestamp_ntz('2020-01-01 00:00:00'))",
    "indices_to_json_extract": "select v['a']['b'][1] from t",
    "json_extract_cast_as_varchar": "select parse_json(v:p::varchar):id::int from t",
    "json_extract_cased_as_varchar": "select upper(lower(v:a::varchar)) from t",
    "object_construct": "select object_construct('a', object_construct('b', null))",
}


def rule_self_nesting(ctx):
    """C10.h: a rewritten construct nested in its own operand is rewritten too (see wiring.run_self_nesting)."""
    from . import c10_wiring
    from .wiring import run_self_nesting

    run_self_nesting(ctx, "C10.h", c10_wiring.cases(), NESTING_MATTERS)


def rule_utc_session(ctx):
    """C10.g = C01.b: the epoch / timestamp rewrites (TO_TIMESTAMP(<seconds>) -> a TIMESTAMP cast, TO_TIMESTAMP_NTZ, TO_DATE of
    those) give Snowflake's values only in a UTC session: every normal path of connect sets the engine time zone to UTC."""
    from .c01 import rule_utc

    before = len(ctx.obligations)
    rule_utc(ctx)
    for o in ctx.obligations[before:]:
        o["rule"] = "C10.g"
    for f in ctx.findings:
        if f.rule == "C01.b":
            f.rule = "C10.g"


def rule_number_precision_kept(ctx):
    """C10.i: TO_DECIMAL / TO_NUMBER / TRY_TO_DECIMAL(x, p, s) and x::NUMBER(p, s) become casts to DECIMAL(p, s); the type keeps its
    parameters through every later stage — also for s = 0 (TRY_TO_DECIMAL('12345', 3, 0) is NULL, not 12345)."""
    from .c01 import _final_type

    prog = ctx.prog
    loc = prog.mod("cursor").loc(prog.fn("cursor", "FakeSnowflakeCursor._transform"))
    n = 0
    for label, scale in (("NUMBER(10,2)", "2"), ("NUMBER(10,0)", "0")):
        for mem, has_params in _final_type(prog, "DECIMAL", True, scale=scale):
            n += 1
            if mem == "?":
                ctx.ob("C10.i", f"{label}: pipeline result readable", None, loc)
                continue
            ok = mem == "DECIMAL" and has_params
            ctx.ob("C10.i", f"a cast to {label} keeps precision and scale through the pipeline", ok, loc, f"{mem}{'(p,s)' if has_params else ''}")
            if not ok:
                ctx.violation("C10.i", "cursor", "FakeSnowflakeCursor._transform", f"{label} -> {mem}", loc,
                              f"the target type of TO_DECIMAL(x, {label[7:-1]}) / x::{label} leaves the pipeline as {mem}{'' if has_params else ' without parameters'}: "
                              f"the precision limit is gone (TRY_TO_DECIMAL('12345', 3, 0) returns 12345 instead of NULL, TO_DECIMAL accepts values "
                              f"Snowflake rejects)")
    ctx.floor("C10.i parameterised NUMBER types", n, 2)


RULES = [
    ("C10.i", rule_number_precision_kept, ("quick", "thorough")),
    ("C10.h", rule_self_nesting, ("quick", "thorough")),
    ("C10.g", rule_utc_session, ("quick", "thorough")),
    ("C10.f", rule_closure, ("quick", "thorough")),
    ("C10.d", rule_wiring, ("quick", "thorough")),
    ("C10.e", rule_macros, ("quick", "thorough")),
    ("C10.a", rule_order, ("quick", "thorough")),
    ("C10.b", rule_side_channel, ("quick", "thorough")),
    ("C10.c", rule_bootstrap, ("quick", "thorough")),
]
