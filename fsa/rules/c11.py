"""C11 — VARIANT/OBJECT/ARRAY values behave as JSON documents (narrow claim: JSON pipeline wiring)."""

from __future__ import annotations

import ast

from ..model import norm
from ..pipeline import stages, summary
from .c02 import FnFacts
from .c10 import C11_IDS, check_obligations

EXPLANATION = (
    "Narrow claim. JSON semantics (paths, casts, FLATTEN order) are DuckDB's and are not decided. Decided: the wiring "
    "between the JSON rewrite stages — (a) the order obligations among them (TRIM cast before extract-cast, extract-cast "
    "stages before the Paren wrapper, type mapping and value cast before FLATTEN), resolved by stage signatures; (b) "
    "producer/consumer slot agreement: when one stage constructs a node class with a slot of class K and another stage "
    "guards that slot with isinstance(.., K'), K' must admit K, otherwise the consumer never matches the producer's nodes "
    "(extracted strings keep their JSON quotes); (c) replacing stages that copy the matched node's children into their "
    "product leave same-class nodes below unvisited (pre-order transform prunes under a replaced node): the confirmed "
    "instance (nested OBJECT_CONSTRUCT keeps NULL-valued pairs) is a finding, other instances are listed, never raised."
)
RULE_TEXT = (
    "C11.a order obligations O3,O5a,O5b,O6,O7; C11.b slot-class agreement producer vs consumer; C11.c nested-prune triage table; "
    "C11.d operand wiring of the JSON rewrites (stage interpreted on symbolic operands, product matched structurally); "
    "C11.e = C10.f closure on the JSON rewrites."
    " C11.f = C10.h on the JSON rewrites."
)
TRUSTED = ["CPython ast", "sqlglot transform pruning semantics (read from expressions.py)", "order obligations table with reasons"]


def rule_order(ctx):
    check_obligations(ctx, "C11.a", C11_IDS)


def rule_slot_agreement(ctx):
    prog = ctx.prog
    sg = prog.sqlglot
    m = prog.mod("transforms")
    st = stages(prog)
    producers = []  # (stage, class, slot, slot class, site)
    for s in st:
        if s.fn is None:
            continue
        for n in ast.walk(s.fn):
            if isinstance(n, ast.Call):
                d = prog.dotted(m, n.func) or ""
                if d.startswith("sqlglot.exp.") and d.count(".") == 2:
                    cls = d.rsplit(".", 1)[-1]
                    for k in n.keywords:
                        if k.arg and isinstance(k.value, ast.Call):
                            d2 = prog.dotted(m, k.value.func) or ""
                            if d2.startswith("sqlglot.exp.") and d2.count(".") == 2 and d2.rsplit(".", 1)[-1][:1].isupper():
                                producers.append((s, cls, k.arg, d2.rsplit(".", 1)[-1], n))
    consumers = []  # (stage, holder class, slot, required class, site)
    seen_fn = set()
    for s in st:
        if s.fn is None or s.name in seen_fn:
            continue
        seen_fn.add(s.name)
        facts = FnFacts("transforms", s.fn)
        for n in ast.walk(s.fn):
            if isinstance(n, ast.Call) and isinstance(n.func, ast.Name) and n.func.id == "isinstance" and len(n.args) == 2:
                subj, clsn = n.args
                req = FnFacts.expcls(clsn)
                req = [r for r in req if r != "<pystr>"]
                if not req:
                    continue
                # subject is `<v>.<slot>` or a name bound to it
                exprs = [subj]
                if isinstance(subj, ast.Name):
                    exprs = facts.defs.get(subj.id, [])
                for e in exprs:
                    # only secondary slots (the path / the target): the primary operand `this` legitimately varies
                    if isinstance(e, ast.Attribute) and e.attr in ("expression", "to", "path"):
                        holders = {h for h in facts.nodecls(e.value) if not h.startswith("?@") and h != "<pystr>"}
                        for h in holders:
                            consumers.append((s, h, e.attr, req, n))
    ctx.inventory["slot producers"] = len(producers)
    ctx.inventory["slot consumers"] = len(consumers)
    ctx.floor("constructed nodes with node-valued slots", len(producers), 20)
    n = 0
    for cs, hcls, slot, req, csite in consumers:
        for ps, pcls, pslot, kcls, psite in producers:
            if pcls != hcls or pslot != slot or ps.name == cs.name:
                continue
            if kcls not in sg.classes:
                continue
            n += 1
            ok = any(sg.issub(kcls, r) for r in req)
            ctx.ob("C11.b", f"{ps.name} builds {pcls}({slot}={kcls}); {cs.name} requires {slot} to be {'/'.join(req)}", ok, m.loc(psite))
            if not ok:
                ctx.violation("C11.b", "transforms", ps.name, f"{pcls}({slot}={kcls}(...)) vs {cs.name} requiring {'/'.join(req)}", m.loc(psite),
                              f"`{ps.name}` constructs {pcls} with {slot}={kcls}(...), but `{cs.name}` only matches {pcls} nodes whose "
                              f"{slot} is a {'/'.join(req)}: its rewrite (strip the JSON quotes when the value is cast/cased to text) never "
                              f"applies to nodes produced here — `parse_json('{{\"a\":\"x\"}}')['a']::varchar` returns '\"x\"'")
    ctx.floor("producer/consumer slot pairs", n, 1)


def rule_nested_prune(ctx):
    prog = ctx.prog
    m = prog.mod("transforms")
    confirmed = {"Struct"}  # OBJECT_CONSTRUCT inside OBJECT_CONSTRUCT (F22)
    n = 0
    for s in stages(prog):
        if s.fn is None or not s.fn.args.args:
            continue
        param = s.fn.args.args[0].arg
        sm = summary(prog, s.fn)
        for r in ast.walk(s.fn):
            if not (isinstance(r, ast.Return) and isinstance(r.value, ast.Call)):
                continue
            d = prog.dotted(m, r.value.func) or ""
            if not (d.startswith("sqlglot.exp.") or "SHA256" in norm(r.value.func)):
                continue
            # product embeds the matched node (or a copy of it) => its subtree is pruned from the walk
            names = {x.id for x in ast.walk(r.value) if isinstance(x, ast.Name)}
            copies = {t.id for a in ast.walk(s.fn) if isinstance(a, ast.Assign) and param in norm(a.value) and ".copy()" in norm(a.value)
                      for t in a.targets if isinstance(t, ast.Name)}
            if not (param in names or names & copies):
                continue
            for c in sm.match:
                n += 1
                if c in confirmed:
                    ctx.ob("C11.c", f"{s.name}: replaces {c} and embeds the matched node: nested {c} below it is not visited", False, m.loc(r))
                    ctx.violation("C11.c", "transforms", s.name, f"replaces {c} and embeds the matched node", m.loc(r),
                                  f"`{s.name}` replaces a {c} node by a product that embeds the node itself; sqlglot's transform does not "
                                  f"descend below a replaced node, so a {c} nested inside is never rewritten: "
                                  f"OBJECT_CONSTRUCT('a', OBJECT_CONSTRUCT('b', NULL)) keeps \"b\": null")
                else:
                    ctx.ob("C11.c", f"{s.name}: replaces {c} and embeds the matched node (nested {c} not visited) — untriaged", None, m.loc(r))
    ctx.floor("replacing stages that embed the matched node", n, 2)


from .c11_wiring import rule_cast_extract, rule_wiring  # noqa: E402

def rule_closure(ctx):
    """C11.e = C10.f on the semi-structured rewrites: what a JSON stage builds is not something an earlier stage would still
    rewrite (e.g. the extraction built for v['k'] must still get its parentheses and its ->> under a text cast)."""
    from . import c11_wiring
    from .c10 import CLOSURE_EXCEPTIONS
    from .wiring import run_closure

    n = run_closure(ctx, "C11.e", c11_wiring.cases(), CLOSURE_EXCEPTIONS)
    ctx.floor("C11.e (product, earlier stage) pairs interpreted", n, 4)


def rule_self_nesting(ctx):
    """C11.f = C10.h on the semi-structured rewrites: "path access at any depth" — v['a']['b'], a cast of an extraction inside
    another extraction, OBJECT_CONSTRUCT inside OBJECT_CONSTRUCT."""
    from . import c11_wiring
    from .c10 import NESTING_MATTERS
    from .wiring import run_self_nesting

    run_self_nesting(ctx, "C11.f", c11_wiring.cases(), NESTING_MATTERS)


def rule_array_size_domain(ctx):
    """C11.g: ARRAY_SIZE over the abstract document kinds {empty array, array of n > 0, object}: Snowflake gives 0, n, NULL.
    The stage's product is evaluated with DuckDB's facts json_array_length = 0 / n / 0 and json_type = ARRAY / ARRAY / OBJECT
    (a CASE without ELSE yields NULL; an integer is true iff non-zero)."""
    from ..execmodel import ExecHooks, node
    from ..interp import explore
    from ..values import Const,  Lst, NodeV
    from .wiring import S

    prog = ctx.prog
    if not prog.has_fn("transforms", "array_size"):
        return
    fn = prog.fn("transforms", "array_size")
    loc = prog.mod("transforms").loc(fn)
    holder = []

    def run(I):
        x = S("x")
        holder.append(x)
        return I.call(I.global_lookup("transforms", "array_size"), [node("ArraySize", "stmt", this=x)], {}, None)

    paths = explore(prog, lambda: ExecHooks(None), run, max_paths=8)
    if not paths or paths[0].outcome != "return":
        return
    prod, x = paths[0].value, holder[0]
    KINDS = {"an empty array": (0, "ARRAY", 0), "an array of n elements": ("n", "ARRAY", "n"), "an object": (0, "OBJECT", None)}
    UNKNOWN = object()

    def ev(v, jal, jtype):
        if isinstance(v, NodeV):
            a = v.args
            if v.cls == "Anonymous" and isinstance(a.get("this"), Const):
                f = str(a["this"].v).lower()
                args = a.get("expressions").items if isinstance(a.get("expressions"), Lst) else []
                on_x = len(args) == 1 and (args[0] is x or getattr(args[0], "copy_of", None) is x)
                if on_x and f == "json_array_length":
                    return jal
                if on_x and f == "json_type":
                    return jtype
                return UNKNOWN
            if v.cls == "Literal":
                t = a.get("this")
                return (t.v if not (isinstance(a.get("is_string"), Const) and a["is_string"].v is False) else int(t.v)) if isinstance(t, Const) else UNKNOWN
            if v.cls == "Paren":
                return ev(a.get("this"), jal, jtype)
            if v.cls in ("EQ", "NEQ", "GT", "GTE"):
                l, r = ev(a.get("this"), jal, jtype), ev(a.get("expression"), jal, jtype)
                if UNKNOWN in (l, r) or "n" in (l, r) and v.cls in ("EQ", "NEQ") and not (l == r):
                    if "n" in (l, r) and v.cls in ("GT", "GTE") and 0 in (l, r):
                        return (l == "n") if v.cls == "GT" else True if l == "n" else False
                    if UNKNOWN in (l, r):
                        return UNKNOWN
                if v.cls == "EQ":
                    return l == r
                if v.cls == "NEQ":
                    return l != r
                if v.cls in ("GT", "GTE") and isinstance(l, int) and isinstance(r, int):
                    return l > r if v.cls == "GT" else l >= r
                return UNKNOWN
            if v.cls == "Case":
                for br in (a.get("ifs").items if isinstance(a.get("ifs"), Lst) else []):
                    c = ev(br.args.get("this"), jal, jtype)
                    if c is UNKNOWN:
                        return UNKNOWN
                    if c is True or c == "n" or (isinstance(c, int) and not isinstance(c, bool) and c != 0):
                        return ev(br.args.get("true"), jal, jtype)
                d = a.get("default")
                return ev(d, jal, jtype) if isinstance(d, NodeV) else None
        return UNKNOWN

    n = 0
    for kind, (jal, jtype, want) in KINDS.items():
        got = ev(prod, jal, jtype)
        n += 1
        if got is UNKNOWN:
            ctx.ob("C11.g", f"ARRAY_SIZE of {kind}", None, loc, "product not evaluable with the listed facts")
            continue
        ok = got == want
        ctx.ob("C11.g", f"ARRAY_SIZE of {kind} is {want if want is not None else 'NULL'}", ok, loc, "" if ok else f"gives {got if got is not None else 'NULL'}")
        if not ok:
            ctx.violation("C11.g", "transforms", "array_size", f"ARRAY_SIZE of {kind} gives {got if got is not None else 'NULL'}", loc,
                          f"the ARRAY_SIZE rewrite gives {got if got is not None else 'NULL'} for {kind}; Snowflake gives {want if want is not None else 'NULL'} "
                          f"(the CASE that maps DuckDB's 0-for-non-arrays to NULL also swallows the 0 of an empty array)")
    ctx.floor("C11.g document kinds evaluated", n, 3)


RULES = [
    ("C11.g", rule_array_size_domain, ("quick", "thorough")),
    ("C11.f", rule_self_nesting, ("quick", "thorough")),
    ("C11.e", rule_closure, ("quick", "thorough")),
    ("C11.d", rule_wiring, ("quick", "thorough")),
    ("C11.d2", rule_cast_extract, ("quick", "thorough")),
    ("C11.a", rule_order, ("quick", "thorough")),
    ("C11.b", rule_slot_agreement, ("quick", "thorough")),
    ("C11.c", rule_nested_prune, ("quick", "thorough")),
]
