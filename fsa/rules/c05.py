"""C05 — fetch calls hand out every result row once, in order, at full width."""

from __future__ import annotations

import ast

from ..execmodel import ENGINE_MODES, ExecHooks, R, make_session, sget, sset, sowner, sowners
from ..interp import explore
from ..model import norm
from ..values import Const, Obj, Seq, Str, Sym, Tup, Lst, tagof
from .common import site_loc, traces

EXPLANATION = (
    "Abstract interpretation of the fetch methods over an abstract cursor state (result table present/absent, fetch "
    "index unset/set, size argument absent/present, tuple/dict cursor): the slice handed out starts at the running "
    "index, its length is the value by which the index advances, the default length is the arraysize attribute the "
    "public setter writes; fetchone/fetchall reach the table only through the slicing method; every fetch method "
    "tests for 'no result set' before dereferencing the table; tuple rows are not derived from name-keyed row "
    "mappings (equal column names would collapse); _execute resets table/index/rowcount before anything can fail. "
    "Decides the slicing protocol, not pyarrow's value conversion."
)
RULE_TEXT = (
    "C05.a reset dominates every exit of _execute; C05.b provenance of tuple rows contains no values()/items() of a "
    "to_pylist() row dict; C05.c offset==index(0 if unset), length==advance; C05.d no-result-set error raised before "
    "any dereference; C05.e default size == attribute written by the arraysize setter; C05.f fetch_pandas_all converts "
    "the whole result table whatever the fetch index."
    " C05.f also: with an open result set (empty or not) no fetch method raises."
)
TRUSTED = ["CPython ast", "pyarrow Table/RecordBatch.to_pylist() yields name-keyed dicts; Table.slice(offset,length) is positional"]

CUR = ("cursor", "FakeSnowflakeCursor")


def _session(table, index, dict_result=False):
    duck, conn, cur = make_session()
    sset(cur, "table", table)
    sset(cur, "index", index)
    cur.attrs[R().dict_flag] = Const(dict_result)
    sset(cur, "arraysize", Sym("ARRAYSIZE", typ="int", truthy=True))
    return duck, conn, cur


def _run(prog, method, args, table, index, dict_result=False):
    sessions = []

    def run(I):
        duck, conn, cur = _session(table() if callable(table) else table, index, dict_result)
        sessions.append(cur)
        return I.call(I.getattr(cur, method), list(args), {}, None)

    paths = explore(prog, lambda: ExecHooks(None), run, max_paths=64)
    return list(zip(paths, sessions))


def _table():
    return Obj("TABLE", kind="arrow", num_rows=Sym("NUM_ROWS", typ="int", notnone=True))


def _slice_calls(path):
    return [e for e in path.effects if e[0] == "call" and e[1].endswith(".slice")]


def rule_reset(ctx):
    prog = ctx.prog
    n = 0
    for kind in ("SELECT", "INSERT", "USE DATABASE", "CREATE TABLE"):
        for mode in ENGINE_MODES:
            for tr in traces(prog, kind, mode):
                n += 1
                if tr.path.outcome == "raise":
                    bad = [R()[k] for k in ("table", "index", "rowcount")
                           if not (isinstance(sget(tr.cur, k), Const) and sget(tr.cur, k).v is None)]
                    ok = not bad
                    ctx.ob("C05.a", f"{kind} failing with {mode}: old result set discarded", ok, "fakesnow/cursor.py", str(bad))
                    if not ok:
                        ctx.violation("C05.a", "cursor", "FakeSnowflakeCursor._execute", f"reset of {bad[0]}", "fakesnow/cursor.py",
                                      f"when {kind} fails ({mode}) the cursor still holds the previous statement's `{bad[0]}`: "
                                      f"a later fetch would hand out rows of the old result set")
                else:
                    idx = sget(tr.cur, "index")
                    tab = sget(tr.cur, "table")
                    ok = isinstance(idx, Const) and idx.v is None and isinstance(tab, Obj) and tab.kind == "arrow" and tab.name != "old_table"
                    ctx.ob("C05.a", f"{kind}: new result set, fetch index unset", ok, "fakesnow/cursor.py", f"{tagof(idx)} {tagof(tab)}")
                    if not ok:
                        ctx.violation("C05.a", "cursor", "FakeSnowflakeCursor._execute", "fetch index / table after execute",
                                      "fakesnow/cursor.py",
                                      f"after {kind} the fetch index is `{tagof(idx)}` and the table `{tagof(tab)}`: a new execute must "
                                      f"replace the old result set completely")
    ctx.floor("C05.a traces", n, 20)


def _prov_nodes(v, seen=None):
    """All provenance nodes reachable from a value."""
    seen = seen if seen is not None else set()
    if id(v) in seen:
        return
    seen.add(id(v))
    yield v
    if isinstance(v, Seq):
        yield from _prov_nodes(v.elem, seen)
        if v.src:
            for x in v.src:
                yield from _prov_nodes(x, seen)
    elif isinstance(v, (Tup, Lst)):
        for x in v.items:
            yield from _prov_nodes(x, seen)
    elif isinstance(v, Str):
        for x in v.parts:  # the values a text was assembled from (f-string, join, +)
            if not isinstance(x, str):
                yield from _prov_nodes(x, seen)
    elif isinstance(v, Sym) and v.origin:
        for x in v.origin[1:]:
            if isinstance(x, (list, tuple)):
                for y in x:
                    yield from _prov_nodes(y, seen)
            elif isinstance(x, dict):
                for y in x.values():
                    yield from _prov_nodes(y, seen)
            else:
                yield from _prov_nodes(x, seen)


def _name_keyed_use(v):
    """A values()/items()/keys()/[name] access on a name-keyed mapping derived from a Table/RecordBatch:
    an element of to_pylist(), or the result of to_pydict()."""
    for x in _prov_nodes(v):
        if not (isinstance(x, Sym) and x.origin):
            continue
        recv = None
        if x.origin[0] == "method" and x.origin[2] in ("values", "items", "keys", "get"):
            recv = x.origin[1]
        elif x.origin[0] == "index":
            recv = x.origin[1]
        if recv is None:
            continue
        for y in _prov_nodes(recv):
            if isinstance(y, Sym) and y.origin and y.origin[0] == "method" and y.origin[2] in ("to_pylist", "to_pydict"):
                chain = tagof(y.origin[1])
                if "column" not in chain:
                    if y.origin[2] == "to_pydict" and y is not recv and x.origin[0] == "index":
                        continue
                    return x
    return None


def rule_positional(ctx):
    prog = ctx.prog
    ctx.analysed("cursor.FakeSnowflakeCursor.fetchmany", "cursor.FakeResultBatch.create_iter")
    n = 0
    for (p, cur) in _run(prog, "fetchmany", [Sym("SIZE", typ="int", truthy=True)], _table, Const(None)):
        if p.outcome != "return":
            continue
        n += 1
        bad = _name_keyed_use(p.value)
        fn = prog.fn("cursor", "FakeSnowflakeCursor.fetchmany")
        ctx.ob("C05.b", "fetchmany (tuple cursor): rows are built positionally", bad is None, prog.mod("cursor").loc(fn))
        if bad is not None:
            ctx.violation("C05.b", "cursor", "FakeSnowflakeCursor.fetchmany", "tuple(d.values()) over to_pylist() rows",
                          prog.mod("cursor").loc(fn),
                          "tuple rows are derived from the name-keyed dicts of to_pylist(): when two result columns have the same "
                          "name the dict keeps one of them and the tuple loses a column (`select 1 as a, 2 as a` -> [(2,)])")
    # result batches
    if prog.has_fn("cursor", "FakeResultBatch.create_iter"):
        def run(I):
            b = Obj("batch", cls=("cursor", "FakeResultBatch"), _use_dict_result=Const(False),
                    _batch=Obj("BATCH", kind="arrow", num_rows=Sym("N", typ="int")))
            return I.call(I.getattr(b, "create_iter"), [], {}, None)
        for p in explore(prog, lambda: ExecHooks(None), run, max_paths=16):
            if p.outcome != "return":
                continue
            n += 1
            bad = _name_keyed_use(p.value)
            fn = prog.fn("cursor", "FakeResultBatch.create_iter")
            ctx.ob("C05.b", "FakeResultBatch.create_iter (tuple cursor): rows are built positionally", bad is None, prog.mod("cursor").loc(fn))
            if bad is not None:
                ctx.violation("C05.b", "cursor", "FakeResultBatch.create_iter", "tuple(d.values()) over to_pylist() rows",
                              prog.mod("cursor").loc(fn),
                              "batch rows are derived from name-keyed dicts: repeated column names collapse")
    ctx.floor("C05.b paths", n, 1)


def lin(v):
    """Linear form (const, {tag: coeff}) of an abstract integer value, or None."""
    if isinstance(v, Const):
        if v.v is None:
            return (0, {})
        return (v.v, {}) if isinstance(v.v, int) and not isinstance(v.v, bool) else None
    if isinstance(v, Sym):
        o = v.origin
        if o and o[0] == "binop" and o[1] in ("Add", "Sub"):
            a, b = lin(o[2]), lin(o[3])
            if a is None or b is None:
                return None
            sign = 1 if o[1] == "Add" else -1
            d = dict(a[1])
            for k, c in b[1].items():
                d[k] = d.get(k, 0) + sign * c
            return (a[0] + sign * b[0], {k: c for k, c in d.items() if c})
        if o and o[0] == "boolop" and o[1] == "or" and len(o[2]) == 2 and isinstance(o[2][1], Const) and o[2][1].v == 0:
            return lin(o[2][0])  # `x or 0` == x for integers
        return (0, {v.tag: 1})
    return None


def lin_eq(a, b) -> bool:
    la, lb = lin(a), lin(b)
    return la is not None and lb is not None and la == lb


def lin_sum(a, b):
    la, lb = lin(a), lin(b)
    if la is None or lb is None:
        return None
    d = dict(la[1])
    for k, c in lb[1].items():
        d[k] = d.get(k, 0) + c
    return (la[0] + lb[0], {k: c for k, c in d.items() if c})


def rule_slice(ctx):
    prog = ctx.prog
    fn = prog.fn("cursor", "FakeSnowflakeCursor.fetchmany")
    loc = prog.mod("cursor").loc(fn)
    ctx.analysed("cursor.FakeSnowflakeCursor.fetchone", "cursor.FakeSnowflakeCursor.fetchall", "cursor.FakeSnowflakeCursor.arraysize")
    n = 0
    IDX = Sym("INDEX", typ="int", notnone=True)
    for idx_name, idx in (("unset", Const(None)), ("set", IDX)):
        for size_name, size in (("absent", Const(None)), ("given", Sym("SIZE", typ="int", truthy=True)), ("given as 0", Const(0))):
            for dict_result in (False, True):
                for p, cur in _run(prog, "fetchmany", [size], _table, idx, dict_result):
                    if p.outcome != "return":
                        ctx.ob("C05.c", f"fetchmany(index {idx_name}, size {size_name}) returns", False, loc, repr(p.value))
                        ctx.violation("C05.c", "cursor", "FakeSnowflakeCursor.fetchmany", f"raises with index {idx_name}, size {size_name}",
                                      loc, f"fetchmany raises {p.value!r} although a result set is open")
                        continue
                    n += 1
                    sl = _slice_calls(p)
                    probs = []
                    if len(sl) != 1:
                        probs.append(f"{len(sl)} slice calls")
                    else:
                        kw = dict(sl[0][3])
                        pos = list(sl[0][2])
                        off = kw.get("offset", pos[0] if pos else None)
                        ln = kw.get("length", pos[1] if len(pos) > 1 else None)
                        new_idx = sget(cur, "index")
                        idx_falsy = any(t == "truthy(INDEX)" and v is False for t, v in p.assumed)
                        # all comparisons are on linear forms, so `start = idx or 0; idx = start + n` is the same as `idx += n`
                        cur_idx = Const(0) if (idx_name == "unset" or idx_falsy) else IDX
                        if not lin_eq(off, cur_idx):
                            probs.append(f"offset `{tagof(off)}` is not {'0 when no row has been fetched' if cur_idx is not IDX else 'the running index'}")
                        want_len = size if size_name.startswith("given") else sget(cur, "arraysize")
                        if not lin_eq(ln, want_len):
                            probs.append(f"length `{tagof(ln)}` is not {'the size argument' if size_name.startswith('given') else 'arraysize'}")
                        got_new = lin(new_idx)
                        if got_new is not None and idx_falsy:  # on this path the index is known to be 0
                            got_new = (got_new[0], {k: c for k, c in got_new[1].items() if k != "INDEX"})
                        if got_new is None or got_new != lin_sum(cur_idx, ln):
                            probs.append(f"index becomes `{tagof(new_idx)}`, not index + slice length")
                    ctx.ob("C05.c", f"fetchmany(index {idx_name}, size {size_name}, dict={dict_result}): slice at index, advance by length",
                           not probs, loc, "; ".join(probs))
                    for pr in probs:
                        ctx.violation("C05.c", "cursor", "FakeSnowflakeCursor.fetchmany", pr.split("`")[0] + pr.split("`")[-1], loc,
                                      f"fetchmany with fetch index {idx_name} and size {size_name}: {pr} — rows would be skipped or handed out twice")
    ctx.floor("C05.c paths", n, 8)
    # C05.e arraysize wiring: the setter writes the attribute fetchmany defaults to
    m = prog.mod("cursor")
    setter = m.functions.get("FakeSnowflakeCursor.arraysize.setter")
    getter = m.functions.get("FakeSnowflakeCursor.arraysize")
    def run_set(I):
        duck, conn, cur = _session(_table(), Const(None))
        sset(cur, "arraysize", Const(1))
        if setter is None:
            return Const(None)
        from ..values import Func
        I.call(Func("cursor", "FakeSnowflakeCursor.arraysize.setter", setter, self_val=cur), [Sym("NEWSIZE", typ="int", truthy=True)], {}, None)
        r = I.call(I.getattr(cur, "fetchmany"), [], {}, None)
        return I.getattr(cur, "arraysize")
    for p in explore(prog, lambda: ExecHooks(None), run_set, max_paths=16):
        sl = _slice_calls(p)
        ln = dict(sl[0][3]).get("length", (list(sl[0][2]) + [None, None])[1]) if sl else None
        ok = setter is not None and isinstance(ln, Sym) and ln.tag == "NEWSIZE" and isinstance(p.value, Sym) and p.value.tag == "NEWSIZE"
        ctx.ob("C05.e", "arraysize setter -> default slice length of fetchmany() and getter", ok, loc, tagof(ln))
        if not ok:
            ctx.violation("C05.e", "cursor", "FakeSnowflakeCursor.arraysize", "arraysize wiring", loc,
                          f"after `cursor.arraysize = n` fetchmany() slices `{tagof(ln)}` rows / the getter returns `{tagof(p.value)}`, not n")
    # the configured arraysize is the caller's: no fetch method writes it (an explicit size is for that call only)
    for meth, args in (("fetchmany", [Sym("SIZE", typ="int", truthy=True)]), ("fetchone", []), ("fetchall", [])):
        for p, cur in _run(prog, meth, args, _table, IDX):
            if p.outcome != "return":
                continue
            wrote = [e for e in p.effects if e[0] == "store" and e[1] is sowner(cur, "arraysize") and e[2] == R().arraysize]
            ctx.ob("C05.e", f"{meth} leaves the configured arraysize alone", not wrote, loc)
            if wrote:
                ctx.violation("C05.e", "cursor", f"FakeSnowflakeCursor.{meth}", "fetch method stores arraysize", loc,
                              f"{meth} overwrites the cursor's arraysize with `{tagof(wrote[0][3])}`: a later fetchmany() without a size returns that many "
                              f"rows instead of the configured batch size")
    # fetchone / fetchall go through the slicing method
    for meth, want in (("fetchone", 1), ("fetchall", "NUM_ROWS")):
        for p, cur in _run(prog, meth, [], _table, IDX):
            if p.outcome != "return":
                continue
            sl = _slice_calls(p)
            ln = dict(sl[0][3]).get("length", (list(sl[0][2]) + [None, None])[1]) if sl else None
            off = dict(sl[0][3]).get("offset", (list(sl[0][2]) + [None])[0]) if sl else None
            idx_falsy = any(t == "truthy(INDEX)" and v is False for t, v in p.assumed)
            ok_len = (isinstance(ln, Const) and ln.v == want) or (isinstance(ln, Sym) and ln.tag == want) or (
                # `size or arraysize`: an empty table falls back to arraysize rows of nothing
                isinstance(ln, Sym) and ln.origin and ln.origin[0] == "boolop" and ln.origin[1] == "or"
                and tagof(ln.origin[2][0]) == str(want))
            ok_off = lin_eq(off, IDX) or (idx_falsy and isinstance(off, Const) and off.v == 0)
            ok = len(sl) == 1 and ok_len and ok_off
            ctx.ob("C05.c", f"{meth}: one slice of length {want} at the running index", ok, loc, f"{tagof(off)} {tagof(ln)}")
            if not ok:
                ctx.violation("C05.c", "cursor", f"FakeSnowflakeCursor.{meth}", f"{meth} slice", loc,
                              f"{meth} takes `{len(sl)}` slice(s) offset `{tagof(off)}` length `{tagof(ln)}`; expected one slice of "
                              f"length {want} at the running index")


def rule_no_result_set(ctx):
    prog = ctx.prog
    n = 0
    want = {"fetchone": "builtins.TypeError", "fetchmany": "builtins.TypeError", "fetchall": "builtins.TypeError",
            "fetch_pandas_all": "snowflake.connector.NotSupportedError"}
    for meth, cls in want.items():
        if not prog.has_fn("cursor", f"FakeSnowflakeCursor.{meth}"):
            continue
        fn = prog.fn("cursor", f"FakeSnowflakeCursor.{meth}")
        for p, cur in _run(prog, meth, [], Const(None), Const(None)):
            n += 1
            exc = p.value if p.outcome == "raise" else None
            ok = exc is not None and exc.cls.split(".")[-1] == cls.split(".")[-1] and any(
                "No open result set" in str(getattr(a, "v", "")) for a in exc.args)
            ctx.ob("C05.d", f"{meth} before any execute raises {cls.split('.')[-1]}('No open result set')", ok,
                   prog.mod("cursor").loc(fn), repr(exc))
            if not ok:
                what = "returns normally" if exc is None else f"raises {exc.cls}"
                ctx.violation("C05.d", "cursor", f"FakeSnowflakeCursor.{meth}", f"{meth} without result set {what}",
                              prog.mod("cursor").loc(fn),
                              f"{meth}() with no open result set {what}; the connector's behaviour is {cls.split('.')[-1]}('No open result set')")
    ctx.floor("C05.d paths", n, 4)


def rule_pandas_all(ctx):
    """C05.f: fetch_pandas_all hands out the whole result table (it agrees with rowcount whatever was fetched before)."""
    prog = ctx.prog
    if not prog.has_fn("cursor", "FakeSnowflakeCursor.fetch_pandas_all"):
        return
    fn = prog.fn("cursor", "FakeSnowflakeCursor.fetch_pandas_all")
    loc = prog.mod("cursor").loc(fn)
    n = 0
    for idx in (Const(None), Sym("INDEX", typ="int", notnone=True)):
        for p, cur in _run(prog, "fetch_pandas_all", [], _table, idx):
            if p.outcome != "return":
                continue
            n += 1
            v = p.value
            ok = isinstance(v, Sym) and v.origin and v.origin[0] == "method" and v.origin[2] == "to_pandas" and \
                isinstance(v.origin[1], Obj) and v.origin[1].name == "TABLE"
            ctx.ob("C05.f", f"fetch_pandas_all (fetch index {'set' if isinstance(idx, Sym) else 'unset'}) converts the whole result table", ok, loc, tagof(v)[:80])
            if not ok:
                ctx.violation("C05.f", "cursor", "FakeSnowflakeCursor.fetch_pandas_all", "fetch_pandas_all does not convert the whole table", loc,
                              f"fetch_pandas_all returns `{tagof(v)[:80]}`, not the whole result table: after some rows were fetched row-wise the "
                              f"DataFrame no longer agrees with rowcount and the rows of the result")
            # the hand-over to pandas must accept every value the row-wise fetches hand out: conversion options that make pyarrow
            # *refuse* or *alter* values (facts about pyarrow.Table.to_pandas, part of the trusted base) break the agreement
            kw = v.origin[4] if ok and len(v.origin) > 4 and isinstance(v.origin[4], dict) else {}
            risky = {"coerce_temporal_nanoseconds": (True, "timestamps outside 1677-09-21 … 2262-04-11 make the checked cast raise ArrowInvalid for the whole result"),
                     "safe": (False, "out-of-range values are truncated silently instead of being reported")}
            for k_, (bad_v, why_) in risky.items():
                got_ = kw.get(k_)
                hit = isinstance(got_, Const) and got_.v is bad_v
                ctx.ob("C05.f", f"fetch_pandas_all converts without `{k_}={bad_v}`", not hit, loc)
                if hit:
                    ctx.violation("C05.f", "cursor", "FakeSnowflakeCursor.fetch_pandas_all", f"to_pandas({k_}={bad_v})", loc,
                                  f"fetch_pandas_all converts the result with `{k_}={bad_v}`: {why_}, while fetchone / fetchmany / fetchall and rowcount "
                                  f"still deliver those rows — the DataFrame no longer agrees with them")
    ctx.floor("C05.f paths", n, 2)
    # an open result set — with or without rows — is never answered with "no open result set"
    nn = 0
    for method, args in (("fetchone", []), ("fetchmany", [Sym("SIZE", typ="int", truthy=True)]), ("fetchall", []), ("fetch_pandas_all", [])):
        if not prog.has_fn("cursor", f"FakeSnowflakeCursor.{method}"):
            continue
        for p, cur in _run(prog, method, args, _table, Const(None)):
            nn += 1
            ok = p.outcome == "return"
            empty = [t for t, v in p.assumed if t.startswith("nonempty(TABLE") and v is False]
            ctx.ob("C05.f", f"{method} with an open result set returns ({'empty' if empty else 'any'} table)", ok, loc)
            if not ok:
                ctx.violation("C05.f", "cursor", f"FakeSnowflakeCursor.{method}", f"{method} raises with an open result set", loc,
                              f"{method} raises {p.value.cls} although a result set is open"
                              f"{' (decided by the table being empty: a zero-row result is still a result set)' if empty else ''}")
    ctx.floor("C05.f open-result-set paths", nn, 4)
    # get_result_batches: the batches of the result table, None without a result set
    if prog.has_fn("cursor", "FakeSnowflakeCursor.get_result_batches"):
        for label, tab in (("an open result set", _table), ("no result set", Const(None))):
            for p, cur in _run(prog, "get_result_batches", [], tab, Const(None)):
                v = p.value if p.outcome == "return" else None
                if label == "no result set":
                    ok = isinstance(v, Const) and v.v is None
                else:
                    ok = v is not None and not (isinstance(v, Const) and v.v is None) and "to_batches" in tagof(v) + "".join(
                        str(e[1]) for e in p.effects if e[0] == "call")
                ctx.ob("C05.f", f"get_result_batches with {label}", ok, loc, tagof(v)[:60] if v is not None else p.outcome)
                if not ok:
                    ctx.violation("C05.f", "cursor", "FakeSnowflakeCursor.get_result_batches", f"get_result_batches with {label}", loc,
                                  f"get_result_batches with {label} {'raises ' + p.value.cls if p.outcome == 'raise' else 'returns `' + tagof(v)[:60] + '`'}: "
                                  f"expected {'None' if label == 'no result set' else 'the batches of the result table'}")
                break


def rule_fresh_cursor(ctx):
    """C05.g: a cursor nobody has used yet is in the connector's initial state: `arraysize` 1 (the DB-API default fetchmany()
    relies on), `rowcount` and `sqlstate` None — read through the public properties of a cursor built by the real constructor."""
    from ..values import ClsRef

    prog = ctx.prog
    loc = "fakesnow/cursor.py"
    want = {"arraysize": 1, "rowcount": None, "sqlstate": None}
    n = 0

    def run(I):
        duck, conn, _cur = make_session()
        cur = I.construct(ClsRef(f"fakesnow.{CUR[0]}.{CUR[1]}"), [conn, duck, Const(False)], {}, None)
        out = {}
        for a in want:
            try:
                out[a] = I.getattr(cur, a)
            except Exception as e:  # noqa: BLE001  (an AttributeError raised inside the analysed property)
                out[a] = e
        return Tup([out[a] if not isinstance(out[a], Exception) else Sym(f"raises {type(out[a]).__name__}") for a in want])

    for p in explore(prog, lambda: ExecHooks(None), run, max_paths=8):
        if p.outcome != "return":
            ctx.ob("C05.g", "a fresh cursor can be constructed and its properties read", False, loc, repr(p.value))
            ctx.violation("C05.g", "cursor", "FakeSnowflakeCursor.__init__", "fresh cursor state unreadable", loc,
                          f"constructing a cursor and reading arraysize / rowcount / sqlstate raises {getattr(p.value, 'cls', p.value)}")
            continue
        for a, v in zip(want, p.value.items):
            n += 1
            ok = isinstance(v, Const) and v.v == want[a] and type(v.v) is type(want[a])
            ctx.ob("C05.g", f"fresh cursor: {a} == {want[a]!r}", ok, loc, tagof(v))
            if not ok:
                ctx.violation("C05.g", "cursor", "FakeSnowflakeCursor.__init__", f"fresh cursor {a}", loc,
                              f"a cursor that has not executed anything reports {a} = `{tagof(v)}` (expected {want[a]!r}): "
                              + ("fetchmany() without a size returns that many rows per call instead of one" if a == "arraysize"
                                 else "the attribute is unset or stale before the first execute"))
        break
    ctx.floor("C05.g fresh cursor properties", n, 3)


def rule_whole_slice(ctx):
    """C05.h: the rows a fetch returns are converted from the whole slice it advanced over. An arrow table is a list of chunks
    (DuckDB starts a new one every so many rows); `to_batches()` / `.chunks` of a slice that spans a boundary has several
    elements, so picking one of them by a constant index drops the rest while the fetch index moves past them."""
    prog = ctx.prog
    n = 0
    fn = prog.fn("cursor", "FakeSnowflakeCursor.fetchmany")
    loc = prog.mod("cursor").loc(fn)
    for dict_result in (False, True):
        for (p, cur) in _run(prog, "fetchmany", [Sym("SIZE", typ="int", truthy=True)], _table, Const(None), dict_result=dict_result):
            if p.outcome != "return":
                continue
            n += 1
            one = None
            for x in _prov_nodes(p.value):
                if not (isinstance(x, Sym) and x.origin):
                    continue
                recv = None
                if x.origin[0] == "index" and isinstance(x.origin[2], Const) and isinstance(x.origin[2].v, int):
                    recv = x.origin[1]
                elif x.origin[0] == "method" and x.origin[2] in ("chunk",):
                    one = x
                    break
                if recv is not None and any(isinstance(y, Sym) and y.origin and y.origin[0] == "method" and y.origin[2] == "combine_chunks"
                                            for y in _prov_nodes(recv)):
                    continue  # after combine_chunks() the table is one chunk: its only batch is the whole slice
                if recv is not None and any(isinstance(y, Sym) and y.origin and ((y.origin[0] == "method" and y.origin[2] in ("to_batches", "iterchunks", "to_reader"))
                                                                                 or (y.origin[0] == "attr" and y.origin[-1] == "chunks")
                                                                                 or tagof(y).endswith(".chunks")) for y in _prov_nodes(recv)):
                    one = x
                    break
            kind = "dict" if dict_result else "tuple"
            ctx.ob("C05.h", f"fetchmany ({kind} cursor): rows come from the whole slice, not from one chunk of it", one is None, loc,
                   "" if one is None else tagof(one)[:80])
            if one is not None:
                ctx.violation("C05.h", "cursor", "FakeSnowflakeCursor.fetchmany", f"{kind} rows converted from a single chunk of the slice", loc,
                              f"the returned rows derive from `{tagof(one)[:80]}`: one chunk of the slice. A result larger than one arrow chunk "
                              f"(DuckDB starts a new chunk every 1,000,000 rows) loses the rows of the other chunks although the fetch index "
                              f"advances over them: fetchall() returns fewer rows than the result has")
    ctx.floor("C05.h fetchmany paths", n, 2)


def rule_row_format_by_cursor_class(ctx):
    """C05.i: conn.cursor(cursor_class) hands out dict rows for the connector's DictCursor and tuple rows for the tuple cursor —
    and for a caller's own subclass of the tuple cursor (a dict row is narrower than description when column names repeat)."""
    from ..values import Ext

    prog = ctx.prog
    if not prog.has_fn("conn", "FakeSnowflakeConnection.cursor"):
        return
    fn = prog.fn("conn", "FakeSnowflakeConnection.cursor")
    loc = prog.mod("conn").loc(fn)
    n = 0
    for label, cls, want in (("SnowflakeCursor", Ext("snowflake.connector.cursor.SnowflakeCursor"), False),
                             ("DictCursor", Ext("snowflake.connector.cursor.DictCursor"), True),
                             ("a caller's subclass of SnowflakeCursor", Ext("userpkg.cursors.AuditedTupleCursor"), False),
                             ("(default)", None, False)):
        def run(I, cls=cls):
            duck, conn, cur = make_session()
            return I.call(I.getattr(conn, "cursor"), [cls] if cls is not None else [], {}, None)

        for p in explore(prog, lambda: ExecHooks(None), run, max_paths=8):
            c2 = p.value
            if p.outcome != "return" or not isinstance(c2, Obj):
                continue
            n += 1
            flag = c2.attrs.get(R().dict_flag)
            ok = isinstance(flag, Const) and bool(flag.v) is want
            ctx.ob("C05.i", f"conn.cursor({label}) gives {'dict' if want else 'tuple'} rows", ok, loc, tagof(flag))
            if not ok:
                ctx.violation("C05.i", "conn", "FakeSnowflakeConnection.cursor", f"row format for {label}", loc,
                              f"conn.cursor({label}) creates a cursor whose dict-row flag is `{tagof(flag)}` (expected {want}): "
                              + ("a tuple cursor subclass gets dict rows, which lose a column whenever two result columns share a name and no longer line "
                                 "up with description" if not want else "DictCursor rows must be dicts keyed by the description names"))
            break
    ctx.floor("C05.i cursor classes", n, 4)


def rule_rewind_only_with_new_result(ctx):
    """C05.j: the fetch position goes back to the start only together with the result it indexes: a method that stores None / 0
    into the fetch index also replaces (or drops) the result table on that path — rewinding alone hands every row out again."""
    prog = ctx.prog
    m = prog.mod("cursor")
    idx, tab = R().index, R().table
    n = 0
    for q, f in m.functions.items():
        if not q.startswith(CUR[1] + ".") or q.endswith(".setter"):
            continue
        resets, tabs = [], []
        for a in ast.walk(f):
            tgts = a.targets if isinstance(a, ast.Assign) else [a.target] if isinstance(a, (ast.AnnAssign, ast.AugAssign)) else []
            for t in tgts:
                if isinstance(t, ast.Attribute) and t.attr == idx and isinstance(a, (ast.Assign, ast.AnnAssign)) and isinstance(a.value, ast.Constant) \
                        and a.value.value in (None, 0):
                    resets.append(a)
                if isinstance(t, ast.Attribute) and t.attr == tab:
                    tabs.append(a)
            if isinstance(a, ast.Call) and isinstance(a.func, ast.Name) and a.func.id == "setattr" and len(a.args) == 3 and isinstance(a.args[1], ast.Constant):
                if a.args[1].value == idx and isinstance(a.args[2], ast.Constant) and a.args[2].value in (None, 0):
                    resets.append(a)
                if a.args[1].value == tab:
                    tabs.append(a)
        if not resets:
            continue
        n += 1
        ok = bool(tabs)
        ctx.ob("C05.j", f"{q}: resets the fetch index only together with the result table", ok, m.loc(resets[0]))
        if not ok:
            ctx.violation("C05.j", "cursor", q, f"fetch index rewound without replacing the result ({norm(resets[0])[:50]})", m.loc(resets[0]),
                          f"`{q}` sets the fetch position back to the start but leaves the result table attached: the next fetch hands out rows "
                          f"that were already fetched (every row is to be returned exactly once)")
    ctx.inventory["C05.j methods that reset the fetch index"] = n  # may be 0 (state replaced wholesale by a fresh holder object); positive control in the self-validation


RULES = [
    ("C05.j", rule_rewind_only_with_new_result, ("quick", "thorough")),
    ("C05.i", rule_row_format_by_cursor_class, ("quick", "thorough")),
    ("C05.h", rule_whole_slice, ("quick", "thorough")),
    ("C05.g", rule_fresh_cursor, ("quick", "thorough")),
    ("C05.f", rule_pandas_all, ("quick", "thorough")),
    ("C05.a", rule_reset, ("quick", "thorough")),
    ("C05.b", rule_positional, ("quick", "thorough")),
    ("C05.c", rule_slice, ("quick", "thorough")),
    ("C05.d", rule_no_result_set, ("quick", "thorough")),
]
