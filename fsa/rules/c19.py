"""C19 — concurrency (narrow claim: race preconditions in fakesnow's own code)."""

from __future__ import annotations

import ast
import re

from .. import sqlt
from ..connectmodel import ConnectHooks, Point
from ..interp import explore
from ..model import norm
from ..values import ClsRef, Const, NodeV, Obj, Str, Sym, tagof
from .c03 import rule_handle
from .c13 import rule_shared_handle
from .common import all_kinds, traces

EXPLANATION = (
    "Narrow claim. Interleavings of engine calls, lost updates and hangs depend on schedules and on DuckDB internals; "
    "static analysis cannot enumerate them and they are not decided. Decided: the race *preconditions* visible in "
    "fakesnow's own code — (a) every engine call that creates a shared catalog object after an existence check "
    "(check-then-create in connect) runs while a lock shared by the instance's connections is held, with the check "
    "inside the same critical section; (b) handle topology: one engine cursor per connection, shared by its fake cursors "
    "(C03.a, C13.b); (c) shared-state inventory: the only module-level mutable objects are the server's session table "
    "and shared instance, and module-level AST constants (the success no-op) are never mutated in place."
)
RULE_TEXT = (
    "C19.a effect trace of FakeSnow.connect at the auto-create start point: exists-check and ATTACH / CREATE SCHEMA lie "
    "between with-enter and with-exit of a lock stored on the instance (or module); C19.b=C03.a+C13.b; C19.c "
    "module-level mutable inventory == {server.sessions, server.shared_fs}; no in-place store through a module-level "
    "AST constant on any statement-kind trace. C19.a is evaluated for every instance configuration x catalog state in "
    "which connect creates something shared."
    " C19.d CREATE statements issued on fakesnow's own initiative outside the connect lock are IF NOT EXISTS / OR REPLACE."
    " C19.c also: no module-level instance of a stateful class (parser, tokenizer, generator, engine connection)."
)
TRUSTED = ["CPython ast", "threading.Lock/RLock used in a with statement is mutual exclusion", "DuckDB cursors are safe to use from different threads"]


class InstHooks(ConnectHooks):
    def external(self, I, d, args, kwargs, site):
        if d == "duckdb.connect":
            return Obj("instance_duck", kind="duck")
        if d in ("threading.Lock", "threading.RLock"):
            return Obj(f"lock@{I.siteid(site)}", kind="lock")
        return NotImplemented

    def engine(self, I, obj, method, args, kwargs, site):
        if method == "cursor":
            I.effect("engine", method, args, kwargs, site)
            self.ncursors = getattr(self, "ncursors", 0) + 1
            return Obj(f"conn_duck#{self.ncursors}", kind="duck", parent=obj)
        return super().engine(I, obj, method, args, kwargs, site)

    def apply(self, I, stmt, sql, site):
        c = sqlt.classify(stmt)
        # instance-level bootstrap (_fs_global) is not part of the connect typestate
        if c["kind"] == "attach" and c.get("name") is not None and not c["name"].holes():
            return
        if c["kind"] == "create" and c.get("name") and not any(t.holes() for t in c["name"]):
            return
        kind = c["kind"]
        before = (self.st.db, self.st.schema)
        super().apply(I, stmt, sql, site)
        if kind == "attach" or (kind == "create" and c.get("what") == "SCHEMA"):
            I.effect("creates-shared", kind if kind == "attach" else "create schema", site)
        if kind == "select":
            I.effect("exists-check", site)


def rule_check_then_create(ctx):
    prog = ctx.prog
    ctx.analysed("instance.FakeSnow.__init__", "instance.FakeSnow.connect", "conn.FakeSnowflakeConnection.__init__")
    n = 0
    # every instance configuration x catalog state in which connect creates something shared
    configs = [(True, True, False, False), (True, True, True, False), (False, True, True, False), (True, False, False, False)]
    for cd, cs, db0, schema0 in configs:
        n += _check_then_create_at(ctx, Point(True, "user", cd, cs, False, db0, schema0))
    ctx.floor("check-then-create sites on the auto-create paths", n, 5)


def _check_then_create_at(ctx, pt) -> int:
    prog = ctx.prog
    hooks = []
    where = f"FakeSnow(create_database_on_connect={pt.create_database}, create_schema_on_connect={pt.create_schema}), database {'exists' if pt.db0 else 'absent'}"

    def fac():
        h = InstHooks(pt)
        hooks.append(h)
        return h

    def run(I):
        fs = I.construct(ClsRef("fakesnow.instance.FakeSnow"), [], {"create_database_on_connect": Const(pt.create_database),
                                                                   "create_schema_on_connect": Const(pt.create_schema)}, None)
        I.effect("instance-ready", fs)
        return I.call(I.getattr(fs, "connect"), [Sym("database", truthy=True, typ="str"), Sym("schema", truthy=True, typ="str")], {}, None)

    n = 0
    for p in explore(prog, fac, run, max_paths=64):
        if p.outcome != "return":
            continue
        fs = next((e[1] for e in p.effects if e[0] == "instance-ready"), None)
        shared_locks = {id(v) for v in (fs.attrs.values() if isinstance(fs, Obj) else []) if isinstance(v, Obj) and v.kind == "lock"}
        held: list = []
        last_check_inside = {}
        for e in p.effects:
            if e[0] == "with":
                held.append(e[1])
            elif e[0] == "with-exit":
                if held:
                    held.pop()
            elif e[0] == "exists-check":
                last_check_inside["locked"] = any(isinstance(h, Obj) and (id(h) in shared_locks or getattr(h, "shared", False)) for h in held)
                # what connect decides from the catalog it decides under the lock: outside it, another connect may be half-way through
                # creating the very database (ATTACH done, bootstrap pending), and "exists" then means "exists, incomplete"
                n += 1
                okc = last_check_inside["locked"]
                site = e[2] if len(e) > 2 else None
                ctx.ob("C19.a", f"{where}: existence check made under the instance's lock", okc, f"fakesnow:{getattr(site, 'lineno', 0)}")
                if not okc:
                    ctx.violation("C19.a", "instance", "FakeSnow.connect", "existence check outside the connect lock",
                                  f"fakesnow:{getattr(site, 'lineno', 0)}",
                                  f"with {where}: connect asks the catalog whether the database / schema exists without holding the lock that "
                                  f"serialises connects: a concurrent first connect has attached the database but not finished bootstrapping it, so "
                                  f"the second session proceeds on a half-initialised database")
            elif e[0] == "creates-shared":
                n += 1
                locked = any(isinstance(h, Obj) and h.kind == "lock" and id(h) in shared_locks for h in held)
                ok = locked and last_check_inside.get("locked", False)
                site = e[2]
                ctx.ob("C19.a", f"{where}: {e[1]} after its existence check runs under the instance's lock", ok,
                       f"fakesnow/conn.py:{getattr(site, 'lineno', 0)}")
                if not ok:
                    ctx.violation("C19.a", "conn", "FakeSnowflakeConnection.__init__", site, f"fakesnow/conn.py:{getattr(site, 'lineno', 0)}",
                                  f"with {where}: `{e[1]}` is issued after an existence check without holding a lock shared by the instance's connections "
                                  f"(check and create in one critical section): two threads connecting to the same new database both pass the "
                                  f"check and the second {e[1].upper()} fails")
    return n


def _import_time_only(prog, mm, qual) -> bool:
    """is the module-level function `qual` of module mm used only at import time: called / applied as a decorator at the top level
    of modules, and never from inside a function body (nor handed around as a value)?"""
    if "." in qual:
        return False
    top_uses = inner_uses = 0
    for m2 in prog.modules.values():
        names = {a for a, t in m2.imports.items() if prog.resolve(t) == (mm.name, qual)}
        if m2 is mm:
            names.add(qual)
        if not names:
            continue
        inside = set()
        for f in m2.functions.values():
            for n in ast.walk(f):
                if isinstance(n, ast.Name) and n.id in names and n is not f:
                    inside.add(id(n))
            for d in getattr(f, "decorator_list", []):
                for n in ast.walk(d):
                    inside.discard(id(n))  # a decorator expression is evaluated where the def statement stands
        for n in ast.walk(m2.tree):
            if isinstance(n, ast.Name) and n.id in names and isinstance(n.ctx, ast.Load):
                if id(n) in inside:
                    inner_uses += 1
                else:
                    top_uses += 1
    return top_uses > 0 and inner_uses == 0


def rule_shared_state(ctx):
    prog = ctx.prog
    from .c17 import session_table

    allowed = {session_table(prog), prog.locate("server", "shared_fs") or ("server", "shared_fs")}
    found = []

    def names(e, mm, mname, k):
        """does expression e denote the module-level object (mname, k)?"""
        if isinstance(e, ast.Name):
            return (mm.name == mname and e.id == k) or prog.resolve(mm.imports.get(e.id, "")) == (mname, k)
        return isinstance(e, ast.Attribute) and e.attr == k and prog.resolve(prog.dotted(mm, e) or "") == (mname, k)

    for mname, m in prog.modules.items():
        for k, v in m.consts.items():
            mutable = isinstance(v, (ast.Dict, ast.List, ast.Set, ast.ListComp, ast.DictComp)) or (
                isinstance(v, ast.Call) and norm(v.func).split(".")[-1] in ("dict", "list", "set", "defaultdict", "deque", "FakeSnow", "Lock", "RLock"))
            if not mutable:
                continue
            # type aliases / constant tables that are never written are fine: look for writes anywhere in the package
            written = False
            for mm in prog.modules.values():
                for q, fn in mm.functions.items():
                    if _import_time_only(prog, mm, q):
                        continue  # a registry filled while the module is imported (`stage(fn)`, `@post(path)`): not run-time state
                    for n in ast.walk(fn):
                        if isinstance(n, (ast.Assign, ast.AugAssign)):
                            tg = n.targets if isinstance(n, ast.Assign) else [n.target]
                            if any(isinstance(t, ast.Subscript) and names(t.value, mm, mname, k) for t in tg):
                                written = True
                            if isinstance(n, ast.AugAssign) and names(n.target, mm, mname, k):
                                written = True
                        if isinstance(n, ast.Call) and isinstance(n.func, ast.Attribute) and names(n.func.value, mm, mname, k) \
                                and n.func.attr in ("append", "add", "update", "pop", "setdefault", "clear", "extend", "connect"):
                            written = True
            if written or (isinstance(v, ast.Call) and norm(v.func).endswith("FakeSnow")):
                found.append((mname, k))
    # module-level instances of classes that keep per-call state on the instance (sqlglot's Parser / Tokenizer / Generator keep
    # their token list, position and messages in attributes; a DuckDB connection keeps its result set): one such object shared
    # by every session and thread is torn by concurrent use
    STATEFUL = ("parser", "tokenizer", "generator", "connect", "cursor")
    for mname, m in prog.modules.items():
        for k, v in m.consts.items():
            if isinstance(v, ast.Call):
                callee = norm(v.func).split(".")[-1].lower()
                if callee in STATEFUL or callee.endswith(("parser", "tokenizer", "generator")):
                    used = any(isinstance(n, ast.Name) and n.id == k for mm in prog.modules.values() for f in mm.functions.values() for n in ast.walk(f))
                    if used and (mname, k) not in found:
                        found.append((mname, k))
    extra = [f for f in found if f not in allowed]
    ctx.ob("C19.c", f"module-level mutable state is exactly {sorted(allowed)}", not extra, "fakesnow", str(found))
    for mname, k in extra:
        m = prog.modules[mname]
        ctx.violation("C19.c", mname, "<module>", m.const_stmts[k], m.loc(m.const_stmts[k]),
                      f"module-level mutable object `{mname}.{k}` is written at run time: it is shared by all connections and threads "
                      f"without synchronisation")
    rule_constant_nodes(ctx, "C19.c")


def rule_constant_nodes(ctx, rule_id):
    """module-level AST constants (the success no-op) are never mutated in place on any statement-kind trace"""
    prog = ctx.prog
    n = 0
    for kind in all_kinds():
        for tr in traces(prog, kind):
            for e in tr.path.effects:
                if e[0] == "nodeset" and isinstance(e[1], NodeV):
                    n += 1
                    if getattr(e[1], "shared", False):
                        site = e[4] if len(e) > 4 else None
                        ctx.ob(rule_id, f"{kind}: store through module-level AST constant {e[1].name}", False, "fakesnow/transforms.py")
                        ctx.violation(rule_id, "transforms", "<stage>", site if site is not None else f"{e[1].name}.args[{e[2]}]",
                                      f"fakesnow/transforms.py:{getattr(site, 'lineno', 0)}",
                                      f"while rewriting {kind} the module-level AST constant `{e[1].name}` is modified in place (key `{e[2]}`): "
                                      f"the change leaks into every later statement of every session that executes that constant — the "
                                      f"statements matched by nop_regexes included — (and races between threads); copy it first")
    ctx.ob(rule_id, f"no in-place store through a module-level AST constant on any of {n} node stores", True, "fakesnow/transforms.py")
    ctx.floor(f"{rule_id} node stores inspected", n, 12)


def write_pandas_statements(prog, **kwargs):
    """texts of the statements write_pandas sends through a cursor of the connection (its own DDL), one list per path"""
    from ..execmodel import ExecHooks, make_session

    class H(ExecHooks):
        def __init__(self):
            super().__init__(None)
            self.texts = []

        def intercept(self, I, key, args, kwargs_, site, f=None):
            if key.endswith("FakeSnowflakeCursor.execute"):
                self.texts.append(args[0] if args else None)
                I.effect("own-statement", args[0] if args else None, site)
                if I.decide(f"own statement {len(self.texts)} fails"):
                    from ..interp import _Raise
                    from ..values import ExcV
                    raise _Raise(ExcV("snowflake.connector.errors.ProgrammingError", {"errno": Const(2003)}, []))
                return f.self_val if f is not None else Const(None)
            return NotImplemented

    hooks = []

    def fac():
        h = H()
        hooks.append(h)
        return h

    def run(I):
        duck, conn, cur = make_session()
        return I.call(I.global_lookup("pandas_tools", "write_pandas"), [conn, Obj("df", kind="df"), Sym("TABLE_NAME", typ="str", truthy=True)],
                      dict(kwargs), None)

    out = []
    for p, h in zip(explore(prog, fac, run, max_paths=64), hooks):
        out.append([" ".join((t.text() if isinstance(t, Str) else tagof(t)).split()) if t is not None else "" for t in h.texts])
    return out


def rule_own_creates_idempotent(ctx):
    """C19.d: a CREATE that fakesnow issues on its own initiative outside the connect lock (write_pandas(auto_create_table=True))
    is idempotent — IF NOT EXISTS / OR REPLACE — so two sessions loading the same new table cannot fail on each other's
    check-then-create."""
    import re as _re

    prog = ctx.prog
    if not prog.has_fn("pandas_tools", "write_pandas"):
        return
    m = prog.mod("pandas_tools")
    fn = prog.fn("pandas_tools", "write_pandas")
    n = 0
    seen = set()
    for texts in write_pandas_statements(prog, auto_create_table=Const(True)):
        for txt in texts:
            if not txt.upper().startswith("CREATE") or txt in seen:
                continue
            seen.add(txt)
            n += 1
            ok = bool(_re.match(r"CREATE\s+(OR\s+REPLACE\s+)?(TEMP(ORARY)?\s+|TRANSIENT\s+)?TABLE\s+IF\s+NOT\s+EXISTS|CREATE\s+OR\s+REPLACE", txt, _re.I))
            ctx.ob("C19.d", "write_pandas(auto_create_table=True): the table is created idempotently", ok, m.loc(fn), txt[:70])
            if not ok:
                ctx.violation("C19.d", "pandas_tools", "write_pandas", "auto-create is check-then-create", m.loc(fn),
                              f"write_pandas(auto_create_table=True) issues `{txt[:60]}` — a plain CREATE after (at best) a separate existence "
                              f"check: when two sessions load the same new table, the second CREATE fails and its rows are lost; create it "
                              f"idempotently (IF NOT EXISTS) in one statement")
    ctx.floor("C19.d auto-create statements", n, 1)


def rule_temporary_stays_private(ctx):
    """C19.e: a table created TEMPORARY (fakesnow's own MERGE helper is) reaches the engine TEMPORARY: the rewrite pipeline keeps
    the property, so concurrent sessions that create a table of that name each get their own."""
    from ..values import Lst, NodeV
    from .common import traces

    prog = ctx.prog
    n = 0
    for tr in traces(prog, "CREATE TEMPORARY TABLE AS"):
        if tr.path.outcome != "return":
            continue
        n += 1
        root = tr.transformed
        props = root.args.get("properties") if isinstance(root, NodeV) else None
        exprs = props.args.get("expressions") if isinstance(props, NodeV) else None
        kept = isinstance(exprs, Lst) and any(isinstance(x, NodeV) and x.cls == "TemporaryProperty" for x in exprs.items)
        ctx.ob("C19.e", "CREATE TEMPORARY TABLE is still TEMPORARY after the rewrite pipeline", kept, "fakesnow/cursor.py",
               tagof(exprs) if exprs is not None else "no properties")
        if not kept:
            ctx.violation("C19.e", "cursor", "FakeSnowflakeCursor._transform", "TEMPORARY property lost in the rewrite pipeline", "fakesnow/cursor.py",
                          "a CREATE TEMPORARY TABLE reaches the engine without the TEMPORARY property: the table (fakesnow's own MERGE helper "
                          "`merge_candidates` included) is an ordinary table in the current schema, shared and clobbered by concurrent sessions")
    ctx.floor("C19.e traces", n, 1)


def rule_bookkeeping_upserts(ctx):
    """C19.f = C09.c: every side-table write is one overwriting upsert statement (ON CONFLICT (<primary key>) DO UPDATE) — a
    delete-then-insert pair, or a plain insert, is two steps between which another session reads no row or collides on the key."""
    from .c09 import rule_keys
    rule_keys(ctx)


def rule_bookkeeping_removed_before_drop(ctx):
    """C19.g: rows fakesnow keeps *by name* about an object (comment, declared lengths) are removed before the engine statement
    that drops the object, never after it: once the DROP has committed, the name is free — another session's CREATE … COMMENT can
    land before a trailing clean-up, which would then delete the new object's rows (an outcome no serial order produces)."""
    from .common import text_of, traces

    prog = ctx.prog
    n = 0
    for kind in ("DROP TABLE", "DROP VIEW", "DROP SCHEMA", "DROP DATABASE"):
        for tr in traces(prog, kind):
            if tr.path.outcome != "return" or not tr.engine_sql:
                continue
            n += 1
            texts = [text_of(s_) for s_ in tr.engine_sql]
            user_at = next((i for i, s_ in enumerate(tr.engine_sql) if isinstance(s_, Sym) and s_.origin and s_.origin[0] == "sql"), None)
            late = [t for i, t in enumerate(texts) if user_at is not None and i > user_at
                    and re.search(r"\b(DELETE\s+FROM|TRUNCATE|UPDATE)\b[^;]*_fs_\w+", t, re.I)]
            ctx.ob("C19.g", f"{kind}: no by-name bookkeeping rows are removed after the engine has dropped the object", not late, "fakesnow/cursor.py",
                   " ".join(late[0].split())[:70] if late else "")
            if late:
                ctx.violation("C19.g", "cursor", "FakeSnowflakeCursor._execute", f"{kind}: bookkeeping rows deleted after the drop", "fakesnow/cursor.py",
                              f"after the engine ran the {kind}, a separate statement `{' '.join(late[0].split())[:80]}…` removes the rows recorded under the "
                              f"object's name: a CREATE … COMMENT of the same name by another session between the two loses its comment / lengths, "
                              f"although both statements reported success")
    ctx.floor("C19.g drop traces", n, 4)


def rule_commit_conflict_surfaces(ctx):
    """C19.h = C13.c: when two sessions' transactions conflict the engine rejects the loser's COMMIT — that rejection reaches the
    caller; only the engine's "no transaction is active" is answered with success."""
    from .c13 import rule_no_tx_mapping as rule_commit_failure_reported

    before = len(ctx.obligations)
    nf = len(ctx.findings)
    rule_commit_failure_reported(ctx)
    for o in ctx.obligations[before:]:
        o["rule"] = "C19.h"
    for f in ctx.findings[nf:]:
        f.rule = "C19.h"


RULES = [
    ("C19.h", rule_commit_conflict_surfaces, ("quick", "thorough")),
    ("C19.g", rule_bookkeeping_removed_before_drop, ("quick", "thorough")),
    ("C19.f", rule_bookkeeping_upserts, ("quick", "thorough")),
    ("C19.e", rule_temporary_stays_private, ("quick", "thorough")),
    ("C19.d", rule_own_creates_idempotent, ("quick", "thorough")),
    ("C19.a", rule_check_then_create, ("quick", "thorough")),
    ("C19.b1", rule_handle, ("quick", "thorough")),
    ("C19.b2", rule_shared_handle, ("quick", "thorough")),
    ("C19.c", rule_shared_state, ("quick", "thorough")),
]
