"""C10.d — operand wiring of the function rewrites."""

from __future__ import annotations

from ..execmodel import lit, node, table
from ..values import Const, EnumV, Lst, NodeV, Sym
from .wiring import ABSENT, ENUM, IS, LIST, LITERAL, P, RAISES, S, UNCHANGED, anon, dtype, run_cases


def _dec(ops, cast="Cast", p=None, s=None):
    return P(cast, this=IS(ops["x"]), to=P("DataType", this=ENUM("DECIMAL"),
                                          expressions=LIST(IS(ops[p]) if p in ops else LITERAL("38"), IS(ops[s]) if s in ops else LITERAL("0"))))


def cases():
    out = []

    def add(name, stage, make, expect, why):
        out.append((name, stage, make, expect, why))

    def mk(builder):
        def f():
            ops = {}
            n = builder(ops)
            return n, ops
        return f

    def op(ops, k, v=None):
        ops[k] = v if v is not None else S(k)
        return ops[k]

    # --- TO_DECIMAL / TO_NUMBER / TO_NUMERIC and TRY_ forms
    for fn in ("TO_DECIMAL", "to_numeric"):
        add(f"{fn}(x, p, s) -> CAST(x AS DECIMAL(p, s))", "to_decimal",
            mk(lambda o, fn=fn: anon(fn, op(o, "x"), op(o, "p", lit("10", False)), op(o, "s", lit("2", False)))),
            lambda o, i: _dec(o, "Cast", "p", "s"), "precision is the 2nd argument, scale the 3rd")
        add(f"{fn}(x) -> CAST(x AS DECIMAL(38, 0))", "to_decimal", mk(lambda o, fn=fn: anon(fn, op(o, "x"))),
            lambda o, i: _dec(o), "Snowflake's default precision is 38 and default scale 0")
        add(f"{fn}(x, p) -> CAST(x AS DECIMAL(p, 0))", "to_decimal", mk(lambda o, fn=fn: anon(fn, op(o, "x"), op(o, "p", lit("10", False)))),
            lambda o, i: _dec(o, "Cast", "p"), "default scale is 0")
    add("TO_DECIMAL(x, '<format>') is rejected", "to_decimal", mk(lambda o: anon("TO_DECIMAL", op(o, "x"), lit("TM9", True))),
        RAISES, "a format argument is not supported and must be rejected rather than taken for a precision")
    add("TO_NUMBER(x, p, s) [parsed as ToNumber(format=p, precision=s)] -> DECIMAL(p, s)", "to_decimal",
        mk(lambda o: node("ToNumber", "stmt", this=op(o, "x"), format=op(o, "p", lit("10", False)), precision=op(o, "s", lit("2", False)))),
        lambda o, i: _dec(o, "Cast", "p", "s"), "a non-string 2nd argument is the precision, the 3rd the scale")
    add("TO_NUMBER(x) -> DECIMAL(38, 0)", "to_decimal", mk(lambda o: node("ToNumber", "stmt", this=op(o, "x"))),
        lambda o, i: _dec(o), "default precision 38, scale 0")
    add("TO_NUMBER(x, '<format>') is rejected", "to_decimal", mk(lambda o: node("ToNumber", "stmt", this=op(o, "x"), format=lit("999", True))),
        RAISES, "a format argument must be rejected")
    for fn in ("TRY_TO_DECIMAL", "try_to_number", "TRY_TO_NUMERIC"):
        add(f"{fn}(x, p, s) -> TRY_CAST(x AS DECIMAL(p, s))", "try_to_decimal",
            mk(lambda o, fn=fn: anon(fn, op(o, "x"), op(o, "p", lit("10", False)), op(o, "s", lit("2", False)))),
            lambda o, i: _dec(o, "TryCast", "p", "s"), "the TRY_ forms must yield NULL on failure (TRY_CAST), with precision and scale in order")
        add(f"{fn}(x) -> TRY_CAST(x AS DECIMAL(38, 0))", "try_to_decimal", mk(lambda o, fn=fn: anon(fn, op(o, "x"))),
            lambda o, i: _dec(o, "TryCast"), "defaults 38, 0")
    for fn in ("TRY_TO_DECIMAL", "TRY_TO_NUMBER"):
        add(f"{fn}(x, '<format>', p, s) is rejected, not answered", "try_to_decimal",
            mk(lambda o, fn=fn: anon(fn, op(o, "x"), lit("9,999.99", True), lit("10", False), lit("2", False))),
            RAISES, "the format argument is not supported: silently answering NULL (or ignoring the format) returns a wrong value for a valid input")
    # --- dates and timestamps
    add("TO_DATE(x) -> CAST(x AS DATE)", "to_date", mk(lambda o: anon("to_date", op(o, "x"))),
        lambda o, i: P("Cast", this=IS(o["x"]), to=P("DataType", this=ENUM("DATE"))), "TO_DATE yields a DATE of its argument")
    add("TO_TIMESTAMP(<seconds>) -> CAST(.. AS TIMESTAMP) (no time zone)", "to_timestamp", mk(lambda o: node("UnixToTime", "stmt", this=op(o, "x"))),
        lambda o, i: P("Cast", this=IS(i), to=P("DataType", this=ENUM("TIMESTAMP"))), "TO_TIMESTAMP returns TIMESTAMP_NTZ")
    for sc in ("0", "3", "6", "9"):
        add(f"TO_TIMESTAMP(<n>, {sc}) -> CAST(.. AS TIMESTAMP) (no time zone, at every scale)", "to_timestamp",
            mk(lambda o, sc=sc: node("UnixToTime", "stmt", this=op(o, "x"), scale=op(o, "scale", lit(sc, False)))),
            lambda o, i: P("Cast", this=IS(i), to=P("DataType", this=ENUM("TIMESTAMP"))),
            "TO_TIMESTAMP returns TIMESTAMP_NTZ whatever the scale: DuckDB's TO_TIMESTAMP (scales other than 3 and 6) yields a time-zone-aware value")
    add("TO_TIMESTAMP_NTZ(x) -> STRPTIME(x, '%Y-%m-%d %H:%M:%S')", "to_timestamp_ntz", mk(lambda o: anon("TO_TIMESTAMP_NTZ", op(o, "x"))),
        lambda o, i: P("StrToTime", this=IS(o["x"]), format=LITERAL("%Y-%m-%d %H:%M:%S")), "the argument is the string to parse")
    for unit in ("DAY", "WEEK", "MONTH", "QUARTER", "YEAR"):
        add(f"DATEADD({unit}, n, <date>) is cast back to DATE", "dateadd_date_cast",
            mk(lambda o, unit=unit: node("DateAdd", "stmt", this=node("Cast", this=op(o, "x"), to=dtype("DATE")), expression=op(o, "n"), unit=node("Var", this=Const(unit)))),
            lambda o, i: P("Cast", this=IS(i), to=P("DataType", this=ENUM("DATE"))), "adding whole days/weeks/months/years to a DATE yields a DATE in Snowflake")
    for unit in ("HOUR", "MINUTE", "SECOND", "MILLISECOND", "MICROSECOND", "NANOSECOND"):
        add(f"DATEADD({unit}, n, <date>) stays a timestamp", "dateadd_date_cast",
            mk(lambda o, unit=unit: node("DateAdd", "stmt", this=node("Cast", this=op(o, "x"), to=dtype("DATE")), expression=op(o, "n"), unit=node("Var", this=Const(unit)))),
            UNCHANGED, "sub-day units turn a DATE into a TIMESTAMP (casting back to DATE drops the added time)")
    add("DATEADD(DAY, n, <timestamp>) is not cast to DATE", "dateadd_date_cast",
        mk(lambda o: node("DateAdd", "stmt", this=node("Cast", this=op(o, "x"), to=dtype("TIMESTAMP")), expression=op(o, "n"), unit=node("Var", this=Const("DAY")))),
        UNCHANGED, "only DATE operands yield DATE")
    add("DATEADD(unit, n, '<string>') casts the string to TIMESTAMP and keeps amount and unit", "dateadd_string_literal_timestamp_cast",
        mk(lambda o: node("DateAdd", "stmt", this=op(o, "x", lit("2023-04-02", True)), expression=op(o, "n"), unit=op(o, "u", node("Var", this=Const("DAY"))))),
        lambda o, i: P("DateAdd", this=P("Cast", this=IS(o["x"]), to=P("DataType", this=ENUM("TIMESTAMP"))), expression=IS(o["n"]), unit=IS(o["u"])),
        "string literals are implicitly timestamps; amount and unit must be untouched")
    add("DATEDIFF(unit, '<s1>', '<s2>') casts both strings, keeps their order", "datediff_string_literal_timestamp_cast",
        mk(lambda o: node("DateDiff", "stmt", this=op(o, "a", lit("2023-04-02", True)), expression=op(o, "b", lit("2023-03-02", True)), unit=op(o, "u", node("Var", this=Const("DAY"))))),
        lambda o, i: P("DateDiff", this=P("Cast", this=IS(o["a"]), to=P("DataType", this=ENUM("TIMESTAMP"))),
                       expression=P("Cast", this=IS(o["b"]), to=P("DataType", this=ENUM("TIMESTAMP"))), unit=IS(o["u"])),
        "operand order decides the sign of the difference")
    add("DATEDIFF(unit, col, '<s>') casts only the string", "datediff_string_literal_timestamp_cast",
        mk(lambda o: node("DateDiff", "stmt", this=op(o, "a"), expression=op(o, "b", lit("2023-03-02", True)), unit=op(o, "u", node("Var", this=Const("DAY"))))),
        lambda o, i: P("DateDiff", this=IS(o["a"]), expression=P("Cast", this=IS(o["b"])), unit=IS(o["u"])), "non-literal operands keep their type")
    add("DATEADD(unit, n, <column>) is left alone", "dateadd_string_literal_timestamp_cast",
        mk(lambda o: node("DateAdd", "stmt", this=op(o, "x"), expression=op(o, "n"), unit=node("Var", this=Const("DAY")))),
        UNCHANGED, "only string literals are implicit timestamps")
    add("DATEADD(unit, n, <number>) is left alone", "dateadd_string_literal_timestamp_cast",
        mk(lambda o: node("DateAdd", "stmt", this=lit("5", False), expression=op(o, "n"), unit=node("Var", this=Const("DAY")))),
        UNCHANGED, "a numeric literal is not a timestamp string")
    add("DATEDIFF(unit, <number>, col) casts nothing", "datediff_string_literal_timestamp_cast",
        mk(lambda o: node("DateDiff", "stmt", this=op(o, "a", lit("5", False)), expression=op(o, "b"), unit=op(o, "u", node("Var", this=Const("DAY"))))),
        lambda o, i: P("DateDiff", this=IS(o["a"]), expression=IS(o["b"]), unit=IS(o["u"])), "only string literals are implicit timestamps")
    # --- hashes
    add("SHA2(x) -> SHA256(x)", "sha256", mk(lambda o: node("SHA2", "stmt", this=op(o, "x"))), lambda o, i: P("SHA256", this=IS(o["x"])), "default digest size is 256")
    add("SHA2(x, 256) -> SHA256(x)", "sha256", mk(lambda o: node("SHA2", "stmt", this=op(o, "x"), length=lit("256", False))), lambda o, i: P("SHA256", this=IS(o["x"])), "256-bit digest")
    add("SHA2(x, 512) is not answered with a 256-bit digest", "sha256", mk(lambda o: node("SHA2", "stmt", this=op(o, "x"), length=lit("512", False))), UNCHANGED,
        "other digest sizes must not silently become SHA-256")
    add("SHA2_HEX(x) -> SHA256(x)", "sha256", mk(lambda o: anon("sha2_hex", op(o, "x"))), lambda o, i: P("SHA256", this=IS(o["x"])), "hex digest")
    add("SHA2_HEX(x, 512) is not answered with a 256-bit digest", "sha256", mk(lambda o: anon("sha2_hex", op(o, "x"), lit("512", False))), UNCHANGED, "other sizes must not become SHA-256")
    add("SHA2_BINARY(x) -> UNHEX(SHA256(x))", "sha256", mk(lambda o: anon("SHA2_BINARY", op(o, "x"))), lambda o, i: P("Unhex", this=P("SHA256", this=IS(o["x"]))), "binary digest")
    # --- regexp
    add("REGEXP_REPLACE(s, '<pat>') replaces globally with ''", "regex_replace",
        mk(lambda o: node("RegexpReplace", "stmt", this=op(o, "x"), expression=op(o, "pat", lit("a+", True)))),
        lambda o, i: P("RegexpReplace", this=IS(o["x"]), replacement=LITERAL("", True), modifiers=LITERAL("g", True)),
        "Snowflake replaces every occurrence and the default replacement is the empty string")
    add("REGEXP_REPLACE(s, '<pat>', r) keeps the replacement, global", "regex_replace",
        mk(lambda o: node("RegexpReplace", "stmt", this=op(o, "x"), expression=lit("a+", True), replacement=op(o, "r"))),
        lambda o, i: P("RegexpReplace", this=IS(o["x"]), replacement=IS(o["r"]), modifiers=LITERAL("g", True)), "replacement operand untouched")
    def same_literal_text(v, path):
        t = v.args.get("this") if isinstance(v, NodeV) and v.cls == "Literal" else None
        ok = isinstance(t, Sym) and t.tag == "REPL_TEXT"
        return None if ok else f"{path} has the text `{getattr(t, 'tag', t)}`, expected the replacement constant's own text"

    add("REGEXP_REPLACE(s, '<pat>', '<replacement constant>') keeps the replacement's text as written", "regex_replace",
        mk(lambda o: node("RegexpReplace", "stmt", this=op(o, "x"), expression=lit("a+", True),
                          replacement=op(o, "r", lit(Sym("REPL_TEXT", typ="str", truthy=True), True)))),
        lambda o, i: P("RegexpReplace", replacement=same_literal_text),
        "in a replacement `\\\\` is an escaped literal backslash and `\\1` a back-reference for DuckDB as for Snowflake: halving the backslashes changes both")
    add("REGEXP_REPLACE with position/occurrence is rejected", "regex_replace",
        mk(lambda o: node("RegexpReplace", "stmt", this=op(o, "x"), expression=lit("a+", True), replacement=lit("b", True), position=lit("2", False))),
        RAISES, "unsupported extra parameters must be rejected rather than ignored")

    def substr(o, **kw):
        a = {"this": op(o, "x"), "expression": op(o, "pat", lit("a+", True)), "position": Const(None), "occurrence": Const(None),
             "parameters": Const(None), "group": Const(None)}
        a.update(kw)
        return node("RegexpExtract", "stmt", **a)

    def the_pattern(o):
        """the pattern operand itself, or a literal made from its text (the text may have its doubled backslashes halved)"""
        def chk(v, path):
            if v is o["pat"] or getattr(v, "copy_of", None) is o["pat"]:
                return None
            orig = o["pat"].args.get("this") if isinstance(o["pat"], NodeV) else None
            t = v.args.get("this") if isinstance(v, NodeV) and v.cls == "Literal" else None
            def same_text(a, b):
                if a is b or (isinstance(a, Const) and isinstance(b, Const) and str(a.v).replace("\\\\", "\\") == str(b.v).replace("\\\\", "\\")):
                    return True
                o_ = getattr(a, "origin", None)
                return bool(o_) and o_[0] == "method" and o_[2] == "replace" and same_text(o_[1], b)
            if t is not None and orig is not None and same_text(t, orig):
                return None
            return f"{path} is `{getattr(v, 'tag', v)}`, expected the pattern operand"
        return chk

    def substr_expect(o, position, occurrence, group):
        return P("Bracket", this=P("Anonymous", this="regexp_extract_all", expressions=LIST(
            P("Bracket", this=IS(o["x"]), expressions=LIST(P("Slice", this=position))), the_pattern(o), group, lambda v, path: None)),
            expressions=LIST(LITERAL(occurrence, False)))
    add("REGEXP_SUBSTR(s, p): position 1, 1st occurrence (index 0 before the dialect's +1), whole match", "regex_substr", mk(lambda o: substr(o)),
        lambda o, i: substr_expect(o, LITERAL("1", False), "0", LITERAL("0", False)), "defaults: position 1, occurrence 1, group 0")
    add("REGEXP_SUBSTR(s, p, pos, occ): slice from pos, occurrence occ-1", "regex_substr",
        mk(lambda o: substr(o, position=op(o, "pos", lit("3", False)), occurrence=lit("2", False))),
        lambda o, i: substr_expect(o, IS(o["pos"]), "1", LITERAL("0", False)), "the n-th occurrence is element n-1 before the dialect adds 1")
    add("REGEXP_SUBSTR(s, p, 1, 1, 'e', g): group g", "regex_substr",
        mk(lambda o: substr(o, parameters=lit("e", True), group=op(o, "g", lit("2", False)))),
        lambda o, i: substr_expect(o, LITERAL("1", False), "0", IS(o["g"])), "the group argument selects the capture group")
    for prm in ("i", "c", ""):
        add(f"REGEXP_SUBSTR(s, p, 1, 1, '{prm}', g): an explicit group is extracted whatever the other parameters ('e' is implied)", "regex_substr",
            mk(lambda o, prm=prm: substr(o, parameters=lit(prm, True), group=op(o, "g", lit("2", False)))),
            lambda o, i: substr_expect(o, LITERAL("1", False), "0", IS(o["g"])),
            "Snowflake: if a group number is given, sub-match extraction is allowed even without the 'e' parameter")
    add("REGEXP_SUBSTR(s, p, 1, 1, 'e'): 'e' without a group extracts group 1", "regex_substr",
        mk(lambda o: substr(o, parameters=lit("e", True))),
        lambda o, i: substr_expect(o, LITERAL("1", False), "0", lambda v, path: None), "with 'e' and no group number the first group is extracted")
    def unescaped(v, path):
        """the literal's text is the original with Snowflake's doubled backslashes halved"""
        t = v.args.get("this") if isinstance(v, NodeV) and v.cls == "Literal" else None
        o_ = getattr(t, "origin", None)
        ok = isinstance(t, Sym) and o_ and o_[0] == "method" and o_[2] == "replace" and [getattr(a, "v", None) for a in o_[3]] == ["\\\\", "\\"] \
            and isinstance(o_[1], Sym) and "PAT_TEXT" in o_[1].tag
        return None if ok else f"{path} is `{getattr(t, 'tag', t)}`, expected the pattern text with `\\\\` replaced by `\\`"

    pat_text = lambda: lit(Sym("PAT_TEXT", typ="str", truthy=True), True)  # noqa: E731
    add("REGEXP_SUBSTR(s, '<pat>'): doubled backslashes of the Snowflake string constant are halved", "regex_substr",
        mk(lambda o: substr(o, expression=op(o, "pat", pat_text()))),
        lambda o, i: P("Bracket", this=P("Anonymous", this="regexp_extract_all", expressions=LIST(lambda v, path: None, unescaped, lambda v, path: None, lambda v, path: None))),
        "Snowflake needs `\\\\d` in a single-quoted constant where DuckDB needs `\\d`")
    add("REGEXP_REPLACE(s, '<pat>'): doubled backslashes of the Snowflake string constant are halved", "regex_replace",
        mk(lambda o: node("RegexpReplace", "stmt", this=op(o, "x"), expression=op(o, "pat", pat_text()))),
        lambda o, i: P("RegexpReplace", expression=unescaped), "same escaping caveat as REGEXP_SUBSTR")
    add("ARRAY_AGG(x) OVER (..) -> TO_JSON(ARRAY_AGG(x) OVER (..)) (the window, not the aggregate inside it, is wrapped)", "array_agg",
        mk(lambda o: node("Window", "stmt", this=op(o, "agg", node("ArrayAgg", this=S("x"))), partition_by=Lst([S("p")]))),
        lambda o, i: P("Anonymous", this="TO_JSON", expressions=LIST(IS(i))), "a window aggregate is converted as a whole")
    add("the ARRAY_AGG inside a window is left alone", "array_agg",
        mk(lambda o: (lambda agg: (node("Window", "stmt", this=agg, partition_by=Lst([S("p")])), agg)[1])(node("ArrayAgg", this=S("x")))),
        UNCHANGED, "TO_JSON(ARRAY_AGG(x)) OVER (..) is not a window function call")
    # --- misc
    add("ARRAY_SIZE(a) -> CASE WHEN json_array_length(a) THEN json_array_length(a) END", "array_size", mk(lambda o: node("ArraySize", "stmt", this=op(o, "x"))),
        lambda o, i: P("Case", ifs=LIST(P("If", this=P("Anonymous", this="json_array_length", expressions=LIST(IS(o["x"]))),
                                          true=P("Anonymous", this="json_array_length", expressions=LIST(IS(o["x"])))))), "length of the argument")
    add("SPLIT(s, d) -> to_json(str_split(s, d))", "split", mk(lambda o: node("Split", "stmt", this=op(o, "x"), expression=op(o, "d"))),
        lambda o, i: P("Anonymous", this="to_json", expressions=LIST(IS(i))), "SPLIT yields an ARRAY (JSON)")
    add("ARRAY_AGG(x) -> TO_JSON(ARRAY_AGG(x))", "array_agg", mk(lambda o: node("ArrayAgg", "stmt", this=op(o, "x"))),
        lambda o, i: P("Anonymous", this="TO_JSON", expressions=LIST(IS(i))), "ARRAY_AGG yields an ARRAY (JSON)")
    add("ARRAY_AGG(x) WITHIN GROUP (ORDER BY k) -> ARRAY_AGG(x ORDER BY k)", "array_agg_within_group",
        mk(lambda o: node("WithinGroup", "stmt", this=node("ArrayAgg", this=op(o, "x")), expression=node("Order", expressions=op(o, "keys", Lst([S("k")]))))),
        lambda o, i: P("ArrayAgg", this=P("Order", this=IS(o["x"]), expressions=IS(o["keys"]))), "aggregated value and sort keys keep their roles")
    add("SAMPLE without method -> BERNOULLI", "sample", mk(lambda o: node("TableSample", "stmt", size=op(o, "x"))),
        lambda o, i: P("TableSample", method="BERNOULLI", size=IS(o["x"])), "Snowflake's default sampling method is BERNOULLI (row)")
    add("SAMPLE SYSTEM keeps its method", "sample", mk(lambda o: node("TableSample", "stmt", size=op(o, "x"), method=op(o, "m", node("Var", this=Const("SYSTEM"))))),
        lambda o, i: P("TableSample", method=IS(o["m"])), "an explicit method must be kept")
    add("CREATE TABLE t CLONE s -> CREATE TABLE t AS SELECT * FROM s", "create_clone",
        mk(lambda o: node("Create", "stmt", kind=Const("TABLE"), this=op(o, "t", table("T2")), clone=node("Clone", this=op(o, "s", table("T"))))),
        lambda o, i: P("Create", this=IS(o["t"]), kind="TABLE", expression=P("Select", expressions=LIST(P("Star")), **{"from": P("From", this=IS(o["s"]))})),
        "the clone's target is created from all rows of the source")
    add("RANDOM(seed): seed side channel is seed/2147483647-0.5", "random",
        mk(lambda o: node("Select", "stmt", expressions=Lst([node("Rand", this=op(o, "seed", lit("42", False)))]))),
        lambda o, i: (lambda v, path: None if isinstance(v, NodeV) and "42/2147483647-0.5" in str(getattr(v.args.get("seed"), "v", "")) or
                      (isinstance(v, NodeV) and "2147483647-0.5" in (v.args.get("seed").text() if hasattr(v.args.get("seed"), "text") else str(getattr(v.args.get("seed"), "v", ""))))
                      else f"seed side channel is `{getattr(v.args.get('seed'), 'v', v.args.get('seed')) if isinstance(v, NodeV) else v}`"),
        "the same seed must map to the same setseed() argument in [-0.5, 0.5]")
    add("IDENTIFIER('<name>') -> an unquoted identifier with exactly the literal's text (so db.schema.table still resolves)", "identifier",
        mk(lambda o: anon("identifier", op(o, "x", lit(Sym("NAME_TEXT", typ="str", truthy=True), True)))),
        lambda o, i: P("Identifier", this=(lambda v, path: None if (isinstance(v, Sym) and "NAME_TEXT" in v.tag) else f"{path} is `{getattr(v, 'tag', v)}`, expected the literal's text"),
                       quoted=(lambda v, path: None if (isinstance(v, Const) and v.v is False) else f"{path} is `{getattr(v, 'tag', v)}`, expected quoted=False")),
        "IDENTIFIER() names an object by (possibly qualified) unquoted text; quoting it makes `db.s.t` one identifier")
    add("TRIM(x, chars) keeps the trim characters", "trim_cast_varchar",
        mk(lambda o: node("Trim", "stmt", this=op(o, "x"), expression=op(o, "chars"))),
        lambda o, i: P("Trim", this=P("Cast", this=IS(o["x"])), expression=IS(o["chars"])), "TRIM(x, chars) removes the given characters, not whitespace")
    for ty in ("BIGINT", "DATE", "DECIMAL"):
        add(f"TRIM(CAST(x AS {ty})) still gets its implicit VARCHAR cast", "trim_cast_varchar",
            mk(lambda o, ty=ty: node("Trim", "stmt", this=op(o, "c", node("Cast", this=S("x"), to=dtype(ty))))),
            lambda o, i: P("Trim", this=P("Cast", this=IS(o["c"]), to=P("DataType", this=ENUM("VARCHAR")))),
            "Snowflake's TRIM takes any type and trims its text; DuckDB's takes text only: a cast to a non-text type is not the text cast")
    # --- statement-level rewrites without a dedicated trace rule
    def is_nop(v, path):
        ok = isinstance(v, NodeV) and (getattr(v, "shared", False) or getattr(getattr(v, "copy_of", None), "shared", False)) and "SUCCESS_NOP" in v.name
        return None if ok else f"{path} is `{getattr(v, 'tag', v)}`, expected the success no-op"

    def is_true(v, path):
        return None if isinstance(v, Const) and v.v is True else f"{path} is `{getattr(v, 'tag', v)}`, expected True"

    for kind in ("SCHEMA",):  # (the parser upper-cases Drop.kind: a lower-case kind is not a feasible input)
        add(f"DROP {kind} s -> DROP SCHEMA s CASCADE", "drop_schema_cascade", mk(lambda o, kind=kind: node("Drop", "stmt", kind=Const(kind), this=op(o, "s", table(None, "S")))),
            lambda o, i: P("Drop", this=IS(o["s"]), cascade=is_true), "Snowflake drops a schema with its tables; DuckDB only with CASCADE")
    add("DROP TABLE t is left alone", "drop_schema_cascade", mk(lambda o: node("Drop", "stmt", kind=Const("TABLE"), this=table("T"))), UNCHANGED,
        "only schemas get CASCADE (a table with dependent views must not lose them silently)")
    add("ALTER TABLE t CLUSTER BY (..) -> success no-op", "alter_table_strip_cluster_by",
        mk(lambda o: node("Alter", "stmt", kind=Const("TABLE"), this=table("T"), actions=Lst([node("Cluster", expressions=Lst([S("c")]))]))),
        lambda o, i: is_nop, "clustering keys have no DuckDB counterpart")
    add("ALTER TABLE t ADD COLUMN .., CLUSTER BY (..) keeps the other action", "alter_table_strip_cluster_by",
        mk(lambda o: node("Alter", "stmt", kind=Const("TABLE"), this=table("T"), actions=Lst([node("ColumnDef", this=S("b")), node("Cluster", expressions=Lst([S("c")]))]))),
        UNCHANGED, "a statement that also does something else must not be turned into a no-op")
    add("ALTER TABLE t SET TAG k='v' -> success no-op", "tag",
        mk(lambda o: node("Alter", "stmt", kind=Const("TABLE"), this=table("T"), actions=Lst([node("AlterSet", tag=Lst([S("kv")]))]))),
        lambda o, i: is_nop, "tags are not modelled")
    add("ALTER TABLE t SET <other property> is not a tag statement", "tag",
        mk(lambda o: node("Alter", "stmt", kind=Const("TABLE"), this=table("T"), actions=Lst([node("AlterSet", expressions=Lst([S("p")]))]))),
        UNCHANGED, "only SET TAG is dropped")
    add("CREATE TAG t -> success no-op", "tag", mk(lambda o: node("Create", "stmt", kind=Const("TAG"), this=table("TG"))),
        lambda o, i: is_nop, "tags are not modelled")
    add("ALTER TABLE .. modify column c set tag (Command) -> success no-op", "tag",
        mk(lambda o: node("Command", "stmt", this=Const("ALTER"), expression=Const("table t modify column c set tag k='v'"))),
        lambda o, i: is_nop, "the unparsed form is recognised in any letter case")
    add("SELECT .. FROM (VALUES (a, b)) -> columns COLUMN1, COLUMN2", "values_columns",
        mk(lambda o: (lambda vals: (node("Select", "stmt", expressions=Lst([node("Star")]), **{"from": node("From", this=vals)}), vals)[1])(
            op(o, "vals", node("Values", expressions=Lst([node("Tuple", expressions=Lst([S("a"), S("b")]))]))))),
        lambda o, i: P("Values", alias=P("TableAlias", columns=LIST(P("Identifier", this="COLUMN1", quoted=is_true), P("Identifier", this="COLUMN2", quoted=is_true)))),
        "Snowflake names the columns of an unnamed VALUES COLUMN1..n (1-based, one per element of a row)")
    add("SELECT .. FROM t JOIN (VALUES (a, b)) -> columns COLUMN1, COLUMN2 (a joined source too)", "values_columns",
        mk(lambda o: (lambda vals: (node("Select", "stmt", expressions=Lst([node("Star")]), **{"from": node("From", this=table("T")),
                                                                                            "joins": Lst([node("Join", this=vals)])}), vals)[1])(
            op(o, "vals", node("Values", expressions=Lst([node("Tuple", expressions=Lst([S("a"), S("b")]))]))))),
        lambda o, i: P("Values", alias=P("TableAlias", columns=LIST(P("Identifier", this="COLUMN1", quoted=is_true), P("Identifier", this="COLUMN2", quoted=is_true)))),
        "every unnamed VALUES used as a table source gets Snowflake's column names, wherever it stands in the FROM clause")
    add("INSERT INTO t VALUES (..) is left alone", "values_columns",
        mk(lambda o: (lambda vals: (node("Insert", "stmt", this=table("T"), expression=vals), vals)[1])(
            node("Values", expressions=Lst([node("Tuple", expressions=Lst([S("a")]))])))),
        UNCHANGED, "the rows of an INSERT are not a table source: an alias there is a syntax error in DuckDB")
    add("VALUES with its own alias keeps it", "values_columns",
        mk(lambda o: (lambda vals: (node("Select", "stmt", expressions=Lst([node("Star")]), **{"from": node("From", this=vals)}), vals)[1])(
            node("Values", expressions=Lst([node("Tuple", expressions=Lst([S("a")]))]), alias=node("TableAlias", this=NodeV("Identifier", {"this": Const("V"), "quoted": Const(False)}, open=False))))),
        UNCHANGED, "explicit column names win")
    return out


def rule_wiring(ctx):
    n = run_cases(ctx, "C10.d", cases())
    ctx.floor("C10.d wiring cases evaluated", n, 40)
