"""C03 — names resolve against each connection's own current database and schema."""

from __future__ import annotations

import re

import ast

from .. import sqlt
from ..execmodel import ENGINE_MODES
from ..model import norm
from ..values import Const, NodeV, Str, Sym, tagof
from .common import all_kinds, site_loc, sql_root, text_of, traces

EXPLANATION = (
    "Ownership, ordering and coherence rules over fakesnow's own session bookkeeping: each connection gets a fresh "
    "engine cursor (the engine's schema setting is per cursor); on every effect trace of _transform -> _execute the "
    "connection's database/schema fields are written only after the engine accepted the statement and never on a "
    "path where it raised; for every context-changing statement kind the Python-side context equals the engine-side "
    "search path set by the generated SET schema statement; the 90105/90106 guards fire exactly when a name needs a "
    "missing context and before any engine call; the generated metadata statements are filled with the issuing "
    "connection's own context. Decides fakesnow's bookkeeping, not DuckDB's name resolution."
)
RULE_TEXT = (
    "C03.a construction sites pass a fresh .cursor(); C03.b no context store on a raising trace and every store "
    "after the primary engine call; C03.c invariants database_set=>database==<a>, schema_set=>schema==<b>, "
    "<b>=main=>not schema_set, None=>not set, for USE DATABASE / USE SCHEMA (un)qualified / DROP of the current "
    "schema or database; C03.d guard traces: (90105|90106, 22000) raised before any engine call iff the statement "
    "needs the missing context; C03.e templates carry the connection's own database/schema, at all "
    "three qualification levels of the target (given parts as given, missing ones from the session)."
)
TRUSTED = ["CPython ast", "DuckDB: the schema setting belongs to one cursor", "statement descriptors mirror the pinned parser"]

CTX_ATTRS = ("database", "schema", "database_set", "schema_set")


def rule_handle(ctx):
    """C03.a: every connection made by an instance gets its own fresh cursor of the instance's engine connection
    (abstract heap identity: not the instance connection itself, not a handle shared with another connection)."""
    from ..connectmodel import Point
    from ..execmodel import R
    from ..interp import explore
    from ..values import ClsRef, Obj
    from .c19 import InstHooks

    prog = ctx.prog
    ctx.analysed("instance.FakeSnow.connect", "instance.FakeSnow.__init__")
    n = 0
    for with_db in (True, False):
        pt = Point(with_db, "user" if with_db else None, True, True, False, False, False)

        def run(I, with_db=with_db):
            fs = I.construct(ClsRef("fakesnow.instance.FakeSnow"), [], {}, None)
            args = [Sym("database", truthy=True, typ="str"), Sym("schema", truthy=True, typ="str")] if with_db else []
            c1 = I.call(I.getattr(fs, "connect"), list(args), {}, None)
            c2 = I.call(I.getattr(fs, "connect"), list(args), {}, None)
            return Tup_([fs, c1, c2])

        from ..values import Tup as Tup_
        for p in explore(prog, lambda pt=pt: InstHooks(pt), run, max_paths=64):
            if p.outcome != "return":
                continue
            n += 1
            fs, c1, c2 = p.value.items
            root = next((v for v in fs.attrs.values() if isinstance(v, Obj) and v.kind == "duck"), None) if isinstance(fs, Obj) else None
            h1 = c1.attrs.get(R().conn_duck) if isinstance(c1, Obj) else None
            h2 = c2.attrs.get(R().conn_duck) if isinstance(c2, Obj) else None
            probs = []
            for h in (h1, h2):
                if not isinstance(h, Obj) or h.kind != "duck":
                    probs.append(f"a connection's engine handle is `{tagof(h)}`")
                elif h is root:
                    probs.append("a connection uses the instance's root engine connection itself")
                elif h.attrs.get("parent") is not root:
                    probs.append("a connection's handle is not a cursor of the instance's engine connection")
            if h1 is h2 and isinstance(h1, Obj):
                probs.append("two connections share one engine cursor")
            label = "with a database" if with_db else "without a database"
            ctx.ob("C03.a", f"two connects {label}: each gets its own fresh engine cursor", not probs, "fakesnow/instance.py", "; ".join(probs))
            if probs:
                fnode = prog.fn("instance", "FakeSnow.connect")
                ctx.violation("C03.a", "instance", "FakeSnow.connect", f"engine handle of a connection made {label}", prog.mod("instance").loc(fnode),
                              f"connect() {label}: {probs[0]} — SET schema, transactions and pending results belong to one engine cursor, so "
                              f"sessions would share their current database/schema, transaction and result set")
            break
    ctx.floor("C03.a connect scenarios", n, 2)


def rule_after_accept(ctx):
    """C03.b / C07.c: context stores only after the engine accepted the statement."""
    prog = ctx.prog
    n = 0
    kinds = ["USE DATABASE", "USE SCHEMA", "USE SCHEMA qualified", "DROP SCHEMA", "DROP DATABASE", "SELECT",
             "CREATE DATABASE", "CREATE SCHEMA"]
    for kind in kinds:
        for mode in ENGINE_MODES:
            for tr in traces(prog, kind, mode):
                n += 1
                stores = [(a, v, s) for a, v, s in tr.stores("conn") if a in CTX_ATTRS]
                if mode is None:
                    # every store after the primary engine call
                    first_exec = next((i for i, e in enumerate(tr.path.effects) if e[0] == "engine" and e[1] == "execute"), None)
                    early = [e for i, e in enumerate(tr.path.effects)
                             if e[0] == "store" and getattr(e[1], "name", "") == "conn" and e[2] in CTX_ATTRS
                             and (first_exec is None or i < first_exec)]
                    ok = not early
                    ctx.ob("C03.b", f"{kind}: context stores follow the accepted engine call", ok, "fakesnow/cursor.py")
                    for e in early:
                        ctx.violation("C03.b", "cursor", "FakeSnowflakeCursor._execute", e[4], site_loc(prog, "cursor", e[4]),
                                      f"for {kind} `conn.{e[2]}` is written before the engine has accepted the statement: a "
                                      f"failing statement would still change the session context")
                    continue
                raised = tr.path.outcome == "raise"
                ok = not stores or not raised
                ctx.ob("C03.b", f"{kind} / engine raises {mode}: no context store", ok, "fakesnow/cursor.py")
                if raised and stores:
                    a, v, s = stores[0]
                    ctx.violation("C03.b", "cursor", "FakeSnowflakeCursor._execute", s, site_loc(prog, "cursor", s),
                                  f"for {kind}, when the engine raises {mode.split(':')[0]} the statement fails but "
                                  f"`conn.{a}` has been set to `{tagof(v)}`")
                if not raised and stores and "TransactionException:cannot" not in mode:
                    a, v, s = stores[0]
                    ctx.violation("C03.b", "cursor", "FakeSnowflakeCursor._execute", s, site_loc(prog, "cursor", s),
                                  f"for {kind} the engine error {mode} is swallowed and `conn.{a}` is set to `{tagof(v)}`")
    ctx.floor("C03.b traces", n, 50)


def _search_path(tr):
    """(a, b) of the SET schema = '<a>.<b>' the engine runs for this trace, as abstract values / strings."""
    for sqlv in tr.engine_sql:
        k, root = sql_root(sqlv)
        if k == "node" and root.cls == "Command" and isinstance(root.args.get("this"), Const) and root.args["this"].v == "SET":
            ex = root.args.get("expression")
            v = ex.args.get("this") if isinstance(ex, NodeV) else ex
            toks = sqlt.tokenize(v) if isinstance(v, (Const, Str)) else []
            if toks and toks[0].is_kw("SCHEMA"):
                val = next((t for t in toks if t.kind == "str"), None)
                if val is not None:
                    parts = val.parts
                    # split at the literal '.'
                    a, b, cur = [], [], None
                    cur = a
                    for p in parts:
                        if isinstance(p, str) and "." in p:
                            x, y = p.split(".", 1)
                            if x:
                                cur.append(x)
                            cur = b
                            if y:
                                cur.append(y)
                        else:
                            cur.append(p)
                    return (a[0] if len(a) == 1 else None, b[0] if len(b) == 1 else None, root)
    return None


def _same_name(x, y) -> bool:
    if x is None or y is None:
        return False
    tx = x if isinstance(x, str) else tagof(x)
    ty = y if isinstance(y, str) else tagof(y)
    return tx == ty


def rule_coherence(ctx):
    """C03.c: Python-side context == engine-side search path after each context-changing statement."""
    prog = ctx.prog
    n = 0
    for kind in ("USE DATABASE", "USE SCHEMA", "USE SCHEMA qualified", "USE DATABASE current", "USE SCHEMA current"):
        for tr in traces(prog, kind):
            if tr.path.outcome != "return":
                continue
            sp = _search_path(tr)
            n += 1
            if sp is None:
                ctx.ob("C03.c", f"{kind}: engine search path located", None, "fakesnow/transforms.py")
                continue
            a, b, root = sp
            c = tr.conn.attrs
            db, sch = c.get("database"), c.get("schema")
            dbs, schs = c.get("database_set"), c.get("schema_set")
            dbs = dbs.v if isinstance(dbs, Const) else None
            schs = schs.v if isinstance(schs, Const) else None
            probs = []
            if dbs and not _same_name(db, a):
                probs.append((f"engine search path is `{tagof(a) if a is not None else '?'}.{tagof(b) if b is not None else '?'}` but "
                              f"conn.database stays `{tagof(db)}`", "database"))
            if isinstance(b, str) and b.lower() == "main":
                if schs:
                    probs.append((f"engine search path is `{tagof(a)}.main` (no schema selected) but conn.schema_set stays True with "
                                  f"conn.schema `{tagof(sch)}`", "schema"))
                elif not (isinstance(sch, Const) and sch.v is None):
                    probs.append((f"engine search path is `{tagof(a)}.main` (no schema selected) but conn.schema still reports `{tagof(sch)}`", "schema"))
            elif schs and not _same_name(sch, b):
                probs.append((f"engine search path schema is `{tagof(b)}` but conn.schema is `{tagof(sch)}`", "schema"))
            stored = {x for x, _, _ in tr.stores("conn")}
            if "database" in stored and not (isinstance(db, Const) and db.v is None) and "database_set" not in stored:
                probs.append(("conn.database is stored without database_set", "database_set"))
            if "schema" in stored and not (isinstance(sch, Const) and sch.v is None) and "schema_set" not in stored:
                probs.append(("conn.schema is stored without schema_set", "schema_set"))
            ctx.ob("C03.c", f"{kind}: conn context == engine search path", not probs, "fakesnow/cursor.py", "; ".join(p[0] for p in probs))
            for msg, what in probs:
                ctx.violation("C03.c", "cursor", "FakeSnowflakeCursor._execute", f"{kind}: stale conn.{what}",
                              "fakesnow/cursor.py", f"after {kind}: {msg}")
    for kind, gone in (("DROP SCHEMA", "schema"), ("DROP DATABASE", "database"), ("DROP SCHEMA current", "schema"), ("DROP DATABASE current", "database"),
                       ("DROP TABLE", "table"), ("DROP VIEW", "view"), ("DROP TABLE named like the current schema", "table"),
                       ("DROP VIEW named like the current database", "view"), ("DROP SCHEMA named like the current database", "schema"),
                       ("DROP SCHEMA of the same name in another database", "schema"),
                       ("DROP SCHEMA IF EXISTS current", "schema"), ("DROP SCHEMA IF EXISTS of the same name in another database", "schema")):
        for tr in traces(prog, kind):
            if tr.path.outcome != "return":
                continue
            n += 1
            c = tr.conn.attrs
            cur_dropped = kind.endswith("current")  # (the IF EXISTS spelling included)
            if not cur_dropped:
                ok = not [x for x, _, _ in tr.stores("conn") if x in CTX_ATTRS]
                ctx.ob("C03.c", f"{kind} of another object leaves the context alone", ok, "fakesnow/cursor.py")
                if not ok:
                    ctx.violation("C03.c", "cursor", "FakeSnowflakeCursor._execute", f"{kind}: context changed for another object",
                                  "fakesnow/cursor.py", f"{kind} of an object that is not current changes the session context")
                continue
            probs = []
            for attr in (("schema",) if gone == "schema" else ("database", "schema")):
                v, flag = c.get(attr), c.get(attr + "_set")
                if not (isinstance(v, Const) and v.v is None):
                    probs.append((f"conn.{attr} still `{tagof(v)}`", attr))
                if not (isinstance(flag, Const) and flag.v is False):
                    probs.append((f"conn.{attr}_set stays `{tagof(flag)}` although conn.{attr} is None (the next unqualified "
                                  f"statement is not refused with 9010{'6' if attr == 'schema' else '5'})", attr + "_set"))
            ctx.ob("C03.c", f"{kind} of the current {gone} clears the context", not probs, "fakesnow/cursor.py", "; ".join(p[0] for p in probs))
            for msg, what in probs:
                ctx.violation("C03.c", "cursor", "FakeSnowflakeCursor._execute", f"{kind} current: stale conn.{what}",
                              "fakesnow/cursor.py", f"after {kind} of the current {gone}: {msg}")
    ctx.floor("C03.c traces", n, 5)


def rule_guards(ctx):
    """C03.d / C07.d."""
    prog = ctx.prog
    n = 0
    cases = [
        ("SELECT", False, False, (90105, "22000")),
        ("SELECT", True, False, (90106, "22000")),
        ("SELECT", False, True, (90105, "22000")),
        ("SELECT", True, True, None),
        ("SELECT qualified", False, False, None),
        ("SELECT information_schema view", False, False, (90105, "22000")),  # information_schema is per database: which one?
        ("SELECT information_schema view", True, False, None),
        ("SELECT qualified subquery in projection", False, False, (90105, "22000")),
        ("SELECT qualified subquery in projection", True, False, (90106, "22000")),
        ("SELECT qualified FROM unqualified JOIN", False, False, (90105, "22000")),
        # a CTE reference is not an object name: with every real table qualified the statement needs no context
        ("SELECT qualified JOIN cte", False, False, None),
        ("SELECT qualified JOIN cte", True, False, None),
        ("INSERT", False, False, (90105, "22000")),
        ("CREATE TABLE", True, False, (90106, "22000")),
        ("CREATE SCHEMA", False, False, (90105, "22000")),
        ("CREATE SCHEMA", True, False, None),
        ("CREATE DATABASE", False, False, None),
        ("USE DATABASE", False, False, None),
        ("USE SCHEMA", False, False, (90105, "22000")),
        ("USE SCHEMA qualified", False, False, None),
        ("DROP TABLE", True, False, (90106, "22000")),
        # schema DDL that names its database needs no current one — in both shapes the parser gives it (with IF EXISTS the schema
        # sits in `this` and the database in `db`)
        ("DROP SCHEMA of the same name in another database", False, False, None),
        ("DROP SCHEMA IF EXISTS of the same name in another database", False, False, None),
        ("DROP SCHEMA", False, False, (90105, "22000")),
        ("DROP SCHEMA IF EXISTS current", False, False, (90105, "22000")),
    ]
    for kind, dbs, schs, want in cases:
        for tr in traces(prog, kind, None, dbs, schs):
            n += 1
            what = f"{kind} with database_set={dbs} schema_set={schs}"
            if want is None:
                ok = not (tr.path.outcome == "raise" and "ProgrammingError" in tr.path.value.cls
                          and _kw(tr.path.value, "errno") in (90105, 90106))
                ctx.ob("C03.d", f"{what}: not refused", ok, "fakesnow/cursor.py")
                if not ok:
                    ctx.violation("C03.d", "cursor", "FakeSnowflakeCursor._execute", f"{what}: refused",
                                  "fakesnow/cursor.py", f"{what} needs no missing context but is refused with {_kw(tr.path.value, 'errno')}")
                continue
            exc = tr.path.value if tr.path.outcome == "raise" else None
            got = (_kw(exc, "errno"), _kw(exc, "sqlstate")) if exc is not None else None
            ok = (exc is not None and exc.cls.endswith("errors.ProgrammingError") and got == want and not tr.engine_sql)
            ctx.ob("C03.d", f"{what}: refused with {want} before any engine call", ok, "fakesnow/cursor.py", str(got))
            if not ok:
                if exc is None:
                    msg = f"{what} is not refused: the engine call runs without a current {'database' if want[0] == 90105 else 'schema'}"
                elif tr.engine_sql:
                    msg = f"{what}: the refusal comes after {len(tr.engine_sql)} engine call(s)"
                else:
                    msg = f"{what} is refused with {exc.cls.rsplit('.', 1)[-1]}{got} instead of ProgrammingError{want}"
                ctx.violation("C03.d", "cursor", "FakeSnowflakeCursor._execute", f"{what}", "fakesnow/cursor.py", msg)
    ctx.floor("C03.d traces", n, 12)
    ctx.analysed("checks.is_unqualified_table_expression")


def _kw(exc, k):
    if exc is None:
        return None
    v = exc.kwargs.get(k)
    return v.v if isinstance(v, Const) else None


def rule_own_context(ctx):
    """C03.e: generated statements carry the issuing connection's own database / schema."""
    prog = ctx.prog
    n = 0
    want = {
        "USE SCHEMA": ("CUR_DB",), "DESCRIBE TABLE": ("CUR_DB", "CUR_SCHEMA"), "SHOW SCHEMAS": ("CUR_DB",),
        "SHOW TERSE OBJECTS IN DATABASE": (), "SHOW PRIMARY KEYS": ("CUR_DB",), "SHOW UNIQUE KEYS": ("CUR_DB",),
        "SHOW IMPORTED KEYS": ("CUR_DB",), "COMMENT ON TABLE": ("CUR_DB", "CUR_SCHEMA"),
        "CREATE TABLE varchar+comment": ("CUR_DB", "CUR_SCHEMA"), "ALTER TABLE ADD COLUMN": ("CUR_DB", "CUR_SCHEMA"),
        "ALTER TABLE SET COMMENT": ("CUR_DB", "CUR_SCHEMA"),
        # a schema named without its database is this session's schema of that name, not every database's
        "SHOW TABLES IN SCHEMA": ("CUR_DB", "S"),
        # a database named in the statement is the one listed, whatever the session's current database is
        "SHOW SCHEMAS IN DATABASE": ("D",),
        "SHOW SCHEMAS IN <database>": ("D",),
    }
    # the same statements at the two other qualification levels: a given part is used as given, a missing one comes
    # from the context ("an unqualified or schema-qualified object name ... denotes exactly the object the fully
    # qualified name built from that context denotes")
    for kind in ("DESCRIBE TABLE", "COMMENT ON TABLE", "CREATE TABLE varchar+comment", "ALTER TABLE ADD COLUMN", "ALTER TABLE SET COMMENT"):
        want[kind + " @schema"] = ("CUR_DB", "S9")
        want[kind + " @full"] = ("D9", "S9")
    for kind, names in want.items():
        for tr in traces(prog, kind):
            if tr.path.outcome != "return":
                continue
            n += 1
            texts = []
            for sqlv in tr.engine_sql:
                k, root = sql_root(sqlv)
                if k == "text":
                    texts.append(text_of(sqlv))
                elif k == "node":
                    src = getattr(root, "parsed_from", None)
                    if src is not None:
                        texts.append(text_of(src))
                    ex = root.args.get("expression")
                    if isinstance(ex, NodeV) and isinstance(ex.args.get("this"), (Str, Const)):
                        texts.append(text_of(ex.args["this"]))
            alltext = "\n".join(texts)
            missing = [nm for nm in names if "{" + nm + "}" not in alltext]
            # each generated statement that names the target table must itself carry the whole resolved name
            for t in texts:
                if "{T}" in t and names and any("{" + h + "}" in t for h in ("CUR_DB", "CUR_SCHEMA", "S9", "D9")):
                    missing += [nm for nm in names if "{" + nm + "}" not in t and nm not in missing]
            foreign = [h for h in ("{old_", "{OTHER") if h in alltext]
            # fakesnow's own per-database objects (information_schema._fs_*) are read from the database of the object the statement
            # names: an unqualified reference reads the *current* database's copy (other lengths / comments, or no such view at all)
            if names:
                for t in texts:
                    for mt_ in re.finditer(r"(\{[A-Za-z0-9_]+\}\.)?information_schema\._fs_\w+", t):
                        if mt_.group(1) is None and names[0] == "CUR_DB":
                            continue  # unqualified = the current database, which is the object's
                        if mt_.group(1) != "{" + names[0] + "}.":
                            missing.append(f"{names[0]} in front of {mt_.group(0)[:60]}")
            ok = not missing
            ctx.ob("C03.e", f"{kind}: generated SQL is filled with the connection's own {'/'.join(names) or 'context'}", ok,
                   "fakesnow/cursor.py", f"missing {missing}" if missing else "")
            if not ok:
                ctx.violation("C03.e", "cursor", "FakeSnowflakeCursor._transform", f"{kind}: missing {missing}",
                              "fakesnow/cursor.py",
                              f"the statement generated for {kind} does not carry the issuing connection's "
                              f"{' and '.join(missing)}: an unqualified name would not resolve against this session's context")
    ctx.floor("C03.e traces", n, 16)


from .c14 import rule_typestate as rule_connect_context  # noqa: E402  (the context set at connect is part of C03)

def rule_context_read_at_statement_time(ctx):
    """C03.h: a cursor reads the session's context when a statement runs, not when the cursor was made: after the connection's
    database changed (USE DATABASE on this or another cursor of the connection), SHOW … on an *older* cursor is filled with the
    new database."""
    import ast as _ast

    from ..execmodel import ExecHooks, descriptor, make_session
    from ..interp import Env, explore
    from ..values import ClsRef, Sym

    prog = ctx.prog
    n = 0
    for kind in ("SHOW SCHEMAS", "SHOW PRIMARY KEYS", "SHOW TABLES IN SCHEMA"):
        def run(I, kind=kind):
            duck, conn, _cur = make_session()
            cur = I.construct(ClsRef("fakesnow.cursor.FakeSnowflakeCursor"), [conn, duck, Const(False)], {}, None)  # made before the USE
            env = Env("cursor", "<harness>")
            env.vars["conn"] = conn
            env.vars["v"] = Sym("NEW_DB", typ="str", truthy=True, origin=("upper", ("input", "NEW_DB")), distinct=True)
            I.st(_ast.parse("conn.database = v").body[0], env)  # what USE DATABASE does to the connection
            return I.call(I.getattr(cur, "_transform"), [descriptor(kind)], {}, None)

        for p in explore(prog, lambda: ExecHooks(None), run, max_paths=16):
            if p.outcome != "return":
                continue
            n += 1
            root = p.value
            src = getattr(root, "parsed_from", None)
            txt = text_of(src) if src is not None else tagof(root)
            ok = "{NEW_DB}" in txt and "{CUR_DB}" not in txt
            ctx.ob("C03.h", f"{kind} on a cursor made before the database changed uses the new current database", ok, "fakesnow/cursor.py",
                   "" if ok else txt[:80])
            if not ok:
                ctx.violation("C03.h", "cursor", "FakeSnowflakeCursor._transform", f"{kind}: context captured when the cursor was made", "fakesnow/cursor.py",
                              f"after the connection's database changed, `{kind}` on a cursor created earlier is still filled with the old database "
                              f"(`{'{CUR_DB}' if '{CUR_DB}' in txt else txt[:60]}`): the cursor captured the session context at construction")
            break
    ctx.floor("C03.h statements", n, 3)


def rule_pandas_create_target(ctx):
    """C03.g = C01.c6: a table write_pandas creates for a load into `<database>.<schema>.<table>` is created under that name,
    not under the session's current schema (imported lazily: c01 imports from this module's siblings)."""
    from .c01 import rule_pandas_create_target as r_
    r_(ctx)


RULES = [
    ("C03.h", rule_context_read_at_statement_time, ("quick", "thorough")),
    ("C03.g", rule_pandas_create_target, ("quick", "thorough")),
    ("C03.f", rule_connect_context, ("quick", "thorough")),
    ("C03.a", rule_handle, ("quick", "thorough")),
    ("C03.b", rule_after_accept, ("quick", "thorough")),
    ("C03.c", rule_coherence, ("quick", "thorough")),
    ("C03.d", rule_guards, ("quick", "thorough")),
    ("C03.e", rule_own_context, ("quick", "thorough")),
]
