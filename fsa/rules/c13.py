"""C13 — transactions (narrow claim: handle topology and the no-transaction mapping)."""

from __future__ import annotations

from ..execmodel import ExecHooks, FullHooks, R, make_session
from ..interp import explore
from ..values import Const, Obj, Str, Sym, tagof
from .c03 import rule_handle
from .common import all_kinds, sql_root, text_of, traces

EXPLANATION = (
    "Transactions are DuckDB's; what fakesnow contributes and what is decided here: one engine cursor per connection "
    "(C03.a) shared by all of that connection's fake cursors including the ones commit()/rollback() create, so that "
    "BEGIN/COMMIT/ROLLBACK and the statements between them run on the same engine connection; the 'no transaction is "
    "active' engine errors of COMMIT and ROLLBACK become the success status while any other transaction error "
    "propagates; commit()/rollback() execute COMMIT/ROLLBACK; no statement fakesnow generates itself opens or ends a "
    "transaction. Atomicity, isolation and visibility (DuckDB MVCC) are not decided by this family."
)
RULE_TEXT = (
    "C13.a=C03.a; C13.b every fake cursor of a connection holds the connection's own engine handle (object identity in "
    "the abstract heap), also via commit()/rollback(); C13.c traces of COMMIT/ROLLBACK under both no-transaction "
    "messages return the success status, other TransactionException re-raised; C13.d commit()/rollback() run the "
    "texts COMMIT/ROLLBACK; no generated statement is BEGIN/COMMIT/ROLLBACK; C13.e the only callers of "
    "begin/commit/rollback are the public commit()/rollback(); C13.f no other engine cursor is opened while a statement "
    "is carried out; C13.g no generated statement is CHECKPOINT / VACUUM / a checkpoint PRAGMA (refused while another "
    "session has an open write transaction), also on an instance with db_path. C13.h a DML statement whose engine call "
    "raises an execution-time error (DuckDB aborts the open transaction on those) is followed by a recovery action."
)
TRUSTED = ["CPython ast", "DuckDB: transaction state belongs to one cursor; statements outside BEGIN autocommit",
           "DuckDB: an execution-time error (constraint, conversion) aborts the open explicit transaction; binder/catalog errors do not"]


def rule_shared_handle(ctx):
    prog = ctx.prog
    ctx.analysed("conn.FakeSnowflakeConnection.cursor", "conn.FakeSnowflakeConnection.commit", "conn.FakeSnowflakeConnection.rollback")
    sessions = []

    def run(I):
        duck, conn, cur = make_session()
        sessions.append((duck, conn))
        return I.call(I.getattr(conn, "cursor"), [], {}, None)

    n = 0
    for p, (duck, conn) in zip(explore(prog, lambda: ExecHooks(None), run, max_paths=16), sessions):
        n += 1
        c2 = p.value
        ok = (p.outcome == "return" and isinstance(c2, Obj) and c2.attrs.get(R().duck) is duck and c2.attrs.get(R().conn) is conn)
        ctx.ob("C13.b", "conn.cursor(): the new fake cursor holds the connection's own engine handle", ok, "fakesnow/conn.py")
        if not ok:
            got = c2.attrs.get(R().duck) if isinstance(c2, Obj) else c2
            ctx.violation("C13.b", "conn", "FakeSnowflakeConnection.cursor", "cursor() handle", "fakesnow/conn.py",
                          f"conn.cursor() gives the fake cursor `{tagof(got)}` instead of the connection's engine handle: statements of one "
                          f"session would run on different engine connections (COMMIT would not end the transaction BEGIN opened)")
    for meth, text in (("commit", "COMMIT"), ("rollback", "ROLLBACK")):
        sess2, hooks2 = [], []

        def fac():
            h = FullHooks(None, text)
            hooks2.append(h)
            return h

        def run2(I, meth=meth):
            duck, conn, cur = make_session()
            sess2.append((duck, conn))
            return I.call(I.getattr(conn, meth), [], {}, None)

        for p, (duck, conn), h in zip(explore(prog, fac, run2, max_paths=32), sess2, hooks2):
            if not h.parsed:
                if p.outcome == "return":
                    # only the engine knows whether a transaction is open: conn.commit() / rollback() always reach it. A flag kept beside
                    # the engine's state goes stale (a statement that fails inside BEGIN leaves the engine's transaction open)
                    n += 1
                    why = [t for t, v in p.assumed][:1]
                    ctx.ob("C13.d", f"conn.{meth}() reaches the engine", False, "fakesnow/conn.py", why[0] if why else "")
                    ctx.violation("C13.d", "conn", f"FakeSnowflakeConnection.{meth}", f"{meth}() returns without executing {text}", "fakesnow/conn.py",
                                  f"conn.{meth}() has a path that returns without sending `{text}` to the engine"
                                  + (f" (decided by `{why[0]}`)" if why else " (decided by state the connection keeps beside the engine's own)")
                                  + ": when that state disagrees with the engine — after a statement failed inside BEGIN the engine's transaction is "
                                    "still open — the work is neither committed nor rolled back, and later statements silently join the old transaction")
                continue
            n += 1
            parsed = [e for e in p.effects if e[0] == "parse-user"]
            cmd = parsed[0][1] if parsed else None
            engs = [e for e in p.effects if e[0] == "engine"]
            ok_text = isinstance(cmd, Const) and str(cmd.v).strip().upper() == text
            ctx.ob("C13.d", f"conn.{meth}() executes `{text}`", ok_text, "fakesnow/conn.py", tagof(cmd))
            if not ok_text:
                ctx.violation("C13.d", "conn", f"FakeSnowflakeConnection.{meth}", f"{meth} text {tagof(cmd)}", "fakesnow/conn.py",
                              f"conn.{meth}() executes `{tagof(cmd)}` instead of `{text}`")
    # all engine calls of every trace go to the session's own handle (ExecHooks records per handle object)
    ctx.floor("C13.b/d paths", n, 3)


def rule_no_tx_mapping(ctx):
    prog = ctx.prog
    n = 0
    for kind in ("COMMIT", "ROLLBACK"):
        for mode in ("duckdb.TransactionException:cannot rollback - no transaction is active",
                     "duckdb.TransactionException:cannot commit - no transaction is active"):
            for tr in traces(prog, kind, mode):
                n += 1
                last = tr.engine_sql[-1] if tr.engine_sql else None
                ok = (tr.path.outcome == "return" and last is not None and "Statement executed successfully." in text_of(last)
                      and len(tr.engine_sql) == 2)
                ctx.ob("C13.c", f"{kind} with no open transaction ({mode.split(':')[1]}) -> success status", ok, "fakesnow/cursor.py")
                if not ok:
                    ctx.violation("C13.c", "cursor", "FakeSnowflakeCursor._execute", f"{kind}: {mode.split(':')[1]}",
                                  "fakesnow/cursor.py",
                                  f"{kind} outside a transaction (engine says '{mode.split(':')[1]}') "
                                  f"{'raises ' + tr.path.value.cls if tr.path.outcome == 'raise' else 'does not return the success status row'}; "
                                  f"Snowflake succeeds with 'Statement executed successfully.'")
        for tr in traces(prog, kind, "duckdb.TransactionException:other"):
            n += 1
            ok = tr.path.outcome == "raise" and tr.path.value.cls == "duckdb.TransactionException"
            ctx.ob("C13.c", f"{kind}: any other transaction error propagates", ok, "fakesnow/cursor.py")
            if not ok:
                ctx.violation("C13.c", "cursor", "FakeSnowflakeCursor._execute", f"{kind}: other transaction error swallowed",
                              "fakesnow/cursor.py", f"a transaction error other than 'no transaction is active' during {kind} is turned into success")
    for kind in ("INSERT", "SELECT"):
        for tr in traces(prog, kind, "duckdb.TransactionException:other"):
            n += 1
            ok = tr.path.outcome == "raise"
            ctx.ob("C13.c", f"{kind}: transaction conflict propagates", ok, "fakesnow/cursor.py")
            if not ok:
                ctx.violation("C13.c", "cursor", "FakeSnowflakeCursor._execute", f"{kind}: transaction error swallowed",
                              "fakesnow/cursor.py", f"a transaction error during {kind} is swallowed")
    ctx.floor("C13.c traces", n, 8)


def rule_no_implicit_tx(ctx):
    prog = ctx.prog
    n = 0
    for kind in [*all_kinds(), "CREATE DATABASE @db_path"]:
        if kind in ("BEGIN", "COMMIT", "ROLLBACK"):
            continue
        for tr in traces(prog, kind):
            for sqlv, _, site in tr.hooks.calls:
                k, root = sql_root(sqlv)
                head = ""
                if k == "text":
                    head = " ".join(t.up for t in root[:2] if t.kind == "word")
                elif k == "node":
                    head = (root.cls or "").upper()
                n += 1
                bad = head.split(" ")[0] in ("BEGIN", "COMMIT", "ROLLBACK", "START", "TRANSACTION", "ABORT", "END")
                ctx.ob("C13.d", f"{kind}: generated statement `{head[:30]}` does not open/end a transaction", not bad, "fakesnow/cursor.py")
                if bad:
                    ctx.violation("C13.d", "cursor", "FakeSnowflakeCursor._execute", f"{kind}: {head}", "fakesnow/cursor.py",
                                  f"executing {kind} makes fakesnow run `{head}` on the session's engine connection: it would end or open "
                                  f"the user's transaction")
                # engine-wide maintenance statements are refused (or wait) while ANY other connection has an open write
                # transaction: a session's autocommit statement would fail only because another session is between BEGIN and
                # COMMIT — isolation between connections
                words = head.split(" ")
                maint = words[0] in ("CHECKPOINT", "VACUUM") or words[:2] == ["FORCE", "CHECKPOINT"] or (
                    words[0] == "PRAGMA" and "checkpoint" in text_of(sqlv).lower())
                ctx.ob("C13.g", f"{kind}: generated statement `{head[:30]}` does not depend on other sessions' open transactions", not maint, "fakesnow/cursor.py")
                if maint:
                    ctx.violation("C13.g", "cursor", "FakeSnowflakeCursor._execute", f"{kind}: {head}", f"fakesnow/cursor.py:{getattr(site, 'lineno', 0)}",
                                  f"executing {kind} makes fakesnow run `{head}`: DuckDB refuses (or blocks) a checkpoint while another connection "
                                  f"has an open write transaction, so this autocommit statement fails only because another session is between "
                                  f"BEGIN and COMMIT")
    ctx.floor("C13.d engine statements", n, 60)


def rule_no_implicit_tx_calls(ctx):
    """C13.e: nothing in the package begins, commits or rolls back on the user's behalf: the only callers of
    begin/commit/rollback (engine methods, connection methods, or the SQL words) are the public commit()/rollback()."""
    import ast

    from ..model import norm

    prog = ctx.prog
    n = 0
    for mname, m in prog.modules.items():
        for qual, fn in m.functions.items():
            public_tx = qual.split(".")[-1] in ("commit", "rollback")
            for c in ast.walk(fn):
                if not isinstance(c, ast.Call):
                    continue
                bad = None
                if isinstance(c.func, ast.Attribute) and c.func.attr in ("begin", "commit", "rollback"):
                    bad = f"`{norm(c)[:60]}`"
                elif c.args and isinstance(c.args[0], ast.Constant) and isinstance(c.args[0].value, str) and c.args[0].value.strip() \
                        and c.args[0].value.strip().split(" ")[0].upper() in ("BEGIN", "COMMIT", "ROLLBACK", "START", "ABORT", "END") \
                        and len(c.args[0].value.split()) <= 3 and not (isinstance(c.func, ast.Attribute) and c.func.attr in ("startswith", "endswith", "split", "get")):
                    # the SQL word handed to whatever runs it (execute / sql / a private helper)
                    bad = f"`{norm(c)[:60]}`"
                if bad is None:
                    continue
                n += 1
                ok = public_tx
                ctx.ob("C13.e", f"{mname}.{qual}: {bad} is the public commit()/rollback()", ok, m.loc(c))
                if not ok:
                    ctx.violation("C13.e", mname, qual, f"implicit transaction control {norm(c.func)[:40]}", m.loc(c),
                                  f"`{qual}` calls {bad}: fakesnow begins or ends a transaction on the user's behalf — an explicit transaction "
                                  f"the session opened is committed or rolled back (or aborted by a nested BEGIN) without the user asking")
    ctx.floor("transaction-control call sites (commit()/rollback())", n, 2)


def rule_single_handle(ctx):
    """C13.f: while a statement is carried out (transform + execute, incl. the bookkeeping statements) no other engine
    cursor is opened: everything a session does runs on its one engine connection, inside its transaction."""
    prog = ctx.prog
    n = 0
    for kind in all_kinds():
        for tr in traces(prog, kind):
            curs = [e for e in tr.path.effects if e[0] == "engine" and e[1] == "cursor"]
            n += 1
            ok = not curs
            ctx.ob("C13.f", f"{kind}: all engine calls go to the session's own handle", ok, "fakesnow/cursor.py")
            if not ok:
                site = curs[0][4]
                ctx.violation("C13.f", "cursor", "FakeSnowflakeCursor._execute", "statement work on another engine cursor", f"fakesnow/cursor.py:{getattr(site, 'lineno', 0)}",
                              f"while executing {kind} a new engine cursor is opened (`.cursor()`): what runs on it is outside the session's "
                              f"transaction (survives ROLLBACK, visible to others before COMMIT) and is not seen by the session itself until then")
    ctx.floor("C13.f traces", n, 40)
    # write_pandas is a statement too: its INSERT runs on the session's own engine handle
    if prog.has_fn("pandas_tools", "write_pandas"):
        from ..execmodel import ExecHooks, make_session
        from ..interp import explore
        from ..values import Obj, Sym

        hooks, handles = [], []

        def fac():
            h = ExecHooks(None)
            hooks.append(h)
            return h

        def run(I):
            duck, conn, cur = make_session()
            handles.append(duck)
            return I.call(I.global_lookup("pandas_tools", "write_pandas"), [conn, Obj("df", kind="df"), Sym("TABLE_NAME", typ="str", truthy=True)], {}, None)

        for p, h, duck in zip(explore(prog, fac, run, max_paths=16), hooks, handles):
            if p.outcome != "return":
                continue
            curs = [e for e in p.effects if e[0] == "engine" and e[1] == "cursor"]
            ins = [e for e in p.effects if e[0] == "engine" and e[1] == "execute"]
            ok = not curs and bool(ins)
            ctx.ob("C13.f", "write_pandas: the INSERT runs on the session's own engine handle", ok, "fakesnow/pandas_tools.py")
            if not ok:
                site = (curs or ins or [(None,) * 5])[0][4]
                ctx.violation("C13.f", "pandas_tools", "write_pandas", "rows loaded through another engine cursor", f"fakesnow/pandas_tools.py:{getattr(site, 'lineno', 0)}",
                              "write_pandas opens a new engine cursor (`.cursor()`) for its INSERT: the rows are written outside the session's "
                              "transaction — visible to others before COMMIT, kept after ROLLBACK, and a table created in the open transaction "
                              "cannot be loaded")
            break


# DuckDB fact (trusted axiom, confirmed once against the pinned engine): an error raised while a statement *executes* — a
# constraint violation, a conversion error — aborts the connection's open explicit transaction: every later statement fails
# with "Current transaction is aborted (please ROLLBACK)", and the engine has already rolled the transaction back when COMMIT
# arrives ("no transaction is active"). Errors raised while the statement is *bound* (unknown table / column) do not.
ABORTING = ("duckdb.ConstraintException", "duckdb.ConversionException")


def rule_failed_statement_keeps_transaction(ctx):
    """C13.h: a statement that fails inside an explicit transaction leaves the transaction open (Snowflake: the failed
    statement is rolled back, the transaction goes on and COMMIT makes the other statements visible). With DuckDB's abort
    semantics that needs a recovery action of fakesnow's own on the failure path of `_execute` (or a guard in front of the
    statement): on the traces of a DML / query statement whose primary engine call raises an execution-time error, some engine
    call must follow the failing one (accepted idiom: any statement-level rollback / re-establishing call), or precede it as a
    savepoint. None: the first such error silently turns the rest of the transaction, COMMIT included, into no-ops."""
    prog = ctx.prog
    n = 0
    for kind in ("INSERT", "UPDATE", "DELETE"):
        for mode in ABORTING:
            for tr in traces(prog, kind, mode):
                if tr.path.outcome != "raise":
                    continue
                n += 1
                texts = [text_of(c[0]).upper() for c in tr.hooks.calls]
                recovered = len(texts) > 1 and any(t.lstrip().startswith(("ROLLBACK TO", "SAVEPOINT", "RELEASE", "BEGIN", "ROLLBACK")) for t in texts)
                ctx.ob("C13.h", f"{kind} failing with {mode.split('.')[1]} inside a transaction: the transaction is kept usable", recovered,
                       "fakesnow/cursor.py", f"engine calls on the failing path: {len(texts)}")
                if not recovered:
                    ctx.violation("C13.h", "cursor", "FakeSnowflakeCursor._execute", "execution-time error inside a transaction aborts it",
                                  "fakesnow/cursor.py",
                                  f"when a {kind} fails with {mode} (an error raised while the statement executes) the error is passed on and "
                                  f"nothing restores the open transaction, which DuckDB has aborted: the following statements of the "
                                  f"transaction raise raw engine errors, and COMMIT reports success ('no transaction is active' is mapped to "
                                  f"the success status) although every write of the transaction is gone — in Snowflake the failed statement "
                                  f"alone is rolled back and COMMIT makes the others visible")
    ctx.floor("C13.h failing traces", n, 6)


RULES = [
    ("C13.h", rule_failed_statement_keeps_transaction, ("quick", "thorough")),
    ("C13.f", rule_single_handle, ("quick", "thorough")),
    ("C13.e", rule_no_implicit_tx_calls, ("quick", "thorough")),
    ("C13.a", rule_handle, ("quick", "thorough")),
    ("C13.b", rule_shared_handle, ("quick", "thorough")),
    ("C13.c", rule_no_tx_mapping, ("quick", "thorough")),
    ("C13.d", rule_no_implicit_tx, ("quick", "thorough")),
]
