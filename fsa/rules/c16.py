"""C16 — execute_string equals one-by-one execution; nop_regexes only no-op matches (narrow claim)."""

from __future__ import annotations

from ..execmodel import FullHooks, define_variables, descriptors, make_session, node, run_execute
from ..interp import explore
from ..values import ClsRef, Const, Ext, Lst, NodeV, Obj, Sym, Tup, tagof

EXPLANATION = (
    "Abstract interpretation of execute_string over an abstract statement list (two statements, a comment-only part, "
    "an empty part): exactly the real statements are executed, in list order, each on a cursor created inside the "
    "iteration with the caller's cursor class, each as that statement's own Snowflake rendering; a failure of one "
    "statement propagates (later ones are not executed, nothing is swallowed). For nop_regexes: a configured pattern "
    "is matched case-insensitively at the start of the parameter-substituted text; on a match the success no-op is "
    "executed and nothing of the user text is parsed, transformed or sent to the engine; without a match (or "
    "without the option) the statement takes the normal path. The fidelity of sqlglot's parse->generate round trip "
    "for literal contents is not decided by this family."
)
RULE_TEXT = (
    "C16.a execute_string effect trace: executes == non-empty non-Semicolon parts, order kept, fresh cursor per "
    "statement, dict flag == (cursor_class == DictCursor), text == part.sql(dialect=snowflake), failure propagates; "
    "C16.b nop: re.match(pattern, substituted text, IGNORECASE); match => only SUCCESS_NOP reaches the engine, no "
    "parse; no match => normal path; C16.c the module-level status statement the nop path executes is never stored "
    "through by any stage on any statement-kind trace (it stays the plain one-row status query)."
    " C16.a also: the caller's text reaches sqlglot.parse(read=snowflake) unmodified."
    " C16.b also: nop_regexes=[] no-ops nothing; patterns derived from the configured ones count as consulted."
)
TRUSTED = ["CPython ast", "sqlglot.parse splits at statement boundaries and yields Semicolon nodes for comment-only parts"]


class StringHooks(FullHooks):
    def __init__(self, mode):
        super().__init__(mode, "INSERT")
        self.parts = None

    def external(self, I, d, args, kwargs, site):
        if d == "sqlglot.parse":
            self.parse_arg = (args[0] if args else None, kwargs.get("read"))
            self.parse_kwargs = dict(kwargs)
            a = node("Insert", "part_a")
            b = node("Update", "part_b")
            semi = node("Semicolon", "comment_only")
            self.parts = (a, semi, b)
            return Lst([a, semi, Const(None), b])
        return super().external(I, d, args, kwargs, site)


def rule_execute_string(ctx):
    prog = ctx.prog
    ctx.analysed("conn.FakeSnowflakeConnection.execute_string", "conn.FakeSnowflakeConnection.cursor")
    for mode in (None, "duckdb.CatalogException"):
        for dict_cursor, remove_comments, return_cursors in ((False, False, True), (True, False, True), (False, True, True), (False, False, False)):
            hooks, sessions = [], []

            def fac():
                h = StringHooks(mode)
                hooks.append(h)
                return h

            def run(I, dict_cursor=dict_cursor, remove_comments=remove_comments, return_cursors=return_cursors):
                duck, conn, cur = make_session()
                from ..execmodel import R
                from ..values import Dct
                define_variables(conn, {"V": Const("1")})  # a session variable is defined
                sessions.append(conn)
                cc = Ext("snowflake.connector.cursor.DictCursor" if dict_cursor else "snowflake.connector.cursor.SnowflakeCursor")
                kw = {"cursor_class": cc}
                if remove_comments:
                    kw["remove_comments"] = Const(True)
                if not return_cursors:
                    kw["return_cursors"] = Const(False)  # the statements run all the same; only the returned list is empty
                return I.call(I.getattr(conn, "execute_string"), [Sym("SQL_TEXT", typ="str", truthy=True)], kw, None)

            for p, h, conn in zip(explore(prog, fac, run, max_paths=64), hooks, sessions):
                texts = [e[1] for e in p.effects if e[0] == "parse-user"]
                # paths on which some statement is refused for an undefined $variable are not about execute_string
                undefined_var = any("re.search" in t and v for t, v in p.assumed)
                if undefined_var:
                    continue
                def rendering(v, depth=0):
                    """the `<node>.sql(dialect=…)` value a text was made from (through variable inlining / binding, which keep the text)"""
                    if isinstance(v, Sym) and v.origin and v.origin[0] == "sql":
                        return v
                    if depth > 6:
                        return None
                    for x in (getattr(v, "origin", None) or ()):
                        for y in (x if isinstance(x, (list, tuple)) else [x]):
                            if hasattr(y, "tag"):
                                r_ = rendering(y, depth + 1)
                                if r_ is not None:
                                    return r_
                    for y in getattr(v, "parts", ()):
                        if hasattr(y, "tag"):
                            r_ = rendering(y, depth + 1)
                            if r_ is not None:
                                return r_
                    return None

                rs = [rendering(t) for t in texts]
                rendered = [r_.origin[1].name if r_ is not None else tagof(t) for r_, t in zip(rs, texts)]
                dialects = [r_.origin[2] if r_ is not None and len(r_.origin) > 2 else None for r_ in rs]
                news = [e for e in p.effects if e[0] == "new" and e[1].endswith("cursor.FakeSnowflakeCursor")]
                if mode is None:
                    # the script reaches the statement splitter as given: only the parser knows where literals and comments end
                    parg, pread = getattr(h, "parse_arg", (None, None))
                    base = parg
                    while isinstance(base, Sym) and base.origin and base.origin[0] in ("strip", "lstrip", "rstrip") and len(base.origin) == 2:
                        base = base.origin[1]  # trimming surrounding whitespace changes no statement
                    okp = isinstance(base, Sym) and base.tag == "SQL_TEXT" and isinstance(pread, Const) and pread.v == "snowflake"
                    ctx.ob("C16.a", f"the script text reaches the Snowflake parser unmodified (remove_comments={remove_comments})", okp,
                           "fakesnow/conn.py", "" if okp else f"{tagof(parg)[:70]} read={tagof(pread)}")
                    if not okp:
                        ctx.violation("C16.a", "conn", "FakeSnowflakeConnection.execute_string", f"script pre-processed before parsing (remove_comments={remove_comments})",
                                      "fakesnow/conn.py",
                                      f"execute_string hands `{tagof(parg)[:70]}` (read={tagof(pread)}) to the statement splitter instead of the caller's "
                                      f"text parsed as Snowflake SQL: textual pre-processing cannot tell `--`, `/*` or `;` inside a string literal from "
                                      f"a comment or a separator")
                    # the split is strict: a script with a statement the parser rejects fails as a whole before anything runs — a lenient
                    # parse hands out *partial* trees, whose re-rendering can be valid SQL for a different statement
                    lvl = getattr(h, "parse_kwargs", {}).get("error_level")
                    lenient = lvl is not None and any(w in tagof(lvl).upper() for w in ("IGNORE", "WARN"))
                    ctx.ob("C16.a", "the script is split by a strict parse (no error_level=IGNORE / WARN)", not lenient, "fakesnow/conn.py", tagof(lvl) if lvl is not None else "")
                    if lenient:
                        ctx.violation("C16.a", "conn", "FakeSnowflakeConnection.execute_string", "script split with a lenient parse", "fakesnow/conn.py",
                                      f"execute_string splits the script with error_level={tagof(lvl)}: for an invalid statement the parser returns the "
                                      f"part it understood, and what is executed is that part's rendering (`delete from t where id in (1, 2` runs as "
                                      f"`DELETE FROM t WHERE id IN (1, 2)`, `drop table t cascade please` as `DROP TABLE t CASCADE`) — not the statement "
                                      f"the caller wrote, which one-by-one execution rejects")
                    ok = p.outcome == "return" and rendered == ["part_a", "part_b"]
                    ctx.ob("C16.a", f"execute_string executes exactly the two statements, in order (dict={dict_cursor}, return_cursors={return_cursors})", ok,
                           "fakesnow/conn.py", str(rendered))
                    if not ok:
                        ctx.violation("C16.a", "conn", "FakeSnowflakeConnection.execute_string",
                                      f"executed parts {rendered}" + ("" if return_cursors else " with return_cursors=False"), "fakesnow/conn.py",
                                      f"of the parts [INSERT, comment-only, empty, UPDATE] execute_string executes {rendered or 'nothing'} "
                                      f"({'raises ' + p.value.cls if p.outcome == 'raise' else 'returns'}); expected the INSERT then the UPDATE")
                        continue
                    opts = sorted({k for r_ in rs if r_ is not None and len(r_.origin) > 3 for k in (r_.origin[3] or {})})
                    oko = not opts
                    ctx.ob("C16.a", "each part is re-generated with the generator's default layout (no options besides the dialect)", oko,
                           "fakesnow/conn.py", str(opts))
                    if not oko:
                        ctx.violation("C16.a", "conn", "FakeSnowflakeConnection.execute_string", f"statements re-generated with options {opts}", "fakesnow/conn.py",
                                      f"execute_string re-generates each statement with the generator option(s) {opts}: the text that execute() sees (and "
                                      f"matches nop_regexes against, logs, records) differs from the one-line text of executing the statement on its own — "
                                      f"`pretty=True` puts clauses on separate lines, so a pattern with a blank or `.*` across a clause boundary stops matching")
                    okd = all(isinstance(d, Const) and d.v == "snowflake" for d in dialects)
                    ctx.ob("C16.a", "each part is re-generated as Snowflake SQL", okd, "fakesnow/conn.py")
                    if not okd:
                        ctx.violation("C16.a", "conn", "FakeSnowflakeConnection.execute_string", "dialect of the re-generated text", "fakesnow/conn.py",
                                      "the statements are re-generated in a dialect other than Snowflake's before being executed as Snowflake SQL")
                    flags = [tagof(e[3].get("use_dict_result")) if isinstance(e[3], dict) else None for e in news]
                    curs = {id(e[5]) for e in news}
                    okc = len(news) >= 2 and len(curs) == len(news) and all(f == str(dict_cursor) for f in flags[:2])
                    ctx.ob("C16.a", f"one fresh cursor per statement with the caller's cursor class (dict={dict_cursor})", okc, "fakesnow/conn.py", str(flags))
                    if not okc:
                        ctx.violation("C16.a", "conn", "FakeSnowflakeConnection.execute_string", f"cursor per statement dict={dict_cursor}", "fakesnow/conn.py",
                                      f"execute_string created {len(news)} cursor(s) with dict flags {flags} for two statements and cursor_class "
                                      f"{'DictCursor' if dict_cursor else 'SnowflakeCursor'}")
                    ret = p.value
                    okr = isinstance(ret, Lst) and len(ret.items) == (2 if return_cursors else 0)
                    ctx.ob("C16.a", "returns one cursor per executed statement", okr, "fakesnow/conn.py")
                else:
                    ok = p.outcome == "raise" and rendered == ["part_a"]
                    ctx.ob("C16.a", "a failing statement stops execute_string and the error propagates", ok, "fakesnow/conn.py", str(rendered))
                    if not ok:
                        ctx.violation("C16.a", "conn", "FakeSnowflakeConnection.execute_string", "failure handling", "fakesnow/conn.py",
                                      f"when the first statement fails execute_string {'returns normally' if p.outcome == 'return' else 'raises'} "
                                      f"after executing {rendered}: it must stop at the first failing statement and raise")


def rule_nop(ctx):
    prog = ctx.prog
    ctx.analysed("cursor.FakeSnowflakeCursor.execute")
    PAT = Const("^CALL\\s")  # has a regex escape: folding the case of the *pattern text* would turn \s into \S
    n_match = n_nomatch = 0
    for scenario in (True, False):
        for tr in run_execute(prog, "SELECT", None, nop_regexes=Lst([PAT]), variables={"V": Const("1")},
                              params=Tup([Sym("P1")]), paramstyle="pyformat", nop_match=scenario):
            def from_pat(v):  # the configured pattern itself, or a text built from it (an alternation of all patterns ...)
                if v is PAT:
                    return True
                parts = getattr(v, "parts", None)
                if parts is not None:
                    return any((isinstance(x, str) and PAT.v in x) or from_pat(x) for x in parts)
                o = getattr(v, "origin", None)
                return bool(o) and any(from_pat(x) for x in o if hasattr(x, "tag")) or (isinstance(v, Const) and isinstance(v.v, str) and PAT.v in v.v) \
                    or PAT.v in tagof(v)

            calls = [c for c in tr.hooks.nop_calls if c[1] and from_pat(c[1][0])]
            folded = [c for c in tr.hooks.nop_calls if c[1] and isinstance(c[1][0], Const) and isinstance(c[1][0].v, str)
                      and c[1][0].v != PAT.v and c[1][0].v.lower() == PAT.v.lower()]
            if not calls and folded:
                ctx.ob("C16.b", "the configured pattern is used as written", False, "fakesnow/cursor.py", folded[0][1][0].v)
                ctx.violation("C16.b", "cursor", "FakeSnowflakeCursor.execute", "nop pattern case-folded as text", "fakesnow/cursor.py",
                              f"the configured pattern `{PAT.v}` is matched as `{folded[0][1][0].v}`: changing the case of the pattern text "
                              f"changes regex escapes (\\s, \\d, \\w, \\b become their negations) — case-insensitivity is the IGNORECASE flag's job")
                continue
            if not calls:
                ctx.ob("C16.b", "configured pattern is consulted", False, "fakesnow/cursor.py")
                ctx.violation("C16.b", "cursor", "FakeSnowflakeCursor.execute", "nop_regexes not consulted", "fakesnow/cursor.py",
                              "a configured nop_regexes pattern is never matched against the statement")
                continue
            fn, args, kwargs, site = calls[0]
            flags = args[2] if len(args) > 2 else kwargs.get("flags")
            subject = args[1] if len(args) > 1 else None
            ok_fn = fn == "re.match"
            ok_flags = flags is not None and "IGNORECASE" in tagof(flags)
            ok_subj = isinstance(subject, Sym) and subject.origin and subject.origin[0] == "binop" and subject.origin[1] == "Mod"
            ctx.ob("C16.b", "pattern matched at the start (re.match), case-insensitively, against the parameter-substituted text",
                   ok_fn and ok_flags and ok_subj, "fakesnow/cursor.py", f"{fn} flags={tagof(flags)} subject={tagof(subject)[:40]}")
            if not (ok_fn and ok_flags and ok_subj):
                why = ("uses " + fn + " instead of re.match (anchored at the start)" if not ok_fn else
                       "is case-sensitive" if not ok_flags else "is applied to text that is not the parameter-substituted command")
                ctx.violation("C16.b", "cursor", "FakeSnowflakeCursor.execute", f"nop match {why[:40]}", "fakesnow/cursor.py",
                              f"the nop_regexes match {why}")
            if scenario:
                n_match += 1
                ok = (tr.hooks.parsed == 0 and len(tr.engine_sql) == 1 and "SUCCESS_NOP" in tagof(tr.engine_sql[0]) and tr.path.outcome == "return")
                ctx.ob("C16.b", "match: only the success no-op reaches the engine, nothing is parsed", ok, "fakesnow/cursor.py",
                       f"parsed={tr.hooks.parsed} engine={[tagof(s)[:30] for s in tr.engine_sql]}")
                if not ok:
                    ctx.violation("C16.b", "cursor", "FakeSnowflakeCursor.execute", "nop match falls through", "fakesnow/cursor.py",
                                  f"a statement matching nop_regexes still has {tr.hooks.parsed} parse(s) and engine statements "
                                  f"{[tagof(s)[:40] for s in tr.engine_sql]}: it must return the success status and have no effect")
                # the status reaches the engine as the constant it is: the rewrite chain is for user statements (its identifier
                # folding would rename the lower-case `status` column every other status producer keeps)
                again = sorted({tagof(e[2]).rsplit(".", 1)[-1] for e in tr.path.effects if e[0] == "transform" and "SUCCESS_NOP" in tagof(e[1])})
                ctx.ob("C16.b", "match: the success status is sent as is, not through the statement rewrite chain", not again, "fakesnow/cursor.py",
                       ", ".join(again[:5]))
                if again:
                    ctx.violation("C16.b", "cursor", "FakeSnowflakeCursor.execute", "status of a no-op'd statement rewritten by the stage chain", "fakesnow/cursor.py",
                                  f"on a nop_regexes match the status statement is sent through {len(again)} rewrite stages ({', '.join(again[:4])}, ...): "
                                  f"identifier folding renames its `status` column to STATUS, so the no-op'd statement does not return the success "
                                  f"status every other statement returns (DictCursor keys, description, pandas column differ)")
            else:
                n_nomatch += 1
                ok = tr.hooks.parsed == 1 and tr.engine_sql and "SUCCESS_NOP" not in tagof(tr.engine_sql[0])
                ctx.ob("C16.b", "no match: the statement takes the normal path", bool(ok), "fakesnow/cursor.py")
                if not ok:
                    ctx.violation("C16.b", "cursor", "FakeSnowflakeCursor.execute", "non-matching statement not executed", "fakesnow/cursor.py",
                                  "a statement that does not match any nop_regexes pattern is not executed normally")
    ctx.floor("C16.b matching paths", n_match, 1)
    ctx.floor("C16.b non-matching paths", n_nomatch, 1)
    # an empty list of patterns configures nothing: every statement takes the normal path
    n_empty = 0
    for tr in run_execute(prog, "SELECT", None, nop_regexes=Lst([]), nop_match=False):
        n_empty += 1
        ok = tr.hooks.parsed >= 1 and tr.engine_sql and "SUCCESS_NOP" not in tagof(tr.engine_sql[0])
        ctx.ob("C16.b", "nop_regexes=[]: the statement takes the normal path", bool(ok), "fakesnow/cursor.py")
        if not ok:
            ctx.violation("C16.b", "cursor", "FakeSnowflakeCursor.execute", "empty nop_regexes list no-ops statements", "fakesnow/cursor.py",
                          "with nop_regexes=[] a statement is answered with the success status without being run: an empty list configures no "
                          "pattern (a pattern built by joining the list is the empty regex, which matches everything)")
    ctx.floor("C16.b empty-list paths", n_empty, 1)
    # without the option no pattern is consulted and the statement runs normally
    for tr in run_execute(prog, "SELECT", None, nop_match=False):
        if not tr.hooks.parsed:
            continue
        ok = not tr.hooks.nop_calls and tr.engine_sql
        ctx.ob("C16.b", "without nop_regexes nothing is matched", bool(ok), "fakesnow/cursor.py")


def rule_nop_statement_pristine(ctx):
    """C16.c: the statement the nop path executes is a module-level constant; "matching statements have no effect" needs it
    to stay exactly the one-row status query, so no stage may store through it (C19.c's rule, claimed here for the nop path)."""
    from .c19 import rule_constant_nodes

    rule_constant_nodes(ctx, "C16.c")


def rule_patterns_reusable(ctx):
    """C16.d: the configured patterns are consulted for *every* statement of the connection: what the constructor stores for them
    can be iterated again and again (a list / tuple, or the caller's own object) — not a generator or other one-shot iterator,
    which the first statement exhausts (every later matching statement is then really executed)."""
    from ..connectmodel import ConnectHooks, Point
    from ..values import Gen, OneShot

    prog = ctx.prog
    PAT = Const("^CALL\\s")
    given = Lst([PAT])
    pt = Point(True, "user", True, True, False, False, False)
    n = 0

    def run(I):
        duck = Obj("duck", kind="duck")
        conn = I.construct(ClsRef("fakesnow.conn.FakeSnowflakeConnection"),
                           [duck, Sym("database", typ="str", truthy=True), Sym("schema", typ="str", truthy=True)],
                           {"create_database": Const(True), "create_schema": Const(True), "db_path": Const(None), "nop_regexes": given}, None)
        I.refresh_properties(conn, ("nop_regexes",))
        return conn

    for p in explore(prog, lambda: ConnectHooks(pt), run, max_paths=64):
        conn = p.value
        if p.outcome != "return" or not isinstance(conn, Obj):
            continue
        n += 1
        v = conn.attrs.get("nop_regexes")
        if v is None:  # kept in a record the connection owns
            v = next((w.attrs["nop_regexes"] for w in conn.attrs.values() if isinstance(w, Obj) and w.kind != "duck" and "nop_regexes" in w.attrs), None)
        one_shot = isinstance(v, (Gen, OneShot)) or (isinstance(v, Sym) and v.origin and v.origin[0] == "call" and str(v.origin[1]) in (
            "iter", "map", "filter", "zip", "builtins.iter", "builtins.map", "builtins.filter", "builtins.zip", "itertools.chain"))
        ctx.ob("C16.d", "the connection keeps its nop patterns in something every statement can iterate", not one_shot, "fakesnow/conn.py", tagof(v)[:60] if v is not None else "")
        if one_shot:
            ctx.violation("C16.d", "conn", "FakeSnowflakeConnection.__init__", "nop patterns stored as a one-shot iterator", "fakesnow/conn.py",
                          f"the connection stores its nop_regexes as `{tagof(v)[:60]}` — an iterator that is exhausted by the first statement that "
                          f"walks it: from then on no statement matches any more and statements the user asked to be no-ops are really executed")
        break
    ctx.floor("C16.d constructor paths", n, 1)


RULES = [
    ("C16.d", rule_patterns_reusable, ("quick", "thorough")),
    ("C16.a", rule_execute_string, ("quick", "thorough")),
    ("C16.b", rule_nop, ("quick", "thorough")),
    ("C16.c", rule_nop_statement_pristine, ("quick", "thorough")),
]
