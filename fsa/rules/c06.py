"""C06 — cursor.description matches the result of every executed statement."""

from __future__ import annotations

import ast
import re

from .. import sqlt
from ..execmodel import ExecHooks, R, cset, make_session, sget, sset, sowner, sowners
from ..interp import explore
from ..model import norm
from ..values import Const, Obj, Str, Sym, tagof
from .c04 import rule_last_statement
from .common import all_kinds, find_store_site, is_query, site_loc, sql_root, text_of, traces

EXPLANATION = (
    "description re-runs DESCRIBE <recorded sql> on a throw-away cursor, so for every statement-kind descriptor the "
    "effect traces of _transform -> _execute are checked: the recorded statement must be the one whose rows are "
    "pending (C06.a), a single query that DESCRIBE can wrap (C06.b); reading description must not write to the "
    "cursor, the connection or run on the same fake cursor (C06.c); the DuckDB result types of fakesnow's own "
    "generated statements must lie in the domain of the DuckDB->Snowflake type table (C06.d). Decides the wiring, "
    "not DuckDB's type inference for user expressions."
)
RULE_TEXT = (
    "C06.a = C04.d; C06.b for each kind: _last_sql is a single SELECT/set operation; C06.c effects of the "
    "description getter: no store on self / the connection, DESCRIBE runs on a cursor created by conn.cursor(), "
    "describe() goes through execute, DESCRIBE runs with the recorded parameters and the recorded text is re-parsed in "
    "the DuckDB dialect; C06.d select-list types of own templates subset of duckdb_to_sf_type keys; C06.e regex AST of "
    "the DECIMAL(p,s) pattern captures whole digit runs; C06.f describe_as_rowtype(type name) == oracle (type, "
    "precision, scale, length); C06.g (in C04.d) user parameters recorded only with the user's statement; C06.h "
    "describe() hands positional rows to the conversion whatever the row format."
    " C06.j after a MERGE no later statement of the same execute() drops/replaces a table the recorded statement reads."
)
TRUSTED = ["CPython ast", "DuckDB DESCRIBE accepts exactly one query", "COUNT_IF/SUM yield HUGEINT, COUNT yields BIGINT, integer literals INTEGER"]

# kinds whose root is not a query after the pipeline and that have no status statement: the recorded text is
# the statement itself.  DESCRIBE <query> comes from cursor.describe(), whose result *is* the description.
# Pass-through statements the engine does not know (CALL, GRANT) never "execute successfully" in the fake, so
# they are outside the property's domain.
SKIP_B = {"DESCRIBE query", "CALL (Command)", "GRANT"}


def rule_describable(ctx):
    prog = ctx.prog
    site = find_store_site(prog, "cursor", "FakeSnowflakeCursor._execute", R().last_sql)
    n = 0
    for kind in all_kinds():
        if kind in SKIP_B:
            continue
        for tr in traces(prog, kind):
            if tr.path.outcome != "return":
                continue
            n += 1
            last_sql = sget(tr.cur, "last_sql")
            q = is_query(last_sql)
            ctx.ob("C06.b", f"{kind}: recorded statement is a single query", q, site_loc(prog, "cursor", site), text_of(last_sql)[:80])
            if q is False:
                k, root = sql_root(last_sql)
                what = f"{root.cls} statement" if k == "node" else f"`{text_of(last_sql)[:60]}`"
                ctx.violation(
                    "C06.b", "cursor", "FakeSnowflakeCursor._execute", f"{kind}: _last_sql = {what}",
                    site_loc(prog, "cursor", site),
                    f"after {kind} the text recorded for description is a {what}, not a single query: "
                    f"`DESCRIBE <that>` fails or describes something else, so cursor.description is unavailable/wrong")
    ctx.floor("C06.b traces", n, 40)
    # seeded RANDOM: the seed path prepends a second statement
    from ..execmodel import descriptors, node, lit
    from ..values import Lst, NodeV

    def run(I):
        duck, conn, cur = make_session()
        sel = descriptors()["SELECT"]
        sel.args["seed"] = Const("42/2147483647-0.5")
        return (I.call(I.getattr(cur, "_execute"), [sel, Sym("params")], {}, None), cur)

    hooks = []

    def fac():
        h = ExecHooks(None)
        hooks.append(h)
        return h

    for p in explore(prog, fac, run, max_paths=16):
        if p.outcome != "return":
            continue
        cur = p.value.items[1] if hasattr(p.value, "items") else None
    # (python tuple result is not an abstract value; re-run to reach the cursor)
    sessions = []

    def run2(I):
        duck, conn, cur = make_session()
        sessions.append(cur)
        sel = descriptors()["SELECT"]
        sel.args["seed"] = Const("42/2147483647-0.5")
        return I.call(I.getattr(cur, "_execute"), [sel, Sym("params")], {}, None)

    for p, cur in zip(explore(prog, fac, run2, max_paths=16), sessions):
        if p.outcome != "return":
            continue
        last_sql = sget(cur, "last_sql")
        q = is_query(last_sql)
        ctx.ob("C06.b", "SELECT with seed side-channel: recorded statement is a single query", q,
               site_loc(prog, "cursor", site), text_of(last_sql)[:80])
        if q is False:
            ctx.violation("C06.b", "cursor", "FakeSnowflakeCursor._execute", f"seeded SELECT: _last_sql = {text_of(last_sql)[:80]}",
                          site_loc(prog, "cursor", site),
                          "on the seed path the recorded text is two statements (`SELECT setseed(..); <query>`): "
                          "description after `select random(42)` describes the setseed call, not the query")


def rule_pure(ctx):
    """C06.c: reading description never changes the pending result set, the data or the session."""
    prog = ctx.prog
    ctx.analysed("cursor.FakeSnowflakeCursor.description", "cursor.FakeSnowflakeCursor._describe_last_sql",
                 "conn.FakeSnowflakeConnection.cursor", "cursor.FakeSnowflakeCursor.describe")
    sessions, hooks = [], []

    def fac():
        h = ExecHooks(None)
        hooks.append(h)
        return h

    def run(I):
        duck, conn, cur = make_session()
        sset(cur, "last_sql", Sym("LAST_SQL", typ="str", truthy=True))
        sset(cur, "table", Obj("pending_table", kind="arrow"))
        sset(cur, "index", Sym("pending_index", typ="int"))
        sset(cur, "last_params", Sym("LAST_PARAMS"))
        sessions.append((conn, cur))
        return I.getattr(cur, "description")

    paths = explore(prog, fac, run, max_paths=64)
    fn = prog.fn("cursor", "FakeSnowflakeCursor.description")
    loc = prog.mod("cursor").loc(fn)
    n = 0
    for p, (conn, cur), h in zip(paths, sessions, hooks):
        n += 1
        bad = [e for e in p.effects if e[0] == "store" and any(e[1] is o_ for o_ in (*sowners(cur), conn))]
        ok = not bad
        ctx.ob("C06.c", "description getter stores nothing on the cursor or the connection", ok, loc)
        for e in bad:
            ctx.violation("C06.c", "cursor", "FakeSnowflakeCursor.description", e[4] if len(e) > 4 and e[4] is not None else f"store {e[2]}",
                          site_loc(prog, "cursor", e[4]) if len(e) > 4 else loc,
                          f"reading description writes `{e[1].name}.{e[2]}`: the pending result set / session is changed by a read")
        # the DESCRIBE must run; its text is DESCRIBE <last sql>
        parses = [e for e in p.effects if e[0] == "parse"]
        def whole_recorded_text(v):
            """`DESCRIBE ` + the recorded value itself (possibly through str()): not a slice / split / rewrite of it"""
            parts = getattr(v, "parts", None)
            if parts is None:
                return False
            lits = "".join(x for x in parts if isinstance(x, str)).strip().upper()
            holes = [x for x in parts if not isinstance(x, str)]
            if lits != "DESCRIBE" or len(holes) != 1:
                return False
            h = holes[0]
            while isinstance(h, Sym) and h.origin and h.origin[0] in ("str",) and len(h.origin) > 1:
                h = h.origin[1]
            return isinstance(h, Sym) and h.tag == "LAST_SQL"

        okp = any(whole_recorded_text(e[2]) for e in parses)
        for e in parses:
            if "LAST_SQL" in text_of(e[2]):
                rd = e[3].get("read") if isinstance(e[3], dict) else None
                okr = isinstance(rd, Const) and rd.v == "duckdb"
                ctx.ob("C06.c", "the recorded DuckDB text is re-parsed as DuckDB SQL", okr, loc, tagof(rd))
                if not okr:
                    ctx.violation("C06.c", "cursor", "FakeSnowflakeCursor._describe_last_sql", "recorded text re-parsed in another dialect", loc,
                                  f"the recorded statement is DuckDB SQL (rendered with dialect='duckdb') but is re-parsed with read={tagof(rd)}: "
                                  f"function arguments / subscripts are re-interpreted, so description names differ from the fetched columns")
        ctx.ob("C06.c", "description describes the recorded statement (DESCRIBE <_last_sql>)", okp, loc)
        # the recorded text is the engine's own dialect, already rewritten once: the Snowflake->DuckDB stages are not idempotent on
        # their output (lower-case aliases the package emits are folded again, generated list subscripts become JSON extractions)
        again = sorted({tagof(e[2]).rsplit(".", 1)[-1] for e in p.effects if e[0] == "transform" and "parsed@" in tagof(e[1])})
        ctx.ob("C06.c", "the re-parsed recorded statement reaches the engine without a second pass of the rewrite stages", not again, loc,
               ", ".join(again[:6]))
        if again:
            ctx.violation("C06.c", "cursor", "FakeSnowflakeCursor._describe_last_sql", "recorded DuckDB statement rewritten again before DESCRIBE", loc,
                          f"DESCRIBE <recorded DuckDB SQL> is sent through {len(again)} Snowflake->DuckDB rewrite stages ({', '.join(again[:5])}, ...) "
                          f"a second time: what is described is no longer the statement that ran (the lower-case `status` alias is upper-cased, "
                          f"generated list subscripts turn into JSON extractions), so description names / types differ from the fetched rows")
        if p.outcome == "return" and h.calls:
            prm = h.calls[0][1]
            okprm = isinstance(prm, Sym) and prm.tag == "LAST_PARAMS"
            ctx.ob("C06.c", "DESCRIBE of the recorded statement is run with the recorded bound parameters", okprm, loc, tagof(prm))
            if not okprm:
                ctx.violation("C06.c", "cursor", "FakeSnowflakeCursor._describe_last_sql", "DESCRIBE without the recorded parameters", loc,
                              f"description re-runs DESCRIBE <last sql> with parameters `{tagof(prm)}` instead of the ones the statement was executed "
                              f"with: after a qmark statement with bound values description raises (prepared statement needs N parameters)")
        if p.outcome == "return" and not okp:
            ctx.violation("C06.c", "cursor", "FakeSnowflakeCursor._describe_last_sql", "DESCRIBE text",
                          loc, "description does not describe the recorded statement text")
    ctx.floor("C06.c paths", n, 1)
    # describe(q): goes through execute with DESCRIBE prefix, returns metadata of fetchall
    fnd = prog.fn("cursor", "FakeSnowflakeCursor.describe")
    calls = [c for c in ast.walk(fnd) if isinstance(c, ast.Call) and isinstance(c.func, ast.Attribute)]
    exec_calls = [c for c in calls if c.func.attr == "execute" and isinstance(c.func.value, ast.Name) and c.func.value.id == "self"]
    ok = bool(exec_calls)
    ctx.ob("C06.c", "describe() executes a DESCRIBE of the command", ok, prog.mod("cursor").loc(fnd))
    # describe(q, <params>) binds the caller's parameters however they were passed (positionally or as params=...)
    from ..execmodel import FullHooks
    from ..values import Tup

    n_d = 0
    for how in ("positional", "keyword"):
        PARAMS = Tup([Sym("P1")])
        hooks_d = []

        def fac_d():
            h = FullHooks(None, "SELECT")
            hooks_d.append(h)
            return h

        def run_d(I, how=how, PARAMS=PARAMS):
            duck, conn, cur = make_session()
            cset(conn, R().paramstyle, Const("qmark"))
            cmd = Sym("COMMAND", typ="str", truthy=True)
            if how == "positional":
                return I.call(I.getattr(cur, "describe"), [cmd, PARAMS], {}, None)
            return I.call(I.getattr(cur, "describe"), [cmd], {"params": PARAMS}, None)

        for p, h in zip(explore(prog, fac_d, run_d, max_paths=64), hooks_d):
            if not h.parsed or not h.calls:
                continue
            n_d += 1
            got = h.calls[0][1]
            okp = got is PARAMS
            ctx.ob("C06.c", f"describe(q, params) [{how}]: the DESCRIBE runs with the caller's parameters", okp, prog.mod("cursor").loc(fnd), tagof(got))
            if not okp:
                ctx.violation("C06.c", "cursor", "FakeSnowflakeCursor.describe", f"parameters passed by {how} are not bound", prog.mod("cursor").loc(fnd),
                              f"describe(command, {'params' if how == 'positional' else 'params=params'}) runs its DESCRIBE with `{tagof(got)}` instead of "
                              f"the caller's parameters: a parameterised query cannot be described (the engine refuses the unbound placeholders)")
            break
    ctx.floor("C06.c describe() parameter paths", n_d, 2)
    # describe() leaves the cursor's row format alone, on a failing statement too (rows fetched afterwards still carry the
    # keys `description` names)
    n_f = 0
    for mode in (None, "duckdb.CatalogException"):
        curs = []

        def run_f(I, mode=mode):
            duck, conn, cur = make_session()
            cur.attrs[R().dict_flag] = Const(True)
            curs.append(cur)
            return I.call(I.getattr(cur, "describe"), [Sym("COMMAND", typ="str", truthy=True)], {}, None)

        for p, cur in zip(explore(prog, lambda mode=mode: FullHooks(mode, "SELECT", undefined_var=False), run_f, max_paths=64), curs):
            if mode is not None and p.outcome != "raise":
                continue
            n_f += 1
            flag = cur.attrs.get(R().dict_flag)
            okf = isinstance(flag, Const) and flag.v is True
            ctx.ob("C06.c", f"describe() on a DictCursor ({'failing statement' if mode else 'ok'}): the row format is unchanged afterwards", okf,
                   prog.mod("cursor").loc(fnd), tagof(flag))
            if not okf:
                ctx.violation("C06.c", "cursor", "FakeSnowflakeCursor.describe", f"row format after {'a failing ' if mode else ''}describe()", prog.mod("cursor").loc(fnd),
                              f"after describe() {'of a failing statement ' if mode else ''}on a DictCursor the dict-row flag is `{tagof(flag)}`: the cursor "
                              f"hands out tuples from then on, rows no longer carry the column names of `description`")
            break
    ctx.floor("C06.c describe() row-format paths", n_f, 2)


# ---------------------------------------------------------------------- C06.d
FUNC_TYPES = {"COUNT_IF": "HUGEINT", "SUM": "HUGEINT", "COUNT": "BIGINT", "TO_TIMESTAMP": "TIMESTAMP WITH TIME ZONE",
              "LOWER": "VARCHAR", "UPPER": "VARCHAR", "CONCAT": "VARCHAR", "COALESCE": None, "UNNEST": None}
CAST_TYPES = {"TIMESTAMPTZ": "TIMESTAMP WITH TIME ZONE", "VARCHAR": "VARCHAR", "JSON": "JSON", "TEXT": "VARCHAR",
              "INTEGER": "INTEGER", "INT": "INTEGER", "BIGINT": "BIGINT", "BOOLEAN": "BOOLEAN", "DATE": "DATE"}


def _item_type(item: list) -> str | None:
    """DuckDB result type of one select-list item of fakesnow's own templates (None = not inferable)."""
    toks = list(item)
    # strip alias
    for i, t in enumerate(toks):
        if t.is_kw("AS") and i >= 1:
            toks = toks[:i]
            break
    if not toks:
        return None
    # trailing cast
    for i in range(len(toks) - 1, 0, -1):
        if toks[i - 1].kind == "op" and toks[i - 1].parts == "::" and toks[i].kind == "word":
            return CAST_TYPES.get(toks[i].up)
    t0 = toks[0]
    if len(toks) == 1:
        if t0.kind == "str":
            return "VARCHAR"
        if t0.kind == "word" and t0.text[:1].isdigit():
            return "INTEGER"
        if t0.kind == "word" and t0.holes() and len(t0.parts) == 1:
            return "INTEGER" if "count" in tagof(t0.parts[0]) else None
        if t0.is_kw("NULL"):
            return "INTEGER"
        return None
    if t0.kind == "word" and len(toks) > 1 and toks[1].kind == "op" and toks[1].parts == "(":
        return FUNC_TYPES.get(t0.up)
    if t0.is_kw("CASE"):
        return "VARCHAR" if any(t.kind == "str" for t in toks) else None
    return None


def rule_type_domain(ctx):
    prog = ctx.prog
    m = prog.mod("types")
    dom = None
    if "duckdb_to_sf_type" in m.consts and isinstance(m.consts["duckdb_to_sf_type"], ast.Dict):
        dom = {k.value for k in m.consts["duckdb_to_sf_type"].keys if isinstance(k, ast.Constant)}
    if not dom:
        # the table is computed (derived from a table of records, merged from parts …): evaluate the module constant, or the
        # string-keyed table the type conversion looks the column type up in
        from ..interp import Hooks as _H, Interp as _I
        from ..values import Dct as _D
        I_ = _I(prog, _H(), [])
        cands = ["duckdb_to_sf_type"] + [k for k in m.consts if k != "duckdb_to_sf_type"]
        for nm in cands:
            try:
                v_ = I_.global_lookup("types", nm) if nm in m.consts else None
            except Exception:  # noqa: BLE001
                v_ = None
            if isinstance(v_, _D) and len(v_.items) >= 8 and all(isinstance(k, str) and k.isupper() for k in v_.items):
                dom = set(v_.items)
                break
    if not dom:
        from ..model import AnalysisError
        raise AnalysisError("anchor vanished: types.duckdb_to_sf_type dict")
    ctx.floor("duckdb_to_sf_type entries", len(dom), 10)
    ctx.analysed("types.describe_as_rowtype", "transforms_merge._counts")
    n = 0

    def check(label, sqlval, mod, fn, site):
        nonlocal n
        try:
            stmts = sqlt.split_statements(sqlt.tokenize(sqlval))
        except Exception:  # noqa: BLE001
            return
        for st in stmts:
            if not st or not st[0].is_kw("SELECT"):
                continue
            end = sqlt.find_kw(st, "FROM")
            items, cur, depth = [], [], 0
            for t in st[1:end if end > 0 else len(st)]:
                if t.kind == "op" and t.parts == "(":
                    depth += 1
                if t.kind == "op" and t.parts == ")":
                    depth -= 1
                if depth == 0 and t.kind == "op" and t.parts == ",":
                    items.append(cur)
                    cur = []
                else:
                    cur.append(t)
            if cur:
                items.append(cur)
            for it in items:
                ty = _item_type(it)
                if ty is None:
                    continue
                n += 1
                txt = " ".join(t.text for t in it)[:70]
                ok = ty in dom
                ctx.ob("C06.d", f"{label}: `{txt}` : {ty} in type table", ok, site_loc(prog, mod, site))
                if not ok:
                    ctx.violation("C06.d", mod, fn, f"{label}: {it[0].text} -> {ty}", site_loc(prog, mod, site),
                                  f"the generated statement yields a {ty} column (`{txt}`) which duckdb_to_sf_type does "
                                  f"not map: description after this statement raises NotImplementedError")

    # status / SHOW / DESCRIBE templates reached through the traces
    seen = set()
    for kind in all_kinds():
        for tr in traces(prog, kind):
            if tr.path.outcome != "return":
                continue
            last_sql = sget(tr.cur, "last_sql")
            k, root = sql_root(last_sql)
            src = None
            if k == "text":
                src = last_sql
            elif k == "node" and getattr(root, "parsed_from", None) is not None:
                src = root.parsed_from
            if src is None:
                continue
            key = text_of(src)
            if key in seen:
                continue
            seen.add(key)
            check(kind, src, "cursor", "FakeSnowflakeCursor._execute", tr.hooks.calls[-1][2])
    # MERGE counts statement
    from ..execmodel import node, table, var
    from ..interp import Hooks
    from ..values import Lst, NodeV

    def run(I):
        mexp = node("Merge", "merge", this=table("TGT"), using=table("SRC"),
                    on=node("EQ", this=node("Column", this=NodeV("Identifier", {"this": Const("ID")}, open=False)),
                            expression=node("Column", this=NodeV("Identifier", {"this": Const("ID")}, open=False))),
                    expressions=Lst([
                        node("When", matched=Const(True), then=node("Update", expressions=Lst([]))),
                        node("When", matched=Const(True), then=node("Var", this=Const("DELETE"))),
                        node("When", matched=Const(False), then=node("Insert", this=Const(None), expression=node("Tuple", expressions=Lst([])))),
                    ]))
        from .c12 import call_part
        return call_part(prog, I, "_counts", mexp)

    for p in explore(prog, Hooks, run, max_paths=16):
        for e in p.effects:
            if e[0] == "parse":
                check("MERGE counts", e[2], "transforms_merge", "_counts", e[4])
    ctx.floor("C06.d typed select items", n, 20)


def rule_precision_pattern(ctx):
    """C06.e: the pattern that reads precision and scale out of DECIMAL(p,s) captures whole digit runs."""
    import re._parser as sre_parse  # type: ignore[import-not-found]

    prog = ctx.prog
    m = prog.mod("types")
    n = 0
    # every `re.<fn>("<pattern>", …)` of the module, inside functions or at module level (a pattern compiled once)
    seen_calls = set()
    for qual, fn in [*m.functions.items(), ("<module>", m.tree)]:
        for c in ast.walk(fn):
            if not (isinstance(c, ast.Call) and isinstance(c.func, ast.Attribute) and isinstance(c.func.value, ast.Name) and c.func.value.id == "re"
                    and c.args and isinstance(c.args[0], ast.Constant) and isinstance(c.args[0].value, str)) or id(c) in seen_calls:
                continue
            seen_calls.add(id(c))
            pat = c.args[0].value
            try:
                parsed = sre_parse.parse(pat)
            except Exception:  # noqa: BLE001
                continue
            groups = [av for op, av in parsed if str(op) == "SUBPATTERN"]
            if parsed.state.groups - 1 < 2:
                continue
            n += 1
            bad = []
            for gi, g in enumerate(groups, 1):
                inner = list(g[3])
                whole = len(inner) == 1 and str(inner[0][0]) == "MAX_REPEAT" and inner[0][1][1] > 9 and any(
                    "CATEGORY_DIGIT" in str(x) for x in inner[0][1][2])
                if not whole:
                    bad.append(gi)
            # a repeat applied to a capture group keeps only the last repetition
            rep_groups = [1 for op, av in parsed if str(op) == "MAX_REPEAT" and any(str(o2) == "SUBPATTERN" for o2, _ in av[2])]
            ok = not bad and not rep_groups
            ctx.ob("C06.e", f"{qual}: precision/scale pattern `{pat}` captures whole digit runs", ok, m.loc(c))
            if not ok:
                ctx.violation("C06.e", "types", qual, c, m.loc(c),
                              f"the pattern `{pat}` that extracts precision and scale from DuckDB's DECIMAL(p,s) does not capture the whole "
                              f"digit run in each group: NUMBER(20,10) is reported with a wrong precision/scale in description while the "
                              f"fetched Decimals have the real one")
    ctx.floor("precision/scale patterns", n, 1)


def rule_describe_dict_cursor(ctx):
    """C06.h: describe(q) hands positional rows to the metadata conversion whatever the cursor's row format."""
    from ..execmodel import FullHooks

    prog = ctx.prog
    fn = prog.fn("cursor", "FakeSnowflakeCursor.describe")
    loc = prog.mod("cursor").loc(fn)

    class H(FullHooks):
        def __init__(self):
            super().__init__(None, "DESCRIBE query", False)
            self.meta_arg = None

        def intercept(self, I, key, args, kwargs, site, f=None):
            if key.startswith("types.describe_as_"):
                self.meta_arg = args[0] if args else None
                return Sym("METADATA")
            return NotImplemented

    for dict_flag in (False, True):
        hooks = []

        def fac():
            h = H()
            hooks.append(h)
            return h

        def run(I, dict_flag=dict_flag):
            duck, conn, cur = make_session()
            cur.attrs[R().dict_flag] = Const(dict_flag)
            return I.call(I.getattr(cur, "describe"), [Sym("QUERY", typ="str", truthy=True)], {}, None)

        for p, h in zip(explore(prog, fac, run, max_paths=32), hooks):
            if p.outcome != "return" or h.meta_arg is None:
                continue
            v = h.meta_arg
            raw_dicts = isinstance(v, Sym) and v.origin and v.origin[0] == "method" and v.origin[2] == "to_pylist" and "column" not in tagof(v.origin[1])
            ctx.ob("C06.h", f"describe() on a {'dict' if dict_flag else 'tuple'} cursor passes positional rows to the metadata conversion", not raw_dicts, loc, tagof(v)[:70])
            if raw_dicts:
                ctx.violation("C06.h", "cursor", "FakeSnowflakeCursor.describe", "dict rows passed to the metadata conversion", loc,
                              "with a DictCursor describe() passes name-keyed dict rows to the conversion that unpacks positional DESCRIBE rows: "
                              "describe() raises NotImplementedError instead of returning what description returns")
            break


TYPE_ORACLE = {
    # DuckDB type reported by DESCRIBE -> (snowflake type, precision, scale, length) the connector documents for it
    "BIGINT": ("fixed", 38, 0, None), "INTEGER": ("fixed", 38, 0, None), "DOUBLE": ("real", None, None, None),
    "VARCHAR": ("text", None, None, 16777216), "BOOLEAN": ("boolean", None, None, None), "DATE": ("date", None, None, None),
    "TIME": ("time", 0, 9, None), "TIMESTAMP": ("timestamp_ntz", 0, 9, None), "TIMESTAMP_NS": ("timestamp_ntz", 0, 9, None),
    "TIMESTAMP WITH TIME ZONE": ("timestamp_tz", 0, 9, None), "BLOB": ("binary", None, None, 8388608), "JSON": ("variant", None, None, None),
    # DuckDB's SUM over an integer column (and COUNT_IF) is a 128-bit integer; Snowflake's is NUMBER(38,0)
    "HUGEINT": ("fixed", 38, 0, None),
    # HASH(x) is an unsigned 64-bit integer in DuckDB (NUMBER(19,0) in Snowflake), UUID_STRING() a UUID (VARCHAR in Snowflake)
    "UBIGINT": ("fixed", 38, 0, None), "UUID": ("text", None, None, 16777216),
}


def rule_type_table(ctx):
    """C06.f: describe_as_rowtype interpreted on each DuckDB type name: Snowflake type, precision, scale and length."""
    from ..interp import Hooks
    from ..values import Dct, Lst, Tup

    prog = ctx.prog
    m = prog.mod("types")
    fn = prog.fn("types", "describe_as_rowtype")
    loc = m.loc(fn)
    n = 0

    def val(v):
        return v.v if isinstance(v, Const) else tagof(v)

    for duck, (sf, prec, scale, length) in TYPE_ORACLE.items():
        def run(I, duck=duck):
            rows = Lst([Tup([Const("C"), Const(duck), Const("YES"), Const(None), Const(None), Const(None)])])
            return I.call(I.global_lookup("types", "describe_as_rowtype"), [rows], {}, None)
        for p in explore(prog, Hooks, run, max_paths=8):
            n += 1
            info = p.value.items[0] if p.outcome == "return" and isinstance(p.value, Lst) and p.value.items and isinstance(p.value.items[0], Dct) else None
            got = (val(info.items.get("type")), val(info.items.get("precision")), val(info.items.get("scale")), val(info.items.get("length"))) if info else None
            ok = got == (sf, prec, scale, length) and (info is None or val(info.items.get("byteLength")) == length)  # the connector reports both lengths
            ctx.ob("C06.f", f"DuckDB {duck} -> ({sf}, precision {prec}, scale {scale}, length {length})", ok, loc, str(got))
            if not ok:
                what = f"is described as {got}" if got else f"raises {p.value.cls if p.outcome == 'raise' else '?'}"
                ctx.violation("C06.f", "types", "describe_as_rowtype", f"{duck} -> {got}", loc,
                              f"a result column of DuckDB type {duck} {what}; the connector's metadata for the matching Snowflake type is "
                              f"({sf}, precision {prec}, scale {scale}, length {length}) — description disagrees with the fetched values")
            break
    # DECIMAL(p,s): precision from the first group, scale from the second
    def run_dec(I):
        rows = Lst([Tup([Const("C"), Const("DECIMAL(20,10)"), Const("YES"), Const(None), Const(None), Const(None)])])
        return I.call(I.global_lookup("types", "describe_as_rowtype"), [rows], {}, None)
    for p in explore(prog, Hooks, run_dec, max_paths=8):
        matched = any("re." in t and v for t, v in p.assumed)
        if not matched or p.outcome != "return":
            continue
        n += 1
        info = p.value.items[0]
        pr, sc, ty = tagof(info.items.get("precision")), tagof(info.items.get("scale")), val(info.items.get("type"))
        ok = ty == "fixed" and pr.startswith("int(") and "[1]" in pr and sc.startswith("int(") and "[2]" in sc
        ctx.ob("C06.f", "DECIMAL(p,s) -> fixed with precision = group 1, scale = group 2 of the pattern", ok, loc, f"{ty} {pr} {sc}")
        if not ok:
            ctx.violation("C06.f", "types", "describe_as_rowtype", "DECIMAL(p,s) precision/scale wiring", loc,
                          f"for DECIMAL(p,s) description reports type {ty}, precision `{pr}`, scale `{sc}`: precision must be the first and scale "
                          f"the second number of DuckDB's type text")
    ctx.floor("C06.f type table rows evaluated", n, 12)


def rule_recorded_statement_still_valid(ctx):
    """C06.j: what the recorded statement reads still exists when execute() returns: after a MERGE the statement recorded for
    `description` is the counts query over the helper table, so nothing executed after it may drop (or replace) that table."""
    from ..execmodel import make_session
    from ..roles import roles
    from .c12 import MergeHooks
    from .common import sql_root

    prog = ctx.prog
    r = roles(prog)
    hooks, sessions = [], []

    def fac():
        h = MergeHooks(None, "SELECT")
        hooks.append(h)
        return h

    def run(I):
        duck, conn, cur = make_session()
        sessions.append(cur)
        return I.call(I.getattr(cur, "execute"), [Sym("MERGE_COMMAND", typ="str", truthy=True), Const(None)], {}, None)

    n = 0
    for p, h, cur in zip(explore(prog, fac, run, max_paths=64), hooks, sessions):
        if not h.parsed or p.outcome != "return":
            continue
        last = sget(cur, "last_sql")
        k0, root0 = sql_root(last) if last is not None else ("?", None)
        src0 = getattr(root0, "parsed_from", None) if k0 == "node" else None
        last_txt = " ".join((text_of(src0) if src0 is not None else text_of(last)).split()) if last is not None else ""
        reads = set(re.findall(r"\b(?:FROM|JOIN)\s+([A-Za-z_][A-Za-z_0-9.]*)", last_txt, re.I))
        if not reads:
            continue
        n += 1
        # position of the engine call that executed the recorded statement
        texts = []
        for sqlv, _, site in h.calls:
            k, root = sql_root(sqlv)
            src = getattr(root, "parsed_from", None) if k == "node" else None
            texts.append((" ".join((text_of(src) if src is not None else text_of(sqlv)).split()), site))
        pos = max((i for i, (t, _) in enumerate(texts) if t == last_txt), default=-1)
        killers = [(t, site) for t, site in texts[pos + 1:] if re.match(r"(DROP|ALTER|TRUNCATE|CREATE\s+OR\s+REPLACE)\b", t, re.I)
                   and any(re.search(r"\b" + re.escape(x.split(".")[-1]) + r"\b", t, re.I) for x in reads)]
        ctx.ob("C06.j", f"MERGE: the tables the recorded statement reads ({sorted(reads)}) are still there when execute() returns", not killers,
               "fakesnow/cursor.py", killers[0][0][:60] if killers else "")
        for t, site in killers[:1]:
            ctx.violation("C06.j", "cursor", "FakeSnowflakeCursor.execute", f"`{t[:50]}` after the recorded statement", f"fakesnow/cursor.py:{getattr(site, 'lineno', 0)}",
                          f"after a MERGE the statement recorded for cursor.description is `{last_txt[:70]}…`, but `{t[:60]}` runs after it: describing the "
                          f"recorded statement fails (2003, table does not exist) although rows and rowcount are fine")
    ctx.floor("C06.j MERGE execute paths", n, 1)


def rule_cells_as_converted(ctx):
    """C06.k: description is derived from the statement's column types, so the Python type of a fetched cell may depend on its
    column only: no fetch path passes a cell through a scalar conversion (int / float / str / Decimal …) that a test on the cell's
    own *value* selected (4.00 of a NUMBER(10,2) column coming back as int while description says scale 2)."""
    from .c05 import _prov_nodes, _run, _table

    prog = ctx.prog
    fn = prog.fn("cursor", "FakeSnowflakeCursor.fetchmany")
    loc = prog.mod("cursor").loc(fn)
    n = 0
    CONV = {"int", "float", "str", "bool", "round", "Decimal", "decimal.Decimal", "builtins.int", "builtins.float", "builtins.str", "builtins.bool"}
    for dict_result in (False, True):
        for (p, cur) in _run(prog, "fetchmany", [Sym("SIZE", typ="int", truthy=True)], _table, Const(None), dict_result=dict_result):
            if p.outcome != "return":
                continue
            n += 1
            conv = next((x for x in _prov_nodes(p.value) if isinstance(x, Sym) and x.origin and x.origin[0] == "call" and str(x.origin[1]) in CONV
                         and any("to_pylist" in tagof(a) for a in x.origin[2])), None)
            tested = [t for t, _v in p.assumed if "to_pylist" in t]
            bad = conv is not None and bool(tested)
            kind = "dict" if dict_result else "tuple"
            ctx.ob("C06.k", f"fetchmany ({kind} cursor): cells keep the Python type their column's conversion gave them", not bad, loc,
                   "" if not bad else f"{tagof(conv)[:50]} under {tested[0][:50]}")
            if bad:
                ctx.violation("C06.k", "cursor", "FakeSnowflakeCursor.fetchmany", f"{kind} cells converted by a test on their value", loc,
                              f"a fetched cell is returned as `{tagof(conv)[:70]}` on the paths where `{tested[0][:70]}` holds: the Python type of "
                              f"a value then depends on the value (4.00 -> int, 4.50 -> Decimal in one NUMBER(10,2) column), which no description "
                              f"derived from the column type can match")
    ctx.floor("C06.k fetchmany paths", n, 2)


RULES = [
    ("C06.k", rule_cells_as_converted, ("quick", "thorough")),
    ("C06.j", rule_recorded_statement_still_valid, ("quick", "thorough")),
    ("C06.f", rule_type_table, ("quick", "thorough")),
    ("C06.h", rule_describe_dict_cursor, ("quick", "thorough")),
    ("C06.e", rule_precision_pattern, ("quick", "thorough")),
    ("C06.a", rule_last_statement, ("quick", "thorough")),
    ("C06.b", rule_describable, ("quick", "thorough")),
    ("C06.c", rule_pure, ("quick", "thorough")),
    ("C06.d", rule_type_domain, ("quick", "thorough")),
]
