"""C04 — DML counts and status rows."""

from __future__ import annotations

from ..interp import Hooks, explore
from ..model import norm
from ..values import ClsRef, Const, NodeV, Str, Sym, tagof
from ..execmodel import R, cset, sget, sset, sowner, sowners
from .common import all_kinds, find_store_site, same_val, site_loc, sql_root, text_of, traces

EXPLANATION = (
    "Effect traces of the statement path (_transform -> _execute), one per feasible path, for every statement-kind "
    "descriptor: the value stored as rowcount must be the engine's affected-row count itself (never routed through "
    "a truthiness test, because 0 is a meaningful count); the status statement executed last must be the template "
    "of the same operation with that count / the folded object name in its hole; the command key is "
    "spelling-independent; the statement whose result set is collected is the one recorded for description. "
    "Decides the wiring of counts and status rows, not which rows DuckDB changes."
)
RULE_TEXT = (
    "C04.a rowcount == engine count (identity of the abstract value) for INSERT/UPDATE/DELETE; C04.b status "
    "template matches the operation and its hole is the engine count / folded identifier; C04.c key_command "
    "upper-cases every component; C04.d last executed statement == statement recorded as _last_sql."
    " C04.f every by-name lookup in a catalog-wide DuckDB system view carries a database conjunct."
    " C04.g rowcount after executemany(DML) is built from engine counts, not from num_rows of the status results."
)
TRUSTED = ["CPython ast", "DuckDB returns one row (count) for INSERT/UPDATE/DELETE", "statement descriptors mirror the pinned Snowflake parser"]

DML = {"INSERT": "inserted", "UPDATE": "updated", "DELETE": "deleted", "CREATE USER (Command)": "inserted"}
DDL_STATUS = {
    "CREATE TABLE": ("Table ", " successfully created.", "T"),
    "CREATE TABLE varchar+comment": ("Table ", " successfully created.", "T"),
    "CREATE TABLE AS": ("Table ", " successfully created.", "T"),
    "CREATE TABLE props no comment": ("Table ", " successfully created.", "T"),
    "CREATE TABLE CLONE": ("Table ", " successfully created.", "T2"),
    "CREATE VIEW": ("View ", " successfully created.", "V"),
    "CREATE SCHEMA": ("Schema ", " successfully created.", "S"),
    "CREATE DATABASE": ("Database ", " successfully created.", "D"),
    "DROP TABLE": ("", " successfully dropped.", "T"),
    "DROP VIEW": ("", " successfully dropped.", "V"),
    "DROP SCHEMA": ("", " successfully dropped.", "S"),
    "DROP DATABASE": ("", " successfully dropped.", "D"),
    "ALTER TABLE ADD COLUMN": ("Statement executed successfully.", "", None),
    "ALTER TABLE RENAME": ("Statement executed successfully.", "", None),
    "ALTER VIEW RENAME": ("Statement executed successfully.", "", None),
}


def _count_sym(v) -> bool:
    return isinstance(v, Sym) and v.origin is not None and v.origin[0] == "engine_count"


def _mentions_count(v) -> bool:
    if _count_sym(v):
        return True
    if isinstance(v, Sym) and v.origin:
        for x in v.origin[1:]:
            xs = x if isinstance(x, (list, tuple)) else [x]
            if any(_mentions_count(y) for y in xs if isinstance(y, (Sym, Str))):
                return True
    return False


def rule_count(ctx):
    prog = ctx.prog
    ctx.analysed("cursor.FakeSnowflakeCursor._execute", "cursor.FakeSnowflakeCursor._transform", "cursor.FakeSnowflakeCursor.rowcount")
    site = find_store_site(prog, "cursor", "FakeSnowflakeCursor._execute", R().rowcount)
    n = 0
    for kind in DML:
        for tr in traces(prog, kind):
            if tr.path.outcome != "return":
                continue
            n += 1
            rc = sget(tr.cur, "rowcount")
            pub = tr.public_rowcount
            ok = _count_sym(rc) and rc.origin[1] == 1
            ctx.ob("C04.a", f"{kind}: rowcount is the engine's affected count", ok, site_loc(prog, "cursor", site), tagof(rc))
            if not ok:
                if isinstance(rc, Sym) and rc.origin and rc.origin[0] == "boolop" and _mentions_count(rc):
                    msg = (f"after {kind} the affected-row count decides the rowcount through a truthiness test "
                           f"(`{tagof(rc)}`): a statement that affects 0 rows reports the number of status rows (1) instead of 0")
                else:
                    msg = f"after {kind} rowcount is `{tagof(rc)}`, not the engine's affected-row count"
                ctx.violation("C04.a", "cursor", "FakeSnowflakeCursor._execute", site, site_loc(prog, "cursor", site), msg)
            ok2 = pub is not None and rc is not None and same_val(pub, rc)
            ctx.ob("C04.a", f"{kind}: public rowcount returns the stored count", ok2, "fakesnow/cursor.py")
            if not ok2:
                ctx.violation("C04.a", "cursor", "FakeSnowflakeCursor.rowcount", "rowcount property",
                              "fakesnow/cursor.py", f"cursor.rowcount returns `{tagof(pub)}` but _execute stored `{tagof(rc)}`")
    # queries: rowcount is the number of rows of the collected result
    for kind in ("SELECT", "SHOW TABLES", "UNION"):
        for tr in traces(prog, kind):
            if tr.path.outcome != "return":
                continue
            n += 1
            rc = sget(tr.cur, "rowcount")
            tab = sget(tr.cur, "table")
            ok = isinstance(rc, Sym) and tab is not None and getattr(tab, "attrs", {}).get("num_rows") is rc
            ctx.ob("C04.a", f"{kind}: rowcount is the number of result rows", ok, site_loc(prog, "cursor", site), tagof(rc))
            if not ok:
                ctx.violation("C04.a", "cursor", "FakeSnowflakeCursor._execute", site, site_loc(prog, "cursor", site),
                              f"after {kind} rowcount is `{tagof(rc)}`, not the row count of the collected result")
    ctx.floor("C04.a traces", n, 6)


def rule_status(ctx):
    prog = ctx.prog
    n = 0
    for kind, word in DML.items():
        for tr in traces(prog, kind):
            if tr.path.outcome != "return":
                continue
            n += 1
            sqls = tr.engine_sql
            last = sqls[-1]
            txt = text_of(last)
            holes = last.holes() if isinstance(last, Str) else []
            ok = (len(sqls) == 2 and f"number of rows {word}" in txt and len(holes) == 1 and _count_sym(holes[0])
                  and holes[0].origin[1] == 1 and not any(w in txt for w in set(DML.values()) - {word}
                                                          if f"rows {w}'" in txt and w != word))
            site = tr.hooks.calls[-1][2]
            ctx.ob("C04.b", f"{kind}: status row is `number of rows {word}` with the engine count", ok,
                   site_loc(prog, "cursor", site), txt[:90])
            if not ok:
                ctx.violation("C04.b", "cursor", "FakeSnowflakeCursor._execute", f"{kind}: {txt[:120]}",
                              site_loc(prog, "cursor", site),
                              f"the status statement after {kind} is `{txt[:100]}`; expected the `number of rows {word}` "
                              f"template filled with the count read from the engine right after the statement")
    for kind, (pre, post, nm) in DDL_STATUS.items():
        for tr in traces(prog, kind):
            if tr.path.outcome != "return":
                continue
            n += 1
            last = tr.engine_sql[-1]
            txt = text_of(last)
            site = tr.hooks.calls[-1][2]
            if nm is None:
                ok = pre in txt and txt.strip().upper().startswith("SELECT")
                want = pre
            else:
                want = f"{pre}{{{nm}}}{post}"
                holes = last.holes() if isinstance(last, Str) else []
                folded = bool(holes) and all(_is_folded_name(h, nm) for h in holes)
                ok = want in txt and folded
            ctx.ob("C04.b", f"{kind}: status message `{want}`", ok, site_loc(prog, "cursor", site), txt[:90])
            if not ok:
                ctx.violation("C04.b", "cursor", "FakeSnowflakeCursor._execute", f"{kind}: {txt[:120]}",
                              site_loc(prog, "cursor", site),
                              f"after {kind} the status statement is `{txt[:100]}`; Snowflake reports `{want}` with the "
                              f"object's (upper-cased if unquoted) name")
    ctx.floor("C04.b traces", n, 15)


def _is_folded_name(h, nm) -> bool:
    """hole is the abstract name `nm`, possibly through .upper() (unquoted) or verbatim (quoted branch)."""
    t = tagof(h)
    return t in (nm, f"upper({nm})")


def rule_keycmd(ctx):
    """C04.c: every component of the command key is upper-cased."""
    from ..execmodel import node, table, var

    prog = ctx.prog
    ctx.analysed("expr.key_command")
    cases = {
        "kind str lower": (node("Describe", "stmt", kind=Const("table"), this=table("T")), "DESCRIBE TABLE"),
        "kind Var lower": (node("Use", "stmt", kind=var("database"), this=table("D")), "USE DATABASE"),
        "Command.this lower": (node("Command", "stmt", this=Const("set"), expression=Const("x")), "SET"),
        "plain": (node("Select", "stmt"), "SELECT"),
        "kind str mixed": (node("Create", "stmt", kind=Const("Schema"), this=table(None, "S")), "CREATE SCHEMA"),
    }
    fnode = prog.fn("expr", "key_command")
    for name, (desc, want) in cases.items():
        def run(I, desc=desc):
            f = I.global_lookup("expr", "key_command")
            return I.call(f, [desc], {}, None)
        paths = explore(prog, Hooks, run, max_paths=16)
        for p in paths:
            v = p.value
            ok = p.outcome == "return" and isinstance(v, Const) and v.v == want
            ctx.ob("C04.c", f"key_command({name}) == {want!r}", ok, prog.mod("expr").loc(fnode), tagof(v))
            if not ok:
                ctx.violation("C04.c", "expr", "key_command", f"{name} -> {tagof(v)}", prog.mod("expr").loc(fnode),
                              f"key_command yields `{tagof(v)}` for a statement with {name}; the ladder in _execute compares "
                              f"against {want!r}, so a lower-case spelling takes another branch")


def rule_last_statement(ctx):
    """C04.d / C06.a: the statement whose result is collected is the one recorded as _last_sql."""
    prog = ctx.prog
    n = 0
    site = find_store_site(prog, "cursor", "FakeSnowflakeCursor._execute", R().last_sql)
    for kind in all_kinds():
        for tr in traces(prog, kind):
            if tr.path.outcome != "return" or not tr.engine_sql:
                continue
            n += 1
            last_exec = tr.engine_sql[-1]
            last_sql = sget(tr.cur, "last_sql")
            tab = sget(tr.cur, "table")
            fetched_after = getattr(tab, "attrs", {}).get("of_call")
            ok_fetch = isinstance(fetched_after, Const) and fetched_after.v == len(tr.engine_sql) - 1
            lp = sget(tr.cur, "last_params")
            # recorded statement is not the user's statement => it is one fakesnow generated (status / DESCRIBE rewrite): no placeholders
            recorded_is_status = not same_val(last_sql, tr.engine_sql[0]) if last_sql is not None else False
            ok_params = (isinstance(lp, Const) and lp.v is None) if recorded_is_status else (isinstance(lp, Sym) and lp.tag == "params")
            if not ok_params and last_sql is not None and same_val(last_exec, last_sql) and ok_fetch:
                ctx.ob("C06.g", f"{kind}: parameters recorded for description fit the recorded statement", False, site_loc(prog, "cursor", site), tagof(lp))
                ctx.violation("C06.g", "cursor", "FakeSnowflakeCursor._execute", f"{kind}: recorded parameters {tagof(lp)[:30]} for a "
                              f"{'status statement' if recorded_is_status else 'user statement'}", site_loc(prog, "cursor", site),
                              f"after {kind} the statement recorded for description is "
                              f"{'the status statement (no placeholders)' if recorded_is_status else 'the user statement'} but the recorded parameters are "
                              f"`{tagof(lp)}`: with qmark binding description raises (prepared statement needs N parameters)")
                continue
            ok = last_sql is not None and same_val(last_exec, last_sql) and ok_fetch and ok_params
            ctx.ob("C04.d", f"{kind}: collected result belongs to the statement recorded as _last_sql", ok,
                   site_loc(prog, "cursor", site), f"last executed `{text_of(last_exec)[:60]}` vs recorded `{text_of(last_sql)[:60]}`")
            if not ok:
                lsite = tr.hooks.calls[-1][2]
                ctx.violation(
                    "C04.d", "cursor", "FakeSnowflakeCursor._execute",
                    f"{kind}: last engine statement {norm(lsite)[:120]}", site_loc(prog, "cursor", lsite),
                    f"for {kind} the rows handed to fetch*() come from `{text_of(last_exec).strip()[:80]}` but "
                    f"description/_last_sql describe `{text_of(last_sql)[:60]}` (a bookkeeping statement runs after the "
                    f"user statement with no status statement following)")
    ctx.floor("C04.d traces", n, 40)


def rule_count_survives_reads(ctx):
    """C04.h: cursor.rowcount keeps the affected-row count of the last statement whatever is read in between: evaluating
    `description` (which runs a DESCRIBE), `sfqid`, `sqlstate` or the fetch methods leaves the rowcount attribute as it was."""
    from ..execmodel import ExecHooks, make_session
    from ..values import Obj

    prog = ctx.prog
    loc = "fakesnow/cursor.py"
    n = 0
    for reader, call in (("description", False), ("sqlstate", False), ("fetchall", True), ("fetchone", True), ("fetchmany", True)):
        if not prog.has_fn("cursor", f"FakeSnowflakeCursor.{reader}"):
            continue
        sessions = []

        def run(I, reader=reader, call=call):
            duck, conn, cur = make_session()
            sset(cur, "last_sql", Sym("LAST_SQL", typ="str", truthy=True))
            sset(cur, "table", Obj("pending_table", kind="arrow"))
            sset(cur, "index", Sym("pending_index", typ="int"))
            sset(cur, "last_params", Sym("LAST_PARAMS"))
            sset(cur, "rowcount", Sym("DML_ROWCOUNT", typ="int"))
            sessions.append(cur)
            v = I.getattr(cur, reader)
            return I.call(v, [], {}, None) if call else v

        for p, cur in zip(explore(prog, lambda: ExecHooks(None), run, max_paths=64), sessions):
            n += 1
            rc = sget(cur, "rowcount")
            ok = isinstance(rc, Sym) and rc.tag == "DML_ROWCOUNT"
            ctx.ob("C04.h", f"rowcount is unchanged by reading cursor.{reader}", ok, loc, tagof(rc))
            if not ok:
                ctx.violation("C04.h", "cursor", f"FakeSnowflakeCursor.{reader}", f"rowcount after {reader}", loc,
                              f"after `cursor.{reader}` the rowcount attribute is `{tagof(rc)}` instead of the affected-row count the last "
                              f"statement left: a caller that looks at the result's shape before the count reads a wrong number of rows")
    ctx.floor("C04.h reader paths", n, 5)


def rule_dml_not_split(ctx):
    """C04.l: one DML statement is one engine statement whose affected-row count is the count reported: only MERGE is exploded.
    An INSERT … VALUES with a list of unknown (arbitrarily long) length goes through the explode step as itself, on every path."""
    from ..execmodel import ExecHooks, lit, make_session, node, table
    from ..values import Lst

    prog = ctx.prog
    if not prog.has_fn("cursor", "FakeSnowflakeCursor._transform_explode"):
        ctx.note("no explode step")
        return
    n = 0
    stmts = []

    def run(I):
        duck, conn, cur = make_session()
        rows = Lst([node("Tuple", "row", expressions=Lst([lit("1", False)]))], open=True)  # any number of rows
        st = node("Insert", "stmt", this=table("T"), expression=node("Values", "values", expressions=rows))
        stmts.append(st)
        return I.force(I.call(I.getattr(cur, "_transform_explode"), [st], {}, None))

    for p, st in zip(explore(prog, lambda: ExecHooks(None), run, max_paths=32), stmts):
        if p.outcome != "return":
            continue
        n += 1
        v = p.value
        ok = isinstance(v, Lst) and not v.open and len(v.items) == 1 and (v.items[0] is st or getattr(v.items[0], "copy_of", None) is st)
        ctx.ob("C04.l", "INSERT … VALUES of any length stays one statement", ok, "fakesnow/cursor.py", tagof(v)[:80])
        if not ok:
            ctx.violation("C04.l", "cursor", "FakeSnowflakeCursor._transform_explode", "INSERT split into several statements", "fakesnow/cursor.py",
                          f"on a path decided by {[t for t, _ in p.assumed][-2:]} a single INSERT … VALUES is carried out as `{tagof(v)[:80]}`: "
                          f"the status row and cursor.rowcount are those of the last part only (and the statement is no longer atomic)")
    ctx.floor("C04.l explode paths", n, 1)


def rule_exists_clause_kept(ctx):
    """C04.k: IF EXISTS / IF NOT EXISTS of the user's DDL reaches the engine: without it the no-op case (dropping what is not
    there, creating what is) raises instead of returning the status message."""
    prog = ctx.prog
    n = 0
    for kind in all_kinds():
        d = None
        try:
            from ..execmodel import descriptor
            d = descriptor(kind)
        except Exception:  # noqa: BLE001
            continue
        if not (isinstance(d, NodeV) and d.cls in ("Create", "Drop") and isinstance(d.args.get("exists"), Const) and d.args["exists"].v is True):
            continue
        for tr in traces(prog, kind):
            t = tr.transformed
            if not isinstance(t, NodeV):
                continue
            n += 1
            if t.cls in ("Create", "Drop"):
                ex = t.args.get("exists")
                ok = isinstance(ex, Const) and ex.v is True
                shown = tagof(ex)
            else:
                parts_ = []
                for x in t.args.values():
                    while isinstance(x, NodeV) and isinstance(x.args.get("this"), (NodeV, Str, Const)):
                        x = x.args["this"]  # Command(expression=Literal(this=<text>))
                    if isinstance(x, (Str, Const)):
                        parts_.append(text_of(x))
                txt = " ".join(parts_)
                ok = "IF NOT EXISTS" in txt.upper() or "IF EXISTS" in txt.upper() or t.cls not in ("Command",)
                shown = txt[:60]
            ctx.ob("C04.k", f"{kind}: the IF [NOT] EXISTS clause survives the rewrite pipeline", ok, "fakesnow/transforms.py", shown)
            if not ok:
                ctx.violation("C04.k", "cursor", "FakeSnowflakeCursor._transform", f"{kind}: IF [NOT] EXISTS lost", "fakesnow/transforms.py",
                              f"the statement generated for `{kind}` no longer has its IF [NOT] EXISTS clause: in the no-op case (the object is "
                              f"already gone / already there) the engine raises instead of the statement returning its status message")
            break
    ctx.floor("C04.k statements with an existence clause", n, 3)


from .c08 import rule_executemany_client_side  # noqa: E402  (under pyformat too every parameter set is bound into the whole command: one DML statement, one count, per set)
from .c08 import rule_executemany  # noqa: E402  (every row of an executemany batch is executed: a batch read twice is empty the second time)
from .c05 import rule_reset  # noqa: E402  (after a failed statement rowcount is None, not the previous statement's count)
from .c16 import rule_nop  # noqa: E402  (a statement wrongly no-op'd changes no rows and reports no count)

def rule_lookups_scoped(ctx):
    """C04.f / C03.g: what a statement reports (and what context it resolves) rests on lookups in the right database: every
    by-name lookup fakesnow sends to one of DuckDB's catalog-wide system views carries a conjunct on the database — otherwise a
    same-named object of another attached database answers ("T already exists" for a table that was just created)."""
    from .common import unscoped_lookups

    bad, n = unscoped_lookups(ctx.prog)
    seen = set()
    for kind, txt, site in bad:
        if txt in seen:
            continue
        seen.add(txt)
        ctx.ob("C04.f", f"{kind}: by-name lookup in a catalog-wide system view is scoped to one database", False, f"fakesnow/cursor.py:{getattr(site, 'lineno', 0)}", txt[:80])
        ctx.violation("C04.f", "cursor", "FakeSnowflakeCursor._execute", f"{kind}: lookup without a database conjunct: {txt[:70]}",
                      f"fakesnow/cursor.py:{getattr(site, 'lineno', 0)}",
                      f"while executing {kind} fakesnow looks an object up with `{txt[:110]}`: DuckDB's information_schema / duckdb_* views span every "
                      f"attached database, so a same-named object in another database decides the answer")
    ctx.ob("C04.f", f"all {n} by-name lookups in catalog-wide system views carry a database conjunct", not bad, "fakesnow")
    ctx.floor("C04.f by-name lookups inspected", n, 2)


def rule_executemany_count(ctx):
    """C04.g: after executemany over several parameter sets of a DML statement the public rowcount is made of the engine's
    affected-row counts (of the last statement, or their sum) — never of the size of the one-row status results."""
    from ..execmodel import FullHooks, make_session
    from ..values import Tup

    prog = ctx.prog
    if not prog.has_fn("cursor", "FakeSnowflakeCursor.executemany"):
        return
    sets = [Tup([Sym("A1")]), Tup([Sym("B1")]), Tup([Sym("C1")])]
    hooks, sessions = [], []

    def fac():
        h = FullHooks(None, "INSERT")
        hooks.append(h)
        return h

    def run(I):
        duck, conn, cur = make_session()
        cset(conn, R().paramstyle, Const("qmark"))
        sessions.append(cur)
        I.call(I.getattr(cur, "executemany"), [Sym("COMMAND", typ="str", truthy=True), Tup(sets)], {}, None)
        return I.getattr(cur, "rowcount")

    n = 0
    for p, h in zip(explore(prog, fac, run, max_paths=64), hooks):
        if h.parsed == 0 or p.outcome != "return":
            continue
        n += 1
        t = tagof(p.value)
        ok = "engine_count" in t and "num_rows" not in t
        ctx.ob("C04.g", "executemany(INSERT …, 3 parameter sets): rowcount is built from the engine's affected-row counts", ok, "fakesnow/cursor.py", t[:80])
        if not ok:
            ctx.violation("C04.g", "cursor", "FakeSnowflakeCursor.executemany", "rowcount after executemany", "fakesnow/cursor.py",
                          f"after executemany of a DML statement cursor.rowcount is `{t[:80]}`: it counts the rows of the status results (one per "
                          f"statement) instead of the rows the statements affected — 2 for two UPDATEs that matched nothing")
    ctx.floor("C04.g executemany paths", n, 1)


RULES = [
    ("C04.l", rule_dml_not_split, ("quick", "thorough")),
    ("C04.k", rule_exists_clause_kept, ("quick", "thorough")),
    ("C04.j", rule_executemany, ("quick", "thorough")),
    ("C04.j2", rule_executemany_client_side, ("quick", "thorough")),
    ("C04.i", rule_reset, ("quick", "thorough")),
    ("C04.h", rule_count_survives_reads, ("quick", "thorough")),
    ("C04.g", rule_executemany_count, ("quick", "thorough")),
    ("C04.f", rule_lookups_scoped, ("quick", "thorough")),
    ("C04.e", rule_nop, ("quick", "thorough")),
    ("C04.a", rule_count, ("quick", "thorough")),
    ("C04.b", rule_status, ("quick", "thorough")),
    ("C04.c", rule_keycmd, ("quick", "thorough")),
    ("C04.d", rule_last_statement, ("quick", "thorough")),
]
