"""C14 — connect() does what its options say in every configuration."""

from __future__ import annotations

import ast

from ..connectmodel import points, run_point_states
from ..model import norm
from ..values import Const, Obj, Str, Sym, tagof

EXPLANATION = (
    "Path-sensitive typestate analysis of FakeSnowflakeConnection.__init__ (abstract interpretation over the "
    "complete product of abstract start points: argument presence x schema class x both auto-create flags x "
    "db_path x catalog typestate). Every feasible path is enumerated; engine calls are classified by their SQL "
    "template and applied as typestate transfer functions with preconditions; the final abstract state is "
    "compared with the oracle read off the property text. Plus a call-site rule that FakeSnow.connect forwards "
    "every option. Decides the structural necessary condition, not DuckDB's behaviour."
)
RULE_TEXT = (
    "C14.a: for each abstract start point and path: no engine precondition violated (no exception leaves "
    "connect), created objects == what the flags allow, database_set/schema_set == existence afterwards, search "
    "path == db.schema / db.main, conn.database/schema == folded arguments, UTC set, bootstrap(info-schema, "
    "macros) iff ATTACH, file name == ':memory:' iff no db_path, existence checks case-insensitive. "
    "C14.b: every option of FakeSnow reaches the constructor at every construction site."
)
TRUSTED = [
    "CPython ast",
    "DuckDB: ATTACH of an existing alias fails, CREATE SCHEMA needs the catalog and fails on duplicates, "
    "SET schema needs catalog and schema, information_schema/main exist in every attached catalog, "
    "information_schema.schemata stores built-in schema names in lower case",
]


def rule_typestate(ctx):
    prog = ctx.prog
    fn = prog.fn("conn", "FakeSnowflakeConnection.__init__")
    m = prog.mod("conn")
    ctx.analysed("conn.FakeSnowflakeConnection.__init__", "info_schema.creation_sql", "macros.creation_sql")
    pts = points()
    npaths = 0
    bad_points = []
    for pt in pts:
        for path, st in run_point_states(prog, pt):
            npaths += 1
            problems = check_path(pt, path, st)
            ctx.ob("C14.a", repr(pt), not problems, m.loc(fn), "; ".join(p[0] for p in problems))
            for msg, site in problems:
                bad_points.append((pt, msg, site))
    ctx.floor("connect abstract start points", len(pts), 80)
    ctx.inventory["connect paths"] = npaths
    ctx.exhaustive = True
    # group violations by offending construct (site of the failing engine call / the constructor)
    groups: dict[tuple, list] = {}
    for pt, msg, site in bad_points:
        key = (msg.split(" [")[0], norm(site) if site is not None else "__init__")
        groups.setdefault(key, []).append((pt, site))
    for (msg, construct), items in groups.items():
        site = items[0][1]
        ctx.violation(
            "C14.a", "conn", "FakeSnowflakeConnection.__init__", construct,
            m.loc(site) if site is not None else m.loc(fn),
            f"{msg} — at {len(items)} abstract start point(s), e.g. {items[0][0]!r}",
            witness="; ".join(repr(i[0]) for i in items[:4]),
        )


def check_path(pt, path, st):
    """Compare the final abstract state with the oracle from the property text."""
    probs = []
    errs = [e for e in path.effects if e[0] == "engine-error"]
    if path.outcome == "raise":
        site = errs[-1][3] if errs else None
        why = errs[-1][2] if errs else f"{path.value!r}"
        probs.append((f"connect raises: {why}", site))
        return probs
    conn = path.value
    if not isinstance(conn, Obj):
        return [("constructor result is not a connection object", None)]
    a = conn.attrs
    for site_fact in st.facts:
        kind, what, ok, site = site_fact
        if not ok:
            if kind.startswith("an exact comparison"):
                probs.append((f"{what} is not {kind}: connect(…, 'stage_a') takes STAGE1A for the requested object, skips the auto-create and then "
                              f"sets a schema that does not exist", site))
            elif kind.startswith("scoped"):
                probs.append((f"{what} is not {kind}: a schema of that name in another database makes connect skip CREATE SCHEMA / set a "
                              f"schema that does not exist here", site))
            else:
                probs.append((f"existence/DDL template not case-insensitive: {what} is not {kind}", site))
    exp_created_db = pt.create_database and pt.database and not pt.db0
    db_after = pt.db0 or exp_created_db
    exp_created_schema = bool(pt.create_schema and pt.database and pt.schema and db_after and not (
        pt.schema0 or (pt.schema == "builtin" and db_after)))
    schema_after = bool(pt.schema and db_after and (pt.schema0 or exp_created_schema or pt.schema == "builtin"))
    if bool(st.created_db) != bool(exp_created_db):
        probs.append((f"database {'created' if st.created_db else 'not created'} but the options "
                      f"{'forbid' if st.created_db else 'ask for'} it", None))
    if bool(st.created_schema) != exp_created_schema:
        probs.append((f"schema {'created' if st.created_schema else 'not created'} but the options "
                      f"{'forbid' if st.created_schema else 'ask for'} it", None))
    if st.other:
        probs.append((f"connect runs statements beyond what the options allow: {st.other[:3]}", None))
    exp_dbset = bool(pt.database and db_after)
    exp_schset = bool(pt.database and pt.schema and schema_after)
    got_dbset = _const(a.get("database_set"))
    got_schset = _const(a.get("schema_set"))
    if got_dbset is not exp_dbset:
        probs.append((f"database_set == {got_dbset} but the database {'exists' if exp_dbset else 'does not exist'}", None))
    if got_schset is not exp_schset:
        probs.append((f"schema_set == {got_schset} but database+schema {'exist' if exp_schset else 'do not both exist'}", None))
    exp_path = "<db>.<schema>" if exp_schset else "<db>.main" if exp_dbset else None
    if st.search_path != exp_path:
        probs.append((f"engine search path is {st.search_path} but should be {exp_path}", None))
    for attr, present in (("database", pt.database), ("schema", pt.schema)):
        v = a.get(attr)
        if present:
            if not (isinstance(v, Sym) and v.origin and v.origin[0] == "upper" and attr in v.tag):
                probs.append((f"conn.{attr} is not the upper-cased {attr} argument ({tagof(v)})", None))
        elif not (isinstance(v, Const) and v.v is None):
            probs.append((f"conn.{attr} should be None when no {attr} is given ({tagof(v)})", None))
    if not st.utc:
        probs.append(("SET TimeZone = 'UTC' not executed on this path", None))
    for key, (ine, orr, bsite) in st.bootstrap_flags.items():
        if orr or not ine:
            probs.append((f"bootstrap statement for {key} is {'CREATE OR REPLACE' if orr else 'a plain CREATE'}: the bootstrap runs every time an existing "
                          f"database file is attached, so it must be IF NOT EXISTS — otherwise attaching destroys the stored metadata (or fails)", None))
    if st.created_db:
        need = {"TABLE:information_schema._fs_tables_ext", "TABLE:information_schema._fs_columns_ext",
                "VIEW:information_schema._fs_columns_snowflake", "VIEW:information_schema.databases",
                "VIEW:information_schema.views", "MACRO:equal_null"}
        missing = need - st.bootstrap
        if missing:
            probs.append((f"database attached without bootstrap objects {sorted(missing)}", None))
        f = st.attach_file or []
        text = "".join(p if isinstance(p, str) else "{" + tagof(p) + "}" for p in f)
        if pt.db_path:
            names = [p for p in f if not isinstance(p, str) and "database" in tagof(p)]
            if "db_path" not in text or not names or not text.endswith(".db"):
                probs.append((f"ATTACH file {text!r} is not <db_path>/<DATABASE>.db", None))
            elif not all(isinstance(p, Sym) and p.origin and p.origin[0] == "upper" for p in names):
                probs.append((f"ATTACH file {text!r} is named after the database argument as typed, not the upper-cased name the database is "
                              f"attached as (and that CREATE DATABASE / a connect with another spelling use): the existing file is not found", None))
        elif text != ":memory:":
            probs.append((f"ATTACH file {text!r} is not ':memory:' without db_path", None))
    elif st.bootstrap and not pt.db0:
        probs.append(("bootstrap ran without ATTACH", None))
    return probs


def _const(v):
    return v.v if isinstance(v, Const) else None


def rule_forwarding(ctx):
    """C14.b: FakeSnow options reach the constructor; patch()/server forward theirs."""
    from ..interp import Hooks, explore
    from ..values import Const, Dct, Obj, Sym, tagof

    prog = ctx.prog
    m = prog.mod("instance")
    fn = prog.fn("instance", "FakeSnow.connect")
    ctx.analysed("instance.FakeSnow.connect", "instance.FakeSnow.__init__", "__init__.patch")
    init = prog.fn("instance", "FakeSnow.__init__")
    ctor = prog.fn("conn", "FakeSnowflakeConnection.__init__")
    ctor_params = [a.arg for a in ctor.args.args][1:]

    class H(Hooks):
        def __init__(self):
            self.ctor_calls = []

        def external(self, I, d, args, kwargs, site):
            if d == "duckdb.connect":
                return Obj("instance_duck", kind="duck")
            if d in ("threading.Lock", "threading.RLock"):
                return Obj("lock", kind="lock")
            return NotImplemented

        def intercept(self, I, key, args, kwargs, site, f=None):
            if key == "conn.FakeSnowflakeConnection.__init__":
                bound = dict(zip(ctor_params, args))
                bound.update({k: v for k, v in kwargs.items() if k != "**"})
                self.ctor_calls.append((bound, site))
                return Const(None)
            return NotImplemented

    opts = {"create_database_on_connect": "create_database", "create_schema_on_connect": "create_schema", "db_path": "db_path", "nop_regexes": "nop_regexes"}
    hooks = []

    def fac():
        h = H()
        hooks.append(h)
        return h

    def run(I):
        from ..values import ClsRef
        fs = I.construct(ClsRef("fakesnow.instance.FakeSnow"), [], {o: Sym(f"OPT:{o}") for o in opts}, None)
        return I.call(I.getattr(fs, "connect"), [Sym("ARG:database", typ="str", truthy=True), Sym("ARG:schema", typ="str", truthy=True)], {}, None)

    n_sites = 0
    for p, h in zip(explore(prog, fac, run, max_paths=16), hooks):
        for bound, site in h.ctor_calls:
            n_sites += 1
            loc = m.loc(site) if site is not None else m.loc(fn)
            for opt, ctor_arg in opts.items():
                v = bound.get(ctor_arg)
                ok = isinstance(v, Sym) and v.tag == f"OPT:{opt}"
                ctx.ob("C14.b", f"option {opt} -> constructor {ctor_arg}", ok, loc)
                if not ok:
                    ctx.violation("C14.b", "instance", "FakeSnow.connect", f"option {opt} reaches the constructor as {tagof(v)[:60] if v is not None else 'nothing'}", loc,
                                  f"instance option `{opt}` does not reach the connection constructor's `{ctor_arg}` unchanged "
                                  f"(got `{tagof(v)[:80] if v is not None else 'nothing'}`)")
            for pos in ("database", "schema"):
                v = bound.get(pos)
                ok = isinstance(v, Sym) and v.tag == f"ARG:{pos}"
                ctx.ob("C14.b", f"connect argument {pos} -> constructor {pos}", ok, loc)
                if not ok:
                    ctx.violation("C14.b", "instance", "FakeSnow.connect", f"connect argument {pos} reaches the constructor as {tagof(v)[:60] if v is not None else 'nothing'}", loc,
                                  f"connect argument `{pos}` does not reach the constructor's `{pos}`")
        break
    ctx.floor("FakeSnowflakeConnection constructions reached from FakeSnow.connect", n_sites, 1)
    # patch() forwards its options to FakeSnow
    pm = prog.mod("__init__")
    pf = prog.fn("__init__", "patch")
    fs_calls = [c for c in ast.walk(pf) if isinstance(c, ast.Call) and (prog.dotted(pm, c.func) or "").endswith("instance.FakeSnow")]
    ctx.floor("FakeSnow construction sites in patch", len(fs_calls), 1)
    init_params = [a.arg for a in init.args.args]
    for call in fs_calls:
        bound = _bind_call(call, init_params)
        for opt in ("create_database_on_connect", "create_schema_on_connect", "db_path", "nop_regexes"):
            v = bound.get(opt)
            ok = isinstance(v, ast.Name) and v.id == opt
            ctx.ob("C14.b", f"patch option {opt} -> FakeSnow", ok, pm.loc(call))
            if not ok:
                ctx.violation("C14.b", "__init__", "patch", call, pm.loc(call),
                              f"patch() option `{opt}` is not forwarded to the instance")


def _is_conn_ctor(prog, m, call) -> bool:
    d = prog.dotted(m, call.func)
    if not d:
        return False
    r = prog.resolve(d)
    return r == ("conn", "FakeSnowflakeConnection")


def _bind_call(call: ast.Call, params: list[str]) -> dict:
    ps = [p for p in params if p != "self"]
    out = {}
    for i, a in enumerate(call.args):
        if i < len(ps) and not isinstance(a, ast.Starred):
            out[ps[i]] = a
    for k in call.keywords:
        if k.arg:
            out[k.arg] = k.value
    return out


def rule_connect_race(ctx):
    """C14.c = C19.a: concurrent connects that auto-create the same objects (connection order is part of C14's quantifier)."""
    from .c19 import rule_check_then_create
    rule_check_then_create(ctx)


RULES = [
    ("C14.c", rule_connect_race, ("quick", "thorough")),
    ("C14.a", rule_typestate, ("quick", "thorough")),
    ("C14.b", rule_forwarding, ("quick", "thorough")),
]
