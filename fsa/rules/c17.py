"""C17 — the HTTP server answers exactly like the in-process fake (narrow claim)."""

from __future__ import annotations

import ast

from ..execmodel import R
from ..interp import Hooks, explore
from ..model import norm
from ..values import Const, Dct, ExcV, Obj, Str, Sym, tagof
from .common import site_loc

EXPLANATION = (
    "Narrow claim. Arrow wire compatibility with the connector and equality of rows over all value types are runtime "
    "behaviour of pyarrow/the connector and are not decided. Decided: (a) the authentication guard — by abstract "
    "interpretation of query_request over the abstract request space (Authorization header absent / present x token "
    "unknown / known): both failure cases answer with status 401 before the body is read or anything is executed, and "
    "the session table is written only by the login handler; (b) each login connects once and files the connection under a "
    "fresh random token, choosing the shared, an isolated or a path-backed instance; (c) the error response carries "
    "errno (6 digits), sqlstate and message of the caught error; (d) type flow in the timestamp encoder: no "
    "floating-point value reaches an integer cast without rounding (otherwise some microsecond fractions fail to convert)."
)
RULE_TEXT = (
    "C17.a effect traces of query_request: 401 paths have no body read / no execute; sessions written only in "
    "login_request; C17.b one connect per login under secrets token, three-way instance choice; C17.c error fields; "
    "C17.d double-typed pyarrow.compute results (subsecond, multiply/divide by float) do not flow into .cast(int) "
    "unrounded; C17.b2 two logins per scenario: instance identity; C17.e whole seconds from a floored value; C17.f total; "
    "C17.g struct validity mask; C17.h wire units; C17.i rowset == serialised result table, empty only when that table "
    "was tested empty."
)
TRUSTED = ["CPython ast", "pyarrow.compute result types: subsecond -> double, multiply(double, int) -> double, round/floor/ceil/trunc keep double but integral",
           "starlette JSONResponse(status_code=...)"]


def session_table(prog):
    """(module, name) of the server's session table: the module-level mapping the login handler stores the new connection
    into, wherever it is defined (followed through imports)."""
    m = prog.mod("server")
    fn = prog.fn("server", "login_request")
    for n in ast.walk(fn):
        if isinstance(n, ast.Assign):
            for t in n.targets:
                if isinstance(t, ast.Subscript) and isinstance(t.value, ast.Name):
                    nm = t.value.id
                    loc_ = prog.locate(getattr(fn, "_home", "server"), nm)  # where the table is defined, seen from the handler's module
                    if loc_ is not None:
                        return loc_
    return prog.locate("server", "sessions") or ("server", "sessions")


class ServerHooks(Hooks):
    """scenario: 'no-auth' (no Authorization header) | 'bad-token' (header, token not in the session table) | 'ok'"""

    def __init__(self, scenario="ok"):
        self.calls = []
        self.scenario = scenario

    def obj_method(self, I, recv, name, args, kwargs, site):
        if recv.kind == "headers" and name == "get":
            key = args[0].v if args and isinstance(args[0], Const) else None
            if key == "Authorization":
                if self.scenario == "foreign-scheme":
                    return Const("Bearer abc.def.ghi")  # an Authorization header of another scheme: no `Snowflake Token="…"` shape, no quotes
                return Const(None) if self.scenario == "no-auth" else Sym("AUTH_HEADER", typ="str", truthy=True)
        return NotImplemented

    def dict_get(self, I, dct, key, site):
        if dct.shared_name == ".".join(session_table(I.prog)):
            I.effect("session-lookup", key, site)
            return Const(None) if self.scenario in ("bad-token", "foreign-scheme") else Obj("SESSION_CONN", kind="conn")
        return NotImplemented

    def intercept(self, I, key, args, kwargs, site):
        # the response encoding (rowtype, arrow conversion) is not part of the authentication guard
        if key.startswith(("types.", "arrow.")) or key.endswith("._describe_last_sql"):
            I.effect("encode", key, site)
            return Sym(f"{key}()", origin=("call", key, list(args), dict(kwargs)))
        return NotImplemented

    def external(self, I, d, args, kwargs, site):
        if d.endswith("JSONResponse"):
            I.effect("response", args[0] if args else None, kwargs.get("status_code"), site)
            return Obj(f"response@{I.siteid(site)}", kind="response", status=kwargs.get("status_code", Const(200)), body=args[0] if args else None)
        if d.endswith("run_in_threadpool"):
            I.effect("execute", args, site)
            from ..execmodel import make_session, sset
            _d, _c, xc = make_session()
            xc.name, xc.kind = "executed_cursor", "cursor"
            for role_, v_ in (("table", Sym("RESULT_TABLE")), ("rowcount", Sym("ROWCOUNT", typ="int")), ("last_sql", Sym("LAST_SQL", typ="str", truthy=True)),
                              ("index", Sym("FETCH_INDEX"))):
                sset(xc, role_, v_)
            return xc
        return NotImplemented


def rule_auth(ctx):
    prog = ctx.prog
    m = prog.mod("server")
    ctx.analysed("server.query_request", "server.to_conn", "server.login_request")
    fn = prog.fn("server", "query_request")

    def run(I):
        req = Obj("request", kind="request", headers=Obj("headers", kind="headers"))
        return I.call(I.global_lookup("server", "query_request"), [req], {}, None)

    n401 = nok = 0
    runs = [(sc, p) for sc in ("no-auth", "bad-token", "foreign-scheme", "ok") for p in explore(prog, lambda sc=sc: ServerHooks(sc), run, max_paths=128)]
    for sc, p in runs:
        auth_missing = sc == "no-auth"
        token_unknown = sc in ("bad-token", "foreign-scheme")
        touched = [e for e in p.effects if e[0] == "execute" or (e[0] == "call" and str(e[1]).endswith((".body", "json.loads", "gzip.decompress")))]
        if auth_missing or token_unknown:
            n401 += 1
            resp = p.value if p.outcome == "return" else None
            status = resp.attrs.get("status") if isinstance(resp, Obj) else None
            ok = isinstance(status, Const) and status.v == 401 and not touched
            what = "no Authorization header" if auth_missing else "unknown token" if sc == "bad-token" else "an Authorization header of another scheme (`Bearer …`)"
            ctx.ob("C17.a", f"{what}: answered 401 before the body is read or anything runs", ok, m.loc(fn), f"status {tagof(status)} touched {len(touched)}")
            if not ok:
                if touched:
                    msg = f"a request with {what} still reads the body / executes ({[str(e[1])[:30] for e in touched][:3]}) before it is refused"
                elif p.outcome == "raise":
                    msg = f"a request with {what} makes the handler raise {p.value.cls} instead of answering 401"
                else:
                    msg = f"a request with {what} is answered with status {tagof(status)} instead of 401"
                ctx.violation("C17.a", "server", "query_request", f"{what}: {msg[:60]}", m.loc(fn), msg)
        else:
            nok += 1
    ctx.floor("C17.a refused request paths", n401, 2)
    ctx.floor("C17.a accepted request paths", nok, 1)
    # sessions written only in login_request
    writers = []
    tmod, tname = session_table(prog)

    def is_table(e, mm):
        if isinstance(e, ast.Name):
            return (mm.name == tmod and e.id == tname) or prog.resolve(mm.imports.get(e.id, "")) == (tmod, tname)
        return isinstance(e, ast.Attribute) and e.attr == tname and prog.resolve(prog.dotted(mm, e) or "") == (tmod, tname)

    hm_name = getattr(prog.fn("server", "login_request"), "_home", "server")  # the module the handlers live in
    hm = prog.modules[hm_name]
    for mm in prog.modules.values():
        for qual, f in mm.functions.items():
            for n in ast.walk(f):
                if isinstance(n, (ast.Assign, ast.AugAssign, ast.Delete)):
                    tg = n.targets if isinstance(n, (ast.Assign, ast.Delete)) else [n.target]
                    for t in tg:
                        if isinstance(t, ast.Subscript) and is_table(t.value, mm):
                            writers.append((qual if mm.name == hm_name else f"{mm.name}.{qual}", n))
                if isinstance(n, ast.Call) and isinstance(n.func, ast.Attribute) and is_table(n.func.value, mm) \
                        and n.func.attr in ("pop", "clear", "update", "setdefault", "popitem", "__setitem__"):
                    writers.append((qual if mm.name == hm_name else f"{mm.name}.{qual}", n))
    def reach(root):
        """functions of server.py reachable from a handler through direct calls"""
        seen, todo = {root}, [root]
        while todo:
            f_ = hm.functions.get(todo.pop())
            if f_ is None:
                continue
            for c in ast.walk(f_):
                if isinstance(c, ast.Call) and isinstance(c.func, ast.Name) and c.func.id in hm.functions and c.func.id not in seen:
                    seen.add(c.func.id)
                    todo.append(c.func.id)
        return seen

    login_side = reach("login_request")
    other_side = set().union(*[reach(h) for h in hm.functions if h.endswith("_request") and h != "login_request"]) if hm.functions else set()
    # a writer belongs to the login handler: the handler itself or a helper only it reaches
    bad = [w for w in writers if not (w[0] in login_side and w[0] not in other_side)]
    ctx.ob("C17.a", "the session table is written only by the login handler", not bad and bool(writers), m.path)
    for q, n in bad:
        ctx.violation("C17.a", "server", q, n, m.loc(n), f"`{q}` writes the session table: a query/refused request must touch no session")
    # what the login handler does to the table is *add* its own fresh token: it ends nobody's session (a token handed out stays
    # valid, with its variables and context, exactly as the in-process connection it stands for stays usable)
    removals = [w for w in writers if w not in bad and (isinstance(w[1], ast.Delete) or (isinstance(w[1], ast.Call) and w[1].func.attr in ("pop", "clear", "popitem")))]
    ctx.ob("C17.a", "a login adds its session and removes nobody else's", not removals, m.path)
    for q, n in removals:
        ctx.violation("C17.a", "server", q, n, m.loc(n),
                      f"`{q}` removes entries from the session table while logging a client in: a token that is still in use is refused with "
                      f"401 'User must login again' and its session state (variables, current schema) is gone — the same sequence on an "
                      f"in-process connection keeps answering")


class LoginHooks(Hooks):
    """scenario: None (no FAKESNOW_DB_PATH) | ':isolated:' | 'path'"""

    def __init__(self, scenario):
        self.scenario = scenario
        self.connects = []

    def intercept(self, I, key, args, kwargs, site, f=None):
        if key == "instance.FakeSnow.connect":
            fs = f.self_val if f is not None else None
            conn = Obj(f"conn#{len(self.connects)}", kind="conn")
            self.connects.append((fs, args, conn))
            I.effect("connect", fs, args, site)
            return conn
        if key == "instance.FakeSnow.__init__":
            fs = f.self_val if f is not None else None
            if fs is not None:
                fs.attrs["db_path"] = kwargs.get("db_path", args[2] if len(args) > 2 else Const(None))
                fs.attrs["_made_at"] = Const(I.siteid(site))
            return Const(None)
        return NotImplemented

    def external(self, I, d, args, kwargs, site):
        if d == "json.loads":
            params = {}
            if self.scenario == ":isolated:":
                params["FAKESNOW_DB_PATH"] = Const(":isolated:")
            elif self.scenario == "path":
                params["FAKESNOW_DB_PATH"] = Sym("DB_PATH", typ="str", truthy=True, distinct=True)
            from ..values import Dct
            return Dct({"data": Dct({"SESSION_PARAMETERS": Dct(params)})})
        if d.endswith("JSONResponse"):
            return Obj("response", kind="response")
        return NotImplemented


def rule_login_instances(ctx):
    """C17.b (semantic): two logins in one server process — shared by default, a fresh instance per ':isolated:' login,
    an instance on the requested path otherwise; each login connects exactly once with its database and schema."""
    prog = ctx.prog
    m = prog.mod("server")
    fn = prog.fn("server", "login_request")
    loc = m.loc(fn)
    for scenario in (None, ":isolated:", "path"):
        hooks = []

        def fac(scenario=scenario):
            h = LoginHooks(scenario)
            hooks.append(h)
            return h

        def run(I):
            f = I.global_lookup("server", "login_request")
            shared = I.global_lookup("server", "shared_fs")
            I.effect("shared", shared)
            for i in (1, 2):
                req = Obj(f"request{i}", kind="request", query_params=Obj("query_params", kind="params"))
                I.call(f, [req], {}, None)
            return shared

        for p, h in zip(explore(prog, fac, run, max_paths=16), hooks):
            if p.outcome != "return":
                ctx.ob("C17.b", f"login with FAKESNOW_DB_PATH={scenario}: handler returns", False, loc, repr(p.value))
                ctx.violation("C17.b", "server", "login_request", f"login raises for {scenario}", loc, f"the login handler raises {p.value.cls} for FAKESNOW_DB_PATH={scenario}")
                continue
            shared = p.value
            insts = [c[0] for c in h.connects]
            label = {None: "no FAKESNOW_DB_PATH", ":isolated:": "FAKESNOW_DB_PATH=':isolated:'", "path": "FAKESNOW_DB_PATH=<dir>"}[scenario]
            if len(insts) != 2:
                ok, why = False, f"{len(insts)} connections are made for two logins"
            elif scenario is None:
                ok, why = insts[0] is shared and insts[1] is shared, "the logins do not both use the shared instance"
            elif scenario == ":isolated:":
                ok = insts[0] is not insts[1] and insts[0] is not shared and insts[1] is not shared
                why = "two ':isolated:' logins get the same instance (or the shared one): they see each other's objects"
            else:
                okp = all(isinstance(i, Obj) and isinstance(i.attrs.get("db_path"), Sym) and i.attrs["db_path"].tag == "DB_PATH" for i in insts)
                ok, why = okp and all(i is not shared for i in insts), "a login with a path does not get an instance backed by that path"
            for fs_, cargs, _ in h.connects[:1]:
                bad = []
                for i, nm in enumerate(("databaseName", "schemaName")):
                    v = cargs[i] if i < len(cargs) else None
                    o = v.origin if isinstance(v, Sym) else None
                    gargs = o[3] if o and o[0] == "method" and o[2] == "get" else None
                    if gargs is None or not (isinstance(gargs[0], Const) and gargs[0].v == nm) or len(gargs) != 1:
                        bad.append(f"{nm} -> {tagof(v)}")
                ctx.ob("C17.b", f"{label}: connect gets the request's database and schema as sent (no invented default)", not bad, loc, str(bad))
                if bad:
                    ctx.violation("C17.b", "server", "login_request", "login arguments " + bad[0].split(" -> ")[0], loc,
                                  f"the login handler connects with {bad} instead of exactly the request's databaseName / schemaName: a login "
                                  f"without a schema gets a different session context than the in-process connect with the same arguments")
            ctx.ob("C17.b", f"two logins, {label}: instance choice", ok, loc, "" if ok else why)
            if not ok:
                ctx.violation("C17.b", "server", "login_request", f"instance choice for {label}", loc, f"two logins with {label}: {why}")
            break


def rule_login(ctx):
    """C17.b: each login makes exactly one connection and files it (directly or wrapped in a session object) under a fresh
    random token in the session table — decided on the effect trace of one interpreted login."""
    prog = ctx.prog
    m = prog.mod("server")
    fn = prog.fn("server", "login_request")
    loc = m.loc(fn)
    tmod, tname = session_table(prog)
    hooks, tables = [], []

    def fac():
        h = LoginHooks(None)
        hooks.append(h)
        return h

    def run(I):
        tables.append(I.global_lookup(tmod, tname))
        req = Obj("request1", kind="request", query_params=Obj("query_params", kind="params"))
        return I.call(I.global_lookup("server", "login_request"), [req], {}, None)

    n = 0
    for p, h, table in zip(explore(prog, fac, run, max_paths=16), hooks, tables):
        if p.outcome != "return":
            continue
        n += 1
        conns = [c[2] for c in h.connects]
        entries = list(table.items.items()) if isinstance(table, Dct) else []
        ok_one = len(conns) == 1 and len(entries) == 1
        key_val = table.keyvals.get(entries[0][0]) if ok_one and isinstance(table, Dct) else None

        def from_secrets(v):
            return any(isinstance(x, Sym) and x.origin and x.origin[0] == "call" and str(x.origin[1]).startswith("secrets.token_") for x in _prov(v)) \
                or "secrets.token_" in tagof(v)

        ok_key = ok_one and (from_secrets(key_val) if key_val is not None else "secrets.token_" in str(entries[0][0]))
        stored = entries[0][1] if ok_one else None
        ok_val = ok_one and (stored is conns[0] or (isinstance(stored, Obj) and any(v is conns[0] for v in stored.attrs.values())))
        ok = ok_one and ok_key and ok_val
        ctx.ob("C17.b", "each login connects once and files the connection under a fresh secrets token", ok, loc,
               "" if ok else f"connects={len(conns)} entries={len(entries)} key={tagof(key_val) if key_val is not None else entries[:1]} value={tagof(stored) if stored is not None else None}")
        if not ok:
            ctx.violation("C17.b", "server", "login_request", "session per login", loc,
                          "a login does not create exactly one connection stored under a fresh random token: sessions would be shared or lost")
        break
    ctx.floor("C17.b interpreted logins", n, 1)


class ErrorHooks(ServerHooks):
    """the statement fails with a ProgrammingError carrying symbolic errno / sqlstate / msg"""

    def external(self, I, d, args, kwargs, site):
        if d.endswith("run_in_threadpool"):
            from ..interp import _Raise
            exc = ExcV("snowflake.connector.errors.ProgrammingError",
                       {"errno": Sym("ERRNO", typ="int", truthy=True), "sqlstate": Sym("SQLSTATE", typ="str", truthy=True), "msg": Sym("MSG", typ="str", truthy=True)})
            raise _Raise(exc)
        return super().external(I, d, args, kwargs, site)


def _find(v, pred, seen=None, depth=0):
    from ..values import Lst, Tup
    seen = seen if seen is not None else set()
    if id(v) in seen or depth > 8:
        return None
    seen.add(id(v))
    if pred(v):
        return v
    kids = []
    if isinstance(v, Dct):
        kids = list(v.items.values())
    elif isinstance(v, (Lst, Tup)):
        kids = v.items
    elif isinstance(v, Str):
        kids = [p for p in v.parts if not isinstance(p, str)]
    for k in kids:
        r = _find(k, pred, seen, depth + 1)
        if r is not None:
            return r
    return None


def rule_error_fields(ctx):
    """C17.c: the response to a failing statement carries errno as a 6-digit code, the error's sqlstate and its message."""
    prog = ctx.prog
    m = prog.mod("server")
    fn = prog.fn("server", "query_request")
    loc = m.loc(fn)

    def run(I):
        req = Obj("request", kind="request", headers=Obj("headers", kind="headers"))
        return I.call(I.global_lookup("server", "query_request"), [req], {}, None)

    n = 0
    for p in explore(prog, lambda: ErrorHooks("ok"), run, max_paths=32):
        n += 1
        resp = p.value if p.outcome == "return" and isinstance(p.value, Obj) else None
        body = resp.attrs.get("body") if resp is not None else None
        code = _find(body, lambda v: isinstance(v, Sym) and v.origin and v.origin[0] == "format" and v.origin[2] in ("06d", "06") and tagof(v.origin[1]) == "ERRNO") if body is not None else None
        state = _find(body, lambda v: isinstance(v, Sym) and v.tag == "SQLSTATE") if body is not None else None
        msg = _find(body, lambda v: isinstance(v, Sym) and v.tag == "MSG") if body is not None else None
        success = body.items.get("success") if isinstance(body, Dct) else None
        ok = code is not None and state is not None and msg is not None and isinstance(success, Const) and success.v is False
        missing = [w for w, x in (("errno as a 6-digit code", code), ("sqlstate", state), ("message", msg)) if x is None]
        ctx.ob("C17.c", "error response carries errno (6 digits), sqlstate and message of the caught error, success false", ok, loc, str(missing))
        if not ok:
            what = f"raises {p.value.cls}" if p.outcome == "raise" else f"lacks {missing or 'success: false'}"
            ctx.violation("C17.c", "server", "query_request", "error response fields", loc,
                          f"when the statement fails with a ProgrammingError the response {what}: the connector would raise a different error "
                          f"(errno / sqlstate / message) than the in-process fake")
    ctx.floor("C17.c error paths", n, 1)


FLOAT_FUNCS = {"subsecond", "divide_float"}
ROUNDING = {"round", "floor", "ceil", "trunc", "round_to_multiple"}


def _is_float(e, env) -> bool:
    """Is the pyarrow.compute expression double-typed and possibly non-integral?"""
    if isinstance(e, ast.Name):
        return env.get(e.id, False)
    if isinstance(e, ast.Call):
        f = e.func
        name = f.attr if isinstance(f, ast.Attribute) else f.id if isinstance(f, ast.Name) else ""
        base = norm(f.value) if isinstance(f, ast.Attribute) else ""
        if name in ROUNDING:
            return False
        if name == "cast":
            return False
        if name in FLOAT_FUNCS and base in ("pc", "pyarrow.compute"):
            return True
        if name in ("multiply", "add", "subtract", "divide", "multiply_checked", "power") and base in ("pc", "pyarrow.compute"):
            return any(_is_float(a, env) or (isinstance(a, ast.Constant) and isinstance(a.value, float)) for a in e.args)
    return False


def rule_epoch_floor(ctx):
    """C17.e: the whole-second epoch is a floor (towards minus infinity): integer division truncates towards zero,
    which is one second off for pre-1970 timestamps with a fraction."""
    prog = ctx.prog
    m = prog.mod("arrow")
    if not prog.has_fn("arrow", "timestamp_to_sf_struct"):
        return
    fn = prog.fn("arrow", "timestamp_to_sf_struct")
    env = {}

    def floored(e) -> bool:
        if isinstance(e, ast.Name):
            return env.get(e.id, False)
        if isinstance(e, ast.Call):
            f = e.func
            name = f.attr if isinstance(f, ast.Attribute) else f.id if isinstance(f, ast.Name) else ""
            if name in ("floor_temporal", "floor"):
                return True
            if name in ("cast", "divide", "multiply", "combine_chunks"):
                base = [f.value] if isinstance(f, ast.Attribute) and name == "cast" else []
                return any(floored(a) for a in base + list(e.args))
        return False
    for s in ast.walk(fn):
        if isinstance(s, ast.Assign) and isinstance(s.targets[0], ast.Name):
            env[s.targets[0].id] = floored(s.value)
    divs = [c for c in ast.walk(fn) if isinstance(c, ast.Call) and isinstance(c.func, ast.Attribute) and c.func.attr in ("divide", "divide_checked")
            and any(isinstance(a, ast.Constant) and a.value in (1_000_000, 1_000_000_000, 1000) for a in c.args)]
    ctx.floor("epoch divisions in timestamp_to_sf_struct", len(divs), 1)
    for c in divs:
        ok = any(floored(a) for a in c.args) or floored(c)
        ctx.ob("C17.e", "whole seconds are taken from a value floored to the second (not a truncating division)", ok, m.loc(c), norm(c)[:80])
        if not ok:
            ctx.violation("C17.e", "arrow", "timestamp_to_sf_struct", "epoch by truncating division", m.loc(c),
                          f"`{norm(c)[:90]}` divides the raw sub-second count: integer division truncates towards zero, so a timestamp before "
                          f"1970 with a fraction (1969-12-31 23:59:59.5) is encoded one second too late")


def rule_total_and_nulls(ctx):
    """C17.f the response's row total comes from the executed cursor; C17.g the timestamp struct keeps NULLs."""
    prog = ctx.prog
    m = prog.mod("server")
    fn = prog.fn("server", "query_request")
    for d in ast.walk(fn):
        if isinstance(d, ast.Dict):
            for k, v in zip(d.keys, d.values):
                if isinstance(k, ast.Constant) and k.value == "total":
                    ok = not isinstance(v, ast.Constant)
                    ctx.ob("C17.f", "the response's `total` is taken from the executed cursor", ok, m.loc(d), norm(v))
                    if not ok:
                        ctx.violation("C17.f", "server", "query_request", "constant total in the query response", m.loc(d),
                                      f"the query response reports `total: {norm(v)}` whatever the statement returned: through the server "
                                      f"cursor.rowcount is always {norm(v)} (3-row SELECT, DML counts), unlike the in-process fake")
    a = prog.mod("arrow")
    if prog.has_fn("arrow", "timestamp_to_sf_struct"):
        f2 = prog.fn("arrow", "timestamp_to_sf_struct")
        calls = [c for c in ast.walk(f2) if isinstance(c, ast.Call) and norm(c.func).endswith("StructArray.from_arrays")]
        ctx.floor("struct constructions in timestamp_to_sf_struct", len(calls), 1)
        for c in calls:
            ok = any(k.arg == "mask" for k in c.keywords)
            ctx.ob("C17.g", "the timestamp struct is built with the validity mask of the input", ok, a.loc(c))
            if not ok:
                ctx.violation("C17.g", "arrow", "timestamp_to_sf_struct", "struct built without validity mask", a.loc(c),
                              "StructArray.from_arrays is called without `mask=`: the struct has no NULLs, so a NULL timestamp comes back "
                              "through the server as 1970-01-01 00:00:00 instead of None")


def rule_wire_units(ctx):
    """C17.h: units and field layout of Snowflake's Arrow wire format for TIME / TIMESTAMP columns (AST facts, not text)."""
    prog = ctx.prog
    m = prog.mod("arrow")

    def calls(fn, attr):
        return [c for c in ast.walk(fn) if isinstance(c, ast.Call) and isinstance(c.func, ast.Attribute) and c.func.attr == attr]

    def has_const(call, value):
        return any(isinstance(a, ast.Constant) and a.value == value for a in ast.walk(call))

    def fields(fn):
        # field definitions may live in a shared helper: collect them module-wide
        out = set()
        for c in calls(m.tree, "field"):
            name = next((a.value for a in c.args if isinstance(a, ast.Constant) and isinstance(a.value, str)), None)
            typ = next((norm(k.value) for k in c.keywords if k.arg == "type"), norm(c.args[1]) if len(c.args) > 1 else "")
            out.add((name, typ.replace("pa.", "").replace("()", "")))
        return out

    def default_of(fn, key):
        for b in (x for g in reach(fn) for x in ast.walk(g)):
            if isinstance(b, ast.BoolOp) and isinstance(b.op, ast.Or) and isinstance(b.values[0], ast.Subscript) and isinstance(b.values[0].slice, ast.Constant) \
                    and b.values[0].slice.value == key and isinstance(b.values[-1], ast.Constant):
                return b.values[-1].value
        return "?"

    def reach(fn):
        """the function and the module's own functions it (transitively) calls: a helper may live beside its caller"""
        seen, todo = [fn], [fn]
        while todo:
            g = todo.pop()
            for c in ast.walk(g):
                if isinstance(c, ast.Call) and isinstance(c.func, ast.Name) and c.func.id in m.functions and m.functions[c.func.id] not in seen:
                    seen.append(m.functions[c.func.id])
                    todo.append(m.functions[c.func.id])
        return seen

    checks = []
    if "to_sf" in m.functions:
        f = m.functions["to_sf"]
        time_fns = [g for g in reach(f) if any("is_time" in norm(c.func) for c in ast.walk(g) if isinstance(c, ast.Call))]
        checks.append(("to_sf", "TIME values (microseconds) are sent as nanoseconds: multiplied by 1000",
                       any(has_const(c, 1000) for g in time_fns for c in calls(g, "multiply"))))
    if "timestamp_to_sf_struct" in m.functions:
        f = m.functions["timestamp_to_sf_struct"]
        checks.append(("timestamp_to_sf_struct", "epoch seconds = microseconds / 1_000_000", any(has_const(c, 1_000_000) for c in calls(f, "divide"))))
        checks.append(("timestamp_to_sf_struct", "fraction = sub-second part in nanoseconds (x 1_000_000_000)",
                       any(has_const(c, 1_000_000_000) and "subsecond" in norm(c) for c in calls(f, "multiply"))))
        fs = fields(f)
        checks.append(("timestamp_to_sf_struct", "struct fields epoch:int64, fraction:int32, timezone:int32 with 1440 (UTC offset + 1440)",
                       {("epoch", "int64"), ("fraction", "int32"), ("timezone", "int32")} <= fs and any(isinstance(c, ast.Constant) and c.value == 1440 for c in ast.walk(m.tree))))
    if "to_sf_schema" in m.functions:
        f = m.functions["to_sf_schema"]
        checks.append(("to_sf_schema", "field metadata defaults: precision 38, scale 0", default_of(f, "precision") == 38 and default_of(f, "scale") == 0))
        checks.append(("to_sf_schema", "timestamp struct fields epoch:int64, fraction:int32", {("epoch", "int64"), ("fraction", "int32")} <= fields(f)))
    ctx.floor("wire-format facts checked", len(checks), 5)
    for fn, what, ok in checks:
        ctx.ob("C17.h", what, bool(ok), m.loc(m.functions[fn]))
        if not ok:
            ctx.violation("C17.h", "arrow", fn, what, m.loc(m.functions[fn]),
                          f"arrow.{fn}: {what} — the connector decodes the wire value with exactly these units / fields, so TIME or TIMESTAMP "
                          f"values fetched through the server differ from the in-process ones")


def rule_fraction(ctx):
    prog = ctx.prog
    m = prog.mod("arrow")
    n = 0
    for qual, fn in m.functions.items():
        env = {}
        for s in ast.walk(fn):
            if isinstance(s, ast.Assign) and isinstance(s.targets[0], ast.Name):
                env[s.targets[0].id] = _is_float(s.value, env)
        for c in ast.walk(fn):
            if isinstance(c, ast.Call) and isinstance(c.func, ast.Attribute) and c.func.attr == "cast" and c.args:
                tgt = norm(m.consts[c.args[0].id]) if isinstance(c.args[0], ast.Name) and c.args[0].id in m.consts else norm(c.args[0])
                if "int" not in tgt:
                    continue
                n += 1
                bad = _is_float(c.func.value, env)
                ctx.ob("C17.d", f"{qual}: value cast to {tgt} is integral", not bad, m.loc(c), norm(c.func.value)[:70])
                if bad:
                    ctx.violation("C17.d", "arrow", qual, c, m.loc(c),
                                  f"`{norm(c.func.value)[:80]}` is a floating-point value cast to {tgt} without rounding: for some fractions "
                                  f"(e.g. .066172 s -> 66172000.00000001) the cast raises ArrowInvalid and the query fails over HTTP only")
    ctx.floor("integer casts in arrow.py", n, 2)
    # C17.d2: a result column itself (a parameter of the converting function, not a value computed from it) is cast to an
    # integer type only where its type was tested to be TIME (an int64 inside): every other column type either needs no cast
    # or does not fit — DECIMAL(38,0) values beyond int64 make the cast raise, over HTTP only
    n2 = 0
    parent = {}
    for nd in ast.walk(m.tree):
        for ch in ast.iter_child_nodes(nd):
            parent[id(ch)] = nd
    def target_text(a):  # the cast target, through a module-level constant (`_TIME_TYPE = pa.int64()`)
        return norm(m.consts[a.id]) if isinstance(a, ast.Name) and a.id in m.consts else norm(a)

    for c in ast.walk(m.tree):
        if not (isinstance(c, ast.Call) and isinstance(c.func, ast.Attribute) and c.func.attr == "cast" and c.args and "int" in target_text(c.args[0])
                and isinstance(c.func.value, ast.Name)):
            continue
        tests, cur, fdef = [], c, None
        while id(cur) in parent:
            up = parent[id(cur)]
            if isinstance(up, ast.If) and any(cur is x for x in up.body):
                tests.append(norm(up.test))
            elif isinstance(up, ast.IfExp) and cur is up.body:
                tests.append(norm(up.test))
            if isinstance(up, (ast.FunctionDef, ast.AsyncFunctionDef)) and fdef is None:
                fdef = up
                break
            cur = up
        if fdef is None or c.func.value.id not in {a.arg for a in (*fdef.args.posonlyargs, *fdef.args.args, *fdef.args.kwonlyargs)}:
            continue
        n2 += 1
        qual = fdef.name
        ok = any("is_time(" in t or "Time64Type" in t or "Time32Type" in t for t in tests)
        ctx.ob("C17.d2", f"{qual}: the column `{c.func.value.id}` is cast to {target_text(c.args[0])} only under a TIME-type test", ok, m.loc(c), str(tests[:1]))
        if not ok:
            ctx.violation("C17.d2", "arrow", qual, c, m.loc(c),
                          f"the result column `{c.func.value.id}` is cast to {norm(c.args[0])} under {tests[:1] or 'no type test'}: only TIME columns are "
                          f"64-bit integers inside; a DECIMAL(38,0) / HUGEINT column holds values beyond int64 and the cast raises — the query "
                          f"fails through the server although it succeeds in process")
    ctx.floor("C17.d2 raw column casts", n2, 1)


def rule_rowset(ctx):
    """C17.i: the rowset of a successful response is the executed cursor's result table, left empty only when that table
    is tested empty — never decided by the affected-row count or anything else (a DML touching 0 rows still has its one
    status row)."""
    prog = ctx.prog
    m = prog.mod("server")
    fn = prog.fn("server", "query_request")
    loc = m.loc(fn)

    def run(I):
        req = Obj("request", kind="request", headers=Obj("headers", kind="headers"))
        return I.call(I.global_lookup("server", "query_request"), [req], {}, None)

    from ..values import Dct

    n = 0
    seen_nonempty = False
    for p in explore(prog, lambda: ServerHooks("ok"), run, max_paths=128):
        resp = p.value if p.outcome == "return" else None
        body = resp.attrs.get("body") if isinstance(resp, Obj) else None
        data = body.items.get("data") if isinstance(body, Dct) else None
        ok_flag = body.items.get("success") if isinstance(body, Dct) else None
        if not (isinstance(data, Dct) and isinstance(ok_flag, Const) and ok_flag.v is True and "rowsetBase64" in data.items):
            continue
        n += 1
        rowset = data.items["rowsetBase64"]
        empty = isinstance(rowset, Const) and rowset.v == ""
        tests = [(t, v) for t, v in p.assumed if "RESULT_TABLE" in t]
        other = [(t, v) for t, v in p.assumed if "ROWCOUNT" in t]
        if empty:
            ok = bool(tests) and not other
            why = (f"decided by {[t for t, _ in other]}" if other else "not decided by a test of the result table")
            ctx.ob("C17.i", "an empty rowset is sent only when the result table itself was tested empty", ok, loc, "" if ok else why)
            if not ok:
                ctx.violation("C17.i", "server", "query_request", "empty rowset " + why[:60], loc,
                              f"the success response leaves rowsetBase64 empty on a path {why}: a statement whose result table has rows "
                              f"(e.g. the one status row of a DELETE that affects 0 rows) comes back with no rows through the server")
        else:
            seen_nonempty = True
            src = any(isinstance(x, Sym) and x.tag == "RESULT_TABLE" for x in _prov(rowset))
            ctx.ob("C17.i", "a non-empty rowset is the serialised result table of the executed cursor", src, loc, tagof(rowset)[:80])
            if not src:
                ctx.violation("C17.i", "server", "query_request", "rowset not from the result table", loc,
                              f"rowsetBase64 is `{tagof(rowset)[:80]}`, which is not derived from the executed cursor's result table")
        # the column infos describe the result's columns by *position* (DESCRIBE lists them in result order): a mapping keyed by
        # column name holds one entry per distinct name, so two result columns of one name would share the last one's type
        rekeyed = [e for e in p.effects if e[0] == "keyed-lookup" and any(
            isinstance(x, Sym) and x.origin and x.origin[0] == "call" and str(x.origin[1]).endswith("describe_as_rowtype") for x in _prov(e[1].src[1]))]
        ctx.ob("C17.i", "column infos stay aligned with the result columns by position (never re-associated through a name-keyed mapping)",
               not rekeyed, loc)
        if rekeyed:
            ctx.violation("C17.i", "server", "query_request", "column infos looked up by column name", site_loc(prog, "server", rekeyed[0][3]),
                          f"the column infos are put into a mapping keyed by `{tagof(rekeyed[0][1].src[2])[:60]}` and read back per result column: "
                          f"a result with two columns of the same name (select a.v, b.v ...) gets the last one's type / precision / scale for both, "
                          f"in the rowtype and in the arrow metadata the connector decodes the values with")
    ctx.floor("C17.i success responses", n, 2)
    if not seen_nonempty:
        ctx.violation("C17.i", "server", "query_request", "no path sends rows", loc, "no success path serialises the result table")


def _prov(v, seen=None):
    """values a symbolic value was computed from (call / method / attr / binop provenance)"""
    seen = seen if seen is not None else set()
    if id(v) in seen:
        return []
    seen.add(id(v))
    out = [v]
    o = getattr(v, "origin", None)
    if o:
        for x in o:
            if isinstance(x, (list, tuple)):
                for y in x:
                    if hasattr(y, "tag"):
                        out += _prov(y, seen)
            elif isinstance(x, dict):
                for y in x.values():
                    if hasattr(y, "tag"):
                        out += _prov(y, seen)
            elif hasattr(x, "tag"):
                out += _prov(x, seen)
    return out


def rule_every_chunk_serialised(ctx):
    """C17.j: the engine hands a large result over in several arrow chunks; the serialiser sends all of them: either it writes
    every batch, or it first combines the table into one (`combine_chunks()`) — taking `to_batches()[0]` of the raw table, or
    refusing anything but one batch, fails for results beyond one chunk that the in-process connection returns without trouble."""
    prog = ctx.prog
    m = prog.modules.get("arrow")
    if m is None or "to_ipc" not in m.functions:
        return
    fn = m.functions["to_ipc"]
    calls_ = [c for c in ast.walk(fn) if isinstance(c, ast.Call) and isinstance(c.func, ast.Attribute)]
    tb = [c for c in calls_ if c.func.attr == "to_batches"]
    combined = any("combine_chunks" in norm(c.func.value) for c in tb) or any(
        isinstance(a, ast.Assign) and "combine_chunks" in norm(a.value) for a in ast.walk(fn))
    loops_all = any(isinstance(l_, (ast.For, ast.comprehension)) and any(isinstance(c, ast.Call) and isinstance(c.func, ast.Attribute) and c.func.attr == "to_batches"
                                                                          for c in ast.walk(l_.iter)) for l_ in ast.walk(fn)) \
        or any(c.func.attr == "write_table" for c in calls_)
    single = any(isinstance(s_, ast.Subscript) and isinstance(s_.slice, ast.Constant) and s_.slice.value == 0 for s_ in ast.walk(fn)) or \
        any(isinstance(c, ast.Compare) and "len(" in norm(c.left) and any(isinstance(k, ast.Constant) and k.value == 1 for k in c.comparators) for c in ast.walk(fn))
    if single and not (loops_all or combined):
        # the caller may hand over a table it has already combined: every call site of to_ipc in the package, or the function whose
        # result is passed to it, applies combine_chunks()
        sites = [(mm, c) for mm in prog.modules.values() for f_ in mm.functions.values() for c in ast.walk(f_)
                 if isinstance(c, ast.Call) and norm(c.func).split(".")[-1] == "to_ipc" and c.args]

        def arg_combined(mm, c):
            a0 = c.args[0]
            if "combine_chunks" in norm(a0):
                return True
            if isinstance(a0, ast.Call) and isinstance(a0.func, ast.Name) and a0.func.id in m.functions:
                return any(isinstance(r_, ast.Return) and r_.value is not None and "combine_chunks" in norm(r_.value) for r_ in ast.walk(m.functions[a0.func.id]))
            return False
        combined = bool(sites) and all(arg_combined(mm, c) for mm, c in sites)
    ok = loops_all or combined or not single
    ctx.ob("C17.j", "to_ipc serialises every chunk of the result (writes all batches, or combines them first)", ok, m.loc(fn))
    if not ok:
        ctx.violation("C17.j", "arrow", "to_ipc", "only a single-batch table can be serialised", m.loc(fn),
                      "to_ipc takes the table's batches as the engine chunked them and handles exactly one: a result of more rows than one engine "
                      "chunk (1,000,000 by default; fewer if the result is fetched with a smaller batch size) answers HTTP 500 through the server "
                      "while the in-process connection returns every row")
    ctx.floor("C17.j serialiser sites", len(tb) + (1 if loops_all else 0), 1)


RULES = [
    ("C17.j", rule_every_chunk_serialised, ("quick", "thorough")),
    ("C17.i", rule_rowset, ("quick", "thorough")),
    ("C17.a", rule_auth, ("quick", "thorough")),
    ("C17.b", rule_login, ("quick", "thorough")),
    ("C17.b2", rule_login_instances, ("quick", "thorough")),
    ("C17.e", rule_epoch_floor, ("quick", "thorough")),
    ("C17.f", rule_total_and_nulls, ("quick", "thorough")),
    ("C17.h", rule_wire_units, ("quick", "thorough")),
    ("C17.c", rule_error_fields, ("quick", "thorough")),
    ("C17.d", rule_fraction, ("quick", "thorough")),
]
