"""C20 — patch() and the CLI switch the fake on and off cleanly (patch() only; see DESIGN §7 for cli.split)."""

from __future__ import annotations

import ast

from ..cfg import CFG
from ..interp import Hooks, explore
from ..model import norm
from ..values import Const, Dct, Ext, Func, Lst, Obj, tagof

EXPLANATION = (
    "Typestate (acquire/release) analysis on the event CFG of the patch() generator, with exceptional edges from every "
    "call, assert and from the yield (exception thrown into the body, generator close): after any patch has been "
    "entered or the engine has been opened, every path to any exit of patch() passes the release (ExitStack close / "
    "engine close); the already-patched assertion dominates every acquiring event; both standard targets are patched "
    "first and map to the instance's connect / the fake write_pandas. The argv splitter of the CLI is a value-level "
    "algorithm whose correctness is not visible in its shape and is not decided."
)
RULE_TEXT = (
    "C20.a no path acquire ->(normal) ... -> exit/exceptional exit avoiding the release; C20.b the re-entry guard "
    "dominates every acquire; C20.c standard targets present, first, mapped to fs.connect and fakes.write_pandas; C20.d "
    "every dash option of the CLI parser takes one value (what split() assumes); C20.e a flag raised inside split()'s "
    "scan is lowered inside it."
)
TRUSTED = ["CPython ast", "contextlib.ExitStack.close() undoes every entered patch", "unittest.mock.patch restores the original on exit"]


def _stack_names(fn):
    """local names bound to contextlib.ExitStack()"""
    out = set()
    for n in ast.walk(fn):
        if isinstance(n, ast.Assign) and isinstance(n.value, ast.Call) and norm(n.value.func).endswith("ExitStack"):
            out |= {t.id for t in n.targets if isinstance(t, ast.Name)}
        if isinstance(n, ast.With):
            for it in n.items:
                if isinstance(it.context_expr, ast.Call) and norm(it.context_expr.func).endswith("ExitStack") and isinstance(it.optional_vars, ast.Name):
                    out.add(it.optional_vars.id)
    return out


def rule_release(ctx):
    prog = ctx.prog
    m = prog.mod("__init__")
    fn = prog.fn("__init__", "patch")
    ctx.analysed("__init__.patch")
    stacks = _stack_names(fn)
    # ExitStack.close() over mock.patch contexts does not fail: it is the release itself
    g = CFG(prog, "__init__", "patch", inline_depth=0,
            pure_pred=lambda c: isinstance(c.func, ast.Attribute) and c.func.attr in ("close", "callback", "push")
            and isinstance(c.func.value, ast.Name) and c.func.value.id in stacks)
    with_stack_lines = {n.lineno for n in ast.walk(fn) if isinstance(n, ast.With) and any(
        isinstance(it.context_expr, ast.Call) and norm(it.context_expr.func).endswith("ExitStack") or
        (isinstance(it.context_expr, ast.Name) and it.context_expr.id in stacks) for it in n.items)}

    def is_acquire(n):
        if n.kind != "call" or not isinstance(n.ast, ast.Call):
            return False
        f = n.ast.func
        return (isinstance(f, ast.Attribute) and f.attr in ("enter_context", "start", "__enter__")
                and (f.attr != "enter_context" or (isinstance(f.value, ast.Name) and f.value.id in stacks)))

    def is_release(n):
        if n.kind == "with_exit" and getattr(n.ast, "lineno", -1) in with_stack_lines:
            return True
        if n.kind != "call" or not isinstance(n.ast, ast.Call):
            return False
        f = n.ast.func
        return (isinstance(f, ast.Attribute) and f.attr in ("close", "stop", "__exit__", "pop_all", "stopall")
                and "duck" not in norm(f.value))

    def is_engine_open(n):
        return n.kind == "call" and isinstance(n.ast, ast.Call) and (prog.dotted(m, n.ast.func) or "").endswith("instance.FakeSnow")

    def is_engine_close(n):
        return (n.kind == "call" and isinstance(n.ast, ast.Call) and isinstance(n.ast.func, ast.Attribute)
                and n.ast.func.attr == "close" and "duck_conn" in norm(n.ast.func.value))

    is_exit = lambda n: n.kind in ("exit", "xexit")  # noqa: E731
    acquires = [n for n in g.nodes if is_acquire(n)]
    opens = [n for n in g.nodes if is_engine_open(n)]
    ctx.floor("patch acquire sites", len(acquires), 1)
    ctx.floor("engine open sites in patch", len(opens), 1)
    for a in acquires:
        path = g.path_avoiding(a, is_exit, is_release, first_edge=lambda k: k != "x")
        ctx.ob("C20.a", f"patch entered at line {a.line}: every exit passes the release", path is None, m.loc(a.ast))
        if path is not None:
            ctx.violation("C20.a", "__init__", "patch", a.ast, m.loc(a.ast),
                          "after a target has been patched there is a path out of patch() that never undoes it "
                          "(snowflake.connector.connect stays a mock, re-entry then asserts)",
                          witness=g.fmt_path(path))
    def is_close_registration(n):
        # stack.callback(fs.duck_conn.close): the engine close is handed to the stack, whose release then performs it
        return (n.kind == "call" and isinstance(n.ast, ast.Call) and isinstance(n.ast.func, ast.Attribute) and n.ast.func.attr in ("callback", "push")
                and isinstance(n.ast.func.value, ast.Name) and n.ast.func.value.id in stacks and n.ast.args
                and norm(n.ast.args[0]).endswith("duck_conn.close"))

    regs = [n for n in g.nodes if is_close_registration(n)]
    for a in opens:
        path = g.path_avoiding(a, is_exit, lambda n: is_engine_close(n) or is_close_registration(n), first_edge=lambda k: k != "x")
        if path is None:
            for r in regs:
                path = path or g.path_avoiding(r, is_exit, lambda n: is_release(n) or is_engine_close(n), first_edge=lambda k: k != "x")
        ctx.ob("C20.a", f"engine opened at line {a.line}: every exit closes it", path is None, m.loc(a.ast))
        if path is not None:
            ctx.violation("C20.a", "__init__", "patch", a.ast, m.loc(a.ast),
                          "after the instance's engine connection is opened there is a path out of patch() that never closes it",
                          witness=g.fmt_path(path))
    # C20.b guard dominates acquires
    guards = [n for n in g.nodes if n.kind == "assert" and "MagicMock" in norm(n.ast)] + [
        n for n in g.nodes if n.kind == "raise" and any("MagicMock" in norm(p.ast) for p, _ in n.pred if p.kind == "branch")]
    dom = g.dominators()
    okg = bool(guards) and all(any(gd.id in dom.get(a.id, set()) for gd in guards) for a in acquires)
    ctx.ob("C20.b", "already-patched guard dominates every acquiring event", okg, m.loc(fn))
    if not okg:
        ctx.violation("C20.b", "__init__", "patch", "re-entry guard", m.loc(fn),
                      "a patch can be entered without passing the 'already patched' check: nested patching is not refused before "
                      "it does damage (the inner exit would restore mocks as 'originals')")


class PatchHooks(Hooks):
    """patch() interpreted straight through (entered and left normally), twice in one run.  The import system is modelled:
    every module has the variables the targets name, bound to the connector's originals."""

    run_generators = True

    def __init__(self):
        self.calls: list[list] = []  # per patch() call: [(target, side_effect)]
        self.instances: list = []

    def intercept(self, I, key, args, kwargs, site, f=None):
        if key == "instance.FakeSnow.__init__":
            o = f.self_val if f is not None else None
            if not any(o is x for x in self.instances) and not getattr(o, "lazy_done", False):  # (not the interpreter's shadow object)
                self.instances.append(o)
            return Const(None)
        return NotImplemented

    def external(self, I, d, args, kwargs, site):
        if d.endswith("mock.patch"):
            self.calls[-1].append((args[0] if args else None, kwargs.get("side_effect")))
            return Obj("patcher", kind="patcher")
        if d in ("sys.modules.get", "importlib.import_module"):
            m = Obj("module", kind="module")
            dd = Dct()
            dd.shared_name = "module.__dict__"
            m.attrs["__dict__"] = dd
            return m
        return NotImplemented

    def dict_get(self, I, dct, key, site):
        if dct.shared_name == "module.__dict__":
            k = key.v if isinstance(key, Const) else None
            return Ext("snowflake.connector.pandas_tools.write_pandas" if k == "write_pandas" else "snowflake.connector.connect")
        return NotImplemented

    def isinstance_unknown(self, I, v, cls):
        return False


STD = ["snowflake.connector.connect", "snowflake.connector.pandas_tools.write_pandas"]


def rule_targets(ctx):
    """C20.c: each `with patch(extra_targets=E)` patches exactly the two standard targets and then E, in that order, each
    with this call's own instance's connect / the fake write_pandas — also when an earlier patch() had other extras."""
    prog = ctx.prog
    m = prog.mod("__init__")
    fn = prog.fn("__init__", "patch")
    loc = m.loc(fn)
    scenarios = [
        ("a list of extras, then none", [Lst([Const("mymod.connect"), Const("other.write_pandas")]), None]),
        ("one extra as a string, then a different one", [Const("mymod.connect"), Lst([Const("third.connect")])]),
        ("no extras, twice", [None, None]),
    ]
    n = 0
    for label, seq in scenarios:
        hooks = []

        def fac():
            h = PatchHooks()
            hooks.append(h)
            return h

        def run(I, seq=seq):
            f = I.global_lookup("__init__", "patch")
            for extras in seq:
                I.hooks.calls.append([])
                I.call(f, [], {} if extras is None else {"extra_targets": extras}, None)

        for p, h in zip(explore(prog, fac, run, max_paths=16), hooks):
            if p.outcome != "return":
                ctx.ob("C20.c", f"{label}: patch() enters and leaves", False, loc, repr(p.value))
                ctx.violation("C20.c", "__init__", "patch", f"{label}: raises", loc, f"patch() raises {p.value.cls} for {label}")
                continue
            for i, (extras, got) in enumerate(zip(seq, h.calls)):
                n += 1
                ex = [] if extras is None else [extras.v] if isinstance(extras, Const) else [x.v for x in extras.items]
                want = STD + ex
                names = [t.v if isinstance(t, Const) else tagof(t) for t, _ in got]
                ok = names == want
                ctx.ob("C20.c", f"{label}: call {i + 1} patches exactly the standard targets, then its own extras", ok, loc, "" if ok else str(names))
                if not ok:
                    ctx.violation("C20.c", "__init__", "patch", f"patched targets, call {i + 1} of '{label}'", loc,
                                  f"`with patch(extra_targets={ex})` (call {i + 1} of: {label}) patches {names}; it must patch {want}: "
                                  f"targets are missing, out of order, or left over from an earlier patch()")
                    continue
                inst = h.instances[i] if i < len(h.instances) else None
                bad = []
                for t, fake in got:
                    tv = t.v if isinstance(t, Const) else ""
                    if tv.endswith("write_pandas"):
                        okf = isinstance(fake, Func) and (fake.mod, fake.qual) == ("pandas_tools", "write_pandas")
                    else:
                        okf = isinstance(fake, Func) and fake.qual.endswith(".connect") and fake.self_val is inst and inst is not None
                    if not okf:
                        bad.append(f"{tv} -> {tagof(fake)}")
                ctx.ob("C20.c", f"{label}: call {i + 1} maps connect to its own instance and write_pandas to the fake", not bad, loc, str(bad))
                if bad:
                    ctx.violation("C20.c", "__init__", "patch", f"fake for {bad[0].split(' -> ')[0]}", loc,
                                  f"patch() installs {bad}: connect targets must call this patch()'s own FakeSnow instance and write_pandas the fake")
            break
    ctx.floor("C20.c patch() calls interpreted", n, 6)


def rule_cli_agreement(ctx):
    """C20.d: split() assumes every dash option is followed by its value; the parser must not define an option that
    takes none (writer/reader agreement between the two sites; the splitting algorithm itself is not decided)."""
    prog = ctx.prog
    if "cli" not in prog.modules or not prog.has_fn("cli", "split") or not prog.has_fn("cli", "arg_parser"):
        return
    m = prog.mod("cli")
    sp = prog.fn("cli", "split")
    ap = prog.fn("cli", "arg_parser")
    # does split treat "-x" as "the next token is its value"?  (a flag variable set on startswith("-") and consumed by the next token)
    assumes_value = any(isinstance(n, ast.Call) and isinstance(n.func, ast.Attribute) and n.func.attr == "startswith"
                        and n.args and isinstance(n.args[0], ast.Constant) and n.args[0].value == "-" for n in ast.walk(sp)) and \
        any(isinstance(n, ast.Assign) and isinstance(n.value, ast.Constant) and n.value.value is True for n in ast.walk(sp))
    ctx.ob("C20.d", "split() treats every dash option as value-taking", assumes_value, m.loc(sp))
    if not assumes_value:
        return
    opts = 0
    for c in ast.walk(ap):
        if isinstance(c, ast.Call) and isinstance(c.func, ast.Attribute) and c.func.attr == "add_argument":
            names = [a.value for a in c.args if isinstance(a, ast.Constant) and isinstance(a.value, str)]
            if not any(x.startswith("-") for x in names):
                continue
            opts += 1
            kw = {k.arg: k.value for k in c.keywords if k.arg}
            act = kw.get("action")
            nargs = kw.get("nargs")
            valueless = (isinstance(act, ast.Constant) and act.value in ("store_true", "store_false", "count", "store_const", "append_const", "version", "help")) or \
                (isinstance(nargs, ast.Constant) and nargs.value in (0, "?", "*"))
            ctx.ob("C20.d", f"option {names} takes exactly one value, as split() assumes", not valueless, m.loc(c))
            if valueless:
                ctx.violation("C20.d", "cli", "arg_parser", f"option {'/'.join(names)} takes no value", m.loc(c),
                              f"the option {'/'.join(names)} takes no value, but split() assumes every dash option is followed by its value: "
                              f"`fakesnow {names[0]} script.py a b` takes script.py for the option's value and hands the target the wrong arguments")
    ctx.floor("fakesnow command line options", opts, 2)


def rule_split_flag_state(ctx):
    """C20.e: a boolean state of split() that is raised inside its scan is lowered inside it too ("the previous token
    was an option" must end with the token that is its value) — otherwise every later positional is taken for a value."""
    prog = ctx.prog
    if "cli" not in prog.modules or not prog.has_fn("cli", "split"):
        return
    m = prog.mod("cli")
    fn = prog.fn("cli", "split")
    loops = [l for l in ast.walk(fn) if isinstance(l, (ast.For, ast.While))]
    n = 0
    for lp in loops:
        raised, lowered = set(), set()
        for s_ in ast.walk(lp):
            if isinstance(s_, ast.Assign) and isinstance(s_.value, ast.Constant) and isinstance(s_.value.value, bool):
                for t in s_.targets:
                    if isinstance(t, ast.Name):
                        (raised if s_.value.value else lowered).add(t.id)
        for v in sorted(raised):
            n += 1
            ok = v in lowered
            ctx.ob("C20.e", f"split(): state `{v}` set inside the scan is also cleared inside it", ok, m.loc(lp))
            if not ok:
                ctx.violation("C20.e", "cli", "split", f"state `{v}` never cleared", m.loc(lp),
                              f"`{v}` is set to True while scanning the arguments but never reset inside the scan: after one value-taking option "
                              f"(`-d dir`) the script path no longer ends fakesnow's own arguments and the target receives none of its arguments")
    ctx.floor("split() state variables", n, 1)


RULES = [
    ("C20.e", rule_split_flag_state, ("quick", "thorough")),
    ("C20.d", rule_cli_agreement, ("quick", "thorough")),
    ("C20.a", rule_release, ("quick", "thorough")),
    ("C20.c", rule_targets, ("quick", "thorough")),
]
