"""C20 — patch() and the CLI switch the fake on and off cleanly (patch() only; see DESIGN §7 for cli.split)."""

from __future__ import annotations

import ast

from ..cfg import CFG
from ..interp import Hooks, explore
from ..model import AnalysisError, norm
from ..values import Const, Dct, Ext, Func, Lst, Obj, Tup, tagof

EXPLANATION = (
    "Typestate (acquire/release) analysis on the event CFG of the patch() generator, with exceptional edges from every "
    "call, assert and from the yield (exception thrown into the body, generator close): after any patch has been "
    "entered or the engine has been opened, every path to any exit of patch() passes the release (ExitStack close / "
    "engine close); the already-patched assertion dominates every acquiring event; both standard targets are patched "
    "first and map to the instance's connect / the fake write_pandas. The argv splitter of the CLI is a value-level "
    "algorithm whose correctness is not visible in its shape and is not decided."
)
RULE_TEXT = (
    "C20.a no path acquire ->(normal) ... -> exit/exceptional exit avoiding the release; C20.b the re-entry guard "
    "dominates every acquire; C20.c patch() interpreted straight through twice per scenario (extras as list / string / "
    "none, then other extras): each call patches exactly [standard targets..., its own extras...] in order, connect -> "
    "this call's own instance, write_pandas -> the fake; C20.e split() interpreted on one canonical argv per own-option "
    "form (none, separate value, --long=value, -sVALUE, valueless) x target kind (path, -m mod, --module=mod, -mmod) x "
    "target arguments, result == the split implied by the parser's own option declarations."
)
TRUSTED = ["CPython ast", "contextlib.ExitStack.close() undoes every entered patch", "unittest.mock.patch restores the original on exit"]


def _stack_names(fn):
    """local names bound to contextlib.ExitStack()"""
    out = set()
    for n in ast.walk(fn):
        if isinstance(n, ast.Assign) and isinstance(n.value, ast.Call) and norm(n.value.func).endswith("ExitStack"):
            out |= {t.id for t in n.targets if isinstance(t, ast.Name)}
        if isinstance(n, ast.With):
            for it in n.items:
                if isinstance(it.context_expr, ast.Call) and norm(it.context_expr.func).endswith("ExitStack") and isinstance(it.optional_vars, ast.Name):
                    out.add(it.optional_vars.id)
    return out


def rule_release(ctx):
    prog = ctx.prog
    m = prog.mod("__init__")
    fn = prog.fn("__init__", "patch")
    ctx.analysed("__init__.patch")
    stacks = _stack_names(fn)
    # ExitStack.close() over mock.patch contexts does not fail: it is the release itself
    g = CFG(prog, "__init__", "patch", inline_depth=0,
            pure_pred=lambda c: isinstance(c.func, ast.Attribute) and c.func.attr in ("close", "callback", "push")
            and isinstance(c.func.value, ast.Name) and c.func.value.id in stacks)
    with_stack_lines = {n.lineno for n in ast.walk(fn) if isinstance(n, ast.With) and any(
        isinstance(it.context_expr, ast.Call) and norm(it.context_expr.func).endswith("ExitStack") or
        (isinstance(it.context_expr, ast.Name) and it.context_expr.id in stacks) for it in n.items)}

    def is_acquire(n):
        if n.kind != "call" or not isinstance(n.ast, ast.Call):
            return False
        f = n.ast.func
        return (isinstance(f, ast.Attribute) and f.attr in ("enter_context", "start", "__enter__")
                and (f.attr != "enter_context" or (isinstance(f.value, ast.Name) and f.value.id in stacks)))

    def is_release(n):
        if n.kind == "with_exit" and getattr(n.ast, "lineno", -1) in with_stack_lines:
            return True
        if n.kind != "call" or not isinstance(n.ast, ast.Call):
            return False
        f = n.ast.func
        return (isinstance(f, ast.Attribute) and f.attr in ("close", "stop", "__exit__", "pop_all", "stopall")
                and "duck" not in norm(f.value))

    def is_engine_open(n):
        return n.kind == "call" and isinstance(n.ast, ast.Call) and (prog.dotted(m, n.ast.func) or "").endswith("instance.FakeSnow")

    # `with contextlib.closing(<engine connection>)`: leaving the block closes it, on every kind of exit
    closing_lines = {n.lineno for n in ast.walk(fn) if isinstance(n, ast.With) and any(
        isinstance(it.context_expr, ast.Call) and norm(it.context_expr.func).split(".")[-1] == "closing" and it.context_expr.args
        and "duck_conn" in norm(it.context_expr.args[0]) for it in n.items)}

    def is_engine_close(n):
        if n.kind == "with_exit" and getattr(n.ast, "lineno", -1) in closing_lines:
            return True
        return (n.kind == "call" and isinstance(n.ast, ast.Call) and isinstance(n.ast.func, ast.Attribute)
                and n.ast.func.attr == "close" and "duck_conn" in norm(n.ast.func.value))

    is_exit = lambda n: n.kind in ("exit", "xexit")  # noqa: E731
    acquires = [n for n in g.nodes if is_acquire(n)]
    opens = [n for n in g.nodes if is_engine_open(n)]
    ctx.floor("patch acquire sites", len(acquires), 1)
    ctx.floor("engine open sites in patch", len(opens), 1)
    for a in acquires:
        path = g.path_avoiding(a, is_exit, is_release, first_edge=lambda k: k != "x")
        ctx.ob("C20.a", f"patch entered at line {a.line}: every exit passes the release", path is None, m.loc(a.ast))
        if path is not None:
            ctx.violation("C20.a", "__init__", "patch", a.ast, m.loc(a.ast),
                          "after a target has been patched there is a path out of patch() that never undoes it "
                          "(snowflake.connector.connect stays a mock, re-entry then asserts)",
                          witness=g.fmt_path(path))
    def is_close_registration(n):
        # stack.callback(fs.duck_conn.close): the engine close is handed to the stack, whose release then performs it
        return (n.kind == "call" and isinstance(n.ast, ast.Call) and isinstance(n.ast.func, ast.Attribute) and n.ast.func.attr in ("callback", "push")
                and isinstance(n.ast.func.value, ast.Name) and n.ast.func.value.id in stacks and n.ast.args
                and norm(n.ast.args[0]).endswith("duck_conn.close"))

    regs = [n for n in g.nodes if is_close_registration(n)]
    for a in opens:
        path = g.path_avoiding(a, is_exit, lambda n: is_engine_close(n) or is_close_registration(n), first_edge=lambda k: k != "x")
        if path is None:
            for r in regs:
                path = path or g.path_avoiding(r, is_exit, lambda n: is_release(n) or is_engine_close(n), first_edge=lambda k: k != "x")
        ctx.ob("C20.a", f"engine opened at line {a.line}: every exit closes it", path is None, m.loc(a.ast))
        if path is not None:
            ctx.violation("C20.a", "__init__", "patch", a.ast, m.loc(a.ast),
                          "after the instance's engine connection is opened there is a path out of patch() that never closes it",
                          witness=g.fmt_path(path))
    # what is closed is the connection the instance *opened* (the root every session's cursor hangs off) — not a value a
    # property manufactures per access (`return self._root.cursor()`: closing that throw-away leaves root and sessions open)
    im = prog.modules.get("instance")
    root_attrs, prop_returns = set(), {}
    if im is not None:
        for q, f_ in im.functions.items():
            if q.startswith("FakeSnow."):
                for n_ in ast.walk(f_):
                    if isinstance(n_, ast.Assign) and isinstance(n_.value, ast.Call) and (prog.dotted(im, n_.value.func) or "").endswith("duckdb.connect"):
                        root_attrs |= {t.attr for t in n_.targets if isinstance(t, ast.Attribute) and isinstance(t.value, ast.Name) and t.value.id == "self"}
                if any(isinstance(d_, ast.Name) and d_.id == "property" for d_ in f_.decorator_list):
                    prop_returns[q.split(".", 1)[1]] = [norm(r_.value) for r_ in ast.walk(f_) if isinstance(r_, ast.Return) and r_.value is not None]
    closed = []
    for n_ in ast.walk(fn):
        e_ = None
        if isinstance(n_, ast.Call) and isinstance(n_.func, ast.Attribute) and n_.func.attr == "close" and "duck_conn" in norm(n_.func.value):
            e_ = n_.func.value
        elif isinstance(n_, ast.Call) and norm(n_.func).split(".")[-1] == "closing" and n_.args and "duck_conn" in norm(n_.args[0]):
            e_ = n_.args[0]
        elif isinstance(n_, ast.Attribute) and n_.attr == "close" and "duck_conn" in norm(n_.value) and isinstance(n_.ctx, ast.Load):
            e_ = n_.value
        if isinstance(e_, ast.Attribute) and not any(e_ is c_ for c_ in closed):
            closed.append(e_)
    if root_attrs:
        for e_ in closed:
            a_ = e_.attr
            ok_root = a_ in root_attrs or (a_ in prop_returns and prop_returns[a_] and all(r_ in {f"self.{x}" for x in root_attrs} for r_ in prop_returns[a_]))
            ctx.ob("C20.a", f"patch() closes the instance's own engine connection (`{norm(e_)}`)", ok_root, m.loc(e_),
                   "" if ok_root else f"property returning {prop_returns.get(a_)}" if a_ in prop_returns else "not the attribute duckdb.connect() was stored in")
            if not ok_root:
                ctx.violation("C20.a", "__init__", "patch", f"close of `{norm(e_)}` is not the root engine connection", m.loc(e_),
                              f"patch() closes `{norm(e_)}`, which is " + (f"a property computing `{prop_returns[a_][0]}` on every access" if a_ in prop_returns and prop_returns[a_]
                                                                             else "not where the instance keeps the connection it opened")
                              + f" (the engine connection lives in `self.{sorted(root_attrs)[0]}`): leaving the block closes a throw-away handle, the root "
                                f"connection and every connection handed out stay open and usable after the block")
    # C20.b guard dominates acquires
    def leads_to_raise(b):
        """does one side of the branch raise within a few events (`if <already patched>: raise ...`)?"""
        todo, seen = [(s_, 0) for s_, k_ in b.succ if k_ != "x"], set()
        while todo:
            x, d = todo.pop()
            if x.id in seen or d > 4:
                continue
            seen.add(x.id)
            if x.kind == "raise":
                return True
            if x.kind in ("call", "store"):
                todo += [(s_, d + 1) for s_, k_ in x.succ if k_ != "x"]
        return False

    raising = [n for n in g.nodes if n.kind == "branch" and n.ast is not None and "MagicMock" in norm(n.ast) and leads_to_raise(n)]
    # the other arm of such a test is what every later event passes through
    guards = [n for n in g.nodes if n.kind == "assert" and "MagicMock" in norm(n.ast)] + [
        n for n in g.nodes if n.kind == "branch" and any(n.ast is r_.ast and n is not r_ for r_ in raising)]
    dom = g.dominators()
    okg = bool(guards) and all(any(gd.id in dom.get(a.id, set()) for gd in guards) for a in acquires)
    ctx.ob("C20.b", "already-patched guard dominates every acquiring event", okg, m.loc(fn))
    if not okg:
        ctx.violation("C20.b", "__init__", "patch", "re-entry guard", m.loc(fn),
                      "a patch can be entered without passing the 'already patched' check: nested patching is not refused before "
                      "it does damage (the inner exit would restore mocks as 'originals')")


class PatchHooks(Hooks):
    """patch() interpreted straight through (entered and left normally), twice in one run.  The import system is modelled:
    every module has the variables the targets name, bound to the connector's originals."""

    run_generators = True

    def __init__(self):
        self.calls: list[list] = []  # per patch() call: [(target, side_effect)]
        self.instances: list = []

    def intercept(self, I, key, args, kwargs, site, f=None):
        if key == "instance.FakeSnow.__init__":
            o = f.self_val if f is not None else None
            if not any(o is x for x in self.instances) and not getattr(o, "lazy_done", False):  # (not the interpreter's shadow object)
                self.instances.append(o)
            return Const(None)
        return NotImplemented

    def external(self, I, d, args, kwargs, site):
        if d.endswith("mock.patch"):
            self.calls[-1].append((args[0] if args else None, kwargs.get("side_effect")))
            return Obj("patcher", kind="patcher")
        if d in ("builtins.getattr", "getattr") and args and isinstance(args[0], Obj) and args[0].kind == "module" and len(args) >= 2:
            return self.dict_get(I, args[0].attrs["__dict__"], args[1], site)  # getattr(module, name[, default])
        if d in ("builtins.vars", "vars") and args and isinstance(args[0], Obj) and args[0].kind == "module":
            return args[0].attrs["__dict__"]
        if d in ("sys.modules.get", "importlib.import_module"):
            m = Obj("module", kind="module")
            dd = Dct()
            mn = args[0] if args else None
            mn = mn.v if isinstance(mn, Const) else (mn.text() if hasattr(mn, "text") else tagof(mn))
            dd.shared_name = "module.__dict__:nonsf" if "nonsf" in str(mn) else "module.__dict__"
            m.attrs["__dict__"] = dd
            return m
        return NotImplemented

    def dict_get(self, I, dct, key, site):
        if dct.shared_name == "module.__dict__:nonsf":
            return Ext("nonsf.lib.connect")  # a function that is not one of the connector's
        if dct.shared_name == "module.__dict__":
            k = key.v if isinstance(key, Const) else None
            return Ext("snowflake.connector.pandas_tools.write_pandas" if k in ("write_pandas", "wp") else "snowflake.connector.connect")
        return NotImplemented

    def isinstance_unknown(self, I, v, cls):
        return False


STD = ["snowflake.connector.connect", "snowflake.connector.pandas_tools.write_pandas"]


def rule_targets(ctx):
    """C20.c: each `with patch(extra_targets=E)` patches exactly the two standard targets and then E, in that order, each
    with this call's own instance's connect / the fake write_pandas — also when an earlier patch() had other extras."""
    prog = ctx.prog
    m = prog.mod("__init__")
    fn = prog.fn("__init__", "patch")
    loc = m.loc(fn)
    scenarios = [
        ("a list of extras, then none", [Lst([Const("mymod.connect"), Const("other.write_pandas")]), None]),
        ("one extra as a string, then a different one", [Const("mymod.connect"), Lst([Const("third.connect")])]),
        ("no extras, twice", [None, None]),
        ("a tuple of extras (any Sequence[str] is accepted)", [Tup([Const("mymod.connect"), Const("other.write_pandas")])]),
        ("from-import targets under other names (app.sf_connect, app.wp)", [Lst([Const("app.sf_connect"), Const("app.wp")])]),
    ]
    n = 0
    for label, seq in scenarios:
        hooks = []

        def fac():
            h = PatchHooks()
            hooks.append(h)
            return h

        def run(I, seq=seq):
            f = I.global_lookup("__init__", "patch")
            for extras in seq:
                I.hooks.calls.append([])
                I.call(f, [], {} if extras is None else {"extra_targets": extras}, None)

        for p, h in zip(explore(prog, fac, run, max_paths=16), hooks):
            if p.outcome != "return":
                ctx.ob("C20.c", f"{label}: patch() enters and leaves", False, loc, repr(p.value))
                ctx.violation("C20.c", "__init__", "patch", f"{label}: raises", loc, f"patch() raises {p.value.cls} for {label}")
                continue
            for i, (extras, got) in enumerate(zip(seq, h.calls)):
                n += 1
                ex = [] if extras is None else [extras.v] if isinstance(extras, Const) else [x.v for x in extras.items]
                want = STD + ex
                names = [t.v if isinstance(t, Const) else tagof(t) for t, _ in got]
                ok = names == want
                ctx.ob("C20.c", f"{label}: call {i + 1} patches exactly the standard targets, then its own extras", ok, loc, "" if ok else str(names))
                if not ok:
                    ctx.violation("C20.c", "__init__", "patch", f"patched targets, call {i + 1} of '{label}'", loc,
                                  f"`with patch(extra_targets={ex})` (call {i + 1} of: {label}) patches {names}; it must patch {want}: "
                                  f"targets are missing, out of order, or left over from an earlier patch()")
                    continue
                inst = h.instances[i] if i < len(h.instances) else None
                bad = []
                for t, fake in got:
                    tv = t.v if isinstance(t, Const) else ""
                    if tv.endswith(("write_pandas", ".wp")):
                        okf = isinstance(fake, Func) and (fake.mod, fake.qual) == ("pandas_tools", "write_pandas")
                    else:
                        okf = isinstance(fake, Func) and fake.qual.endswith(".connect") and fake.self_val is inst and inst is not None
                    if not okf:
                        bad.append(f"{tv} -> {tagof(fake)}")
                ctx.ob("C20.c", f"{label}: call {i + 1} maps connect to its own instance and write_pandas to the fake", not bad, loc, str(bad))
                if bad:
                    ctx.violation("C20.c", "__init__", "patch", f"fake for {bad[0].split(' -> ')[0]}", loc,
                                  f"patch() installs {bad}: connect targets must call this patch()'s own FakeSnow instance and write_pandas the fake")
            break
    ctx.floor("C20.c patch() calls interpreted", n, 7)
    # a target that holds something other than the connector's functions is refused, whatever it is called
    hooks = []

    def fac2():
        h = PatchHooks()
        hooks.append(h)
        return h

    def run2(I):
        I.hooks.calls.append([])
        return I.call(I.global_lookup("__init__", "patch"), [], {"extra_targets": Lst([Const("nonsf.lib.connect")])}, None)

    for p, h in zip(explore(prog, fac2, run2, max_paths=16), hooks):
        extra_patched = [t for t, _ in h.calls[-1] if isinstance(t, Const) and t.v == "nonsf.lib.connect"]
        ok = p.outcome == "raise" and not extra_patched
        ctx.ob("C20.c", "an extra target holding a non-snowflake function (even one called `connect`) is refused", ok, loc)
        if not ok:
            ctx.violation("C20.c", "__init__", "patch", "non-snowflake target accepted", loc,
                          "`patch(extra_targets=['nonsf.lib.connect'])`, where that name holds a function that is not the connector's, is "
                          "accepted and replaced by the fake: targets must be recognised by the object they hold, not by their name")
        break


def _parser_options(prog):
    """dash options of the CLI parser: (all option strings, those of the module option, those that take no value)"""
    fn = prog.fn("cli", "arg_parser")
    opts, module, valueless = set(), set(), set()
    for c in ast.walk(fn):
        if isinstance(c, ast.Call) and isinstance(c.func, ast.Attribute) and c.func.attr == "add_argument":
            names = [x.value for x in c.args if isinstance(x, ast.Constant) and isinstance(x.value, str) and x.value.startswith("-")]
            if not names:
                continue
            opts.update(names)
            kw = {k.arg: k.value for k in c.keywords if k.arg}
            dest = kw.get("dest")
            if (isinstance(dest, ast.Constant) and dest.value == "module") or "--module" in names:
                module.update(names)
            act, nargs = kw.get("action"), kw.get("nargs")
            if (isinstance(act, ast.Constant) and act.value in ("store_true", "store_false", "count", "store_const", "append_const", "version", "help")) or \
                    (isinstance(nargs, ast.Constant) and nargs.value == 0):
                valueless.update(names)
    return opts, module, valueless


def _want_split(argv, opts, module, valueless=frozenset()):
    """what fakesnow's own arguments are, by argparse's rules for one-value options (separate, --long=value, -sVALUE)
    and for options that take no value"""
    i = 0
    longs = [o for o in (set(opts) | set(module) | set(valueless)) if o.startswith("--")]
    argv = list(argv)
    while i < len(argv):
        a = argv[i]
        if a.startswith("--") and a.split("=", 1)[0] not in longs:
            # argparse (allow_abbrev) accepts an unambiguous prefix of a long option: `--db_p DIR` is `--db_path DIR`
            cands = [o for o in longs if o.startswith(a.split("=", 1)[0])]
            if len(cands) == 1:
                a = cands[0] + a[len(a.split("=", 1)[0]):]
        if a in valueless:
            i += 1
            continue
        if a in module:
            return argv[: i + 2], argv[i + 2:]
        head = a.split("=", 1)[0]
        attached = a.startswith("-") and not a.startswith("--") and len(a) > 2 and a[:2] in opts
        if (a.startswith("--") and "=" in a and head in module) or (attached and a[:2] in module):
            return argv[: i + 1], argv[i + 1:]
        if a in opts:
            i += 2
            continue
        if (a.startswith("--") and "=" in a and head in opts) or attached:
            i += 1
            continue
        return argv[: i + 1], argv[i + 1:]  # the first positional is the script path
    return argv, []


def rule_split_forms(ctx):
    """C20.e: split() interpreted on one canonical argument list per option form (separate value, --long=value, -sVALUE) x
    target kind (script path, -m module) x target arguments (none, plain, looking like fakesnow's own options): fakesnow's
    part ends with the script path / the module name, the target gets exactly the rest, in order.  Decides the forms, not
    every argument list."""
    prog = ctx.prog
    if "cli" not in prog.modules or not prog.has_fn("cli", "split") or not prog.has_fn("cli", "arg_parser"):
        return
    m = prog.mod("cli")
    fn = prog.fn("cli", "split")
    loc = m.loc(fn)
    opts, module, valueless = _parser_options(prog)
    if not opts or not module:
        raise AnalysisError("cli: the parser's dash options / module option were not found")
    valued = sorted(opts - module - valueless)
    short = next((o for o in valued if not o.startswith("--")), None)
    long_ = next((o for o in valued if o.startswith("--")), None)
    mshort = next((o for o in sorted(module) if not o.startswith("--")), None)
    mlong = next((o for o in sorted(module) if o.startswith("--")), None)
    own_forms = [[]]
    if short:
        own_forms += [[short, "V"], [short + "V"]]
    if long_:
        own_forms += [[long_, "V"], [long_ + "=V"]]
        abbr = long_[:-2]
        no_abbrev = any(isinstance(c, ast.Call) and norm(c.func).endswith("ArgumentParser") and any(
            k.arg == "allow_abbrev" and isinstance(k.value, ast.Constant) and k.value.value is False for k in c.keywords) for c in ast.walk(m.tree))
        if len(abbr) > 3 and not no_abbrev and sum(1 for o in opts | module | valueless if o.startswith(abbr)) == 1:
            own_forms += [[abbr, "V"]]  # the parser accepts unambiguous prefixes of long options
    for o in sorted(valueless)[:2]:  # an option without a value is complete by itself (C20.d: split()/parser agreement)
        own_forms += [[o], [o, short, "V"]] if short else [[o]]
    targets = [["script.py"]]
    if mshort:
        targets += [[mshort, "mod"], [mshort + "mod"]]
    if mlong:
        targets += [[mlong, "mod"], [mlong + "=mod"]]
    tails = [[], ["a", "b"], [short or "-x", "Y", mshort or "-m", "z"]]
    n = 0
    for own in own_forms:
        for tgt in targets:
            for tail in tails:
                argv = own + tgt + tail
                want = _want_split(argv, opts, module, valueless)

                def run(I, argv=argv):
                    return I.call(I.global_lookup("cli", "split"), [Lst([Const(x) for x in argv])], {}, None)

                for p in explore(prog, Hooks, run, max_paths=8):
                    n += 1
                    got = None
                    if p.outcome == "return" and isinstance(p.value, Obj) and getattr(p.value, "tuple_fields", None):
                        p.value = Tup([p.value.attrs.get(f_) for f_ in p.value.tuple_fields])  # a NamedTuple result is the pair
                    if p.outcome == "return" and isinstance(p.value, (Tup, Lst)) and len(p.value.items) == 2 and all(
                            isinstance(x, (Lst, Tup)) and all(isinstance(y, Const) for y in x.items) for x in p.value.items):
                        got = tuple([y.v for y in x.items] for x in p.value.items)
                    ok = got is not None and (got[0], got[1]) == (want[0], want[1])
                    ctx.ob("C20.e", f"split({argv}) == ({want[0]}, {want[1]})", ok, loc, "" if ok else str(got))
                    if not ok:
                        form = f"{own[0]} takes no value" if own and own[0] in valueless else "separate value" if own and len(own) == 2 else "value attached with '='" if own and "=" in own[0] else "value attached to the short option" if own else "no own option"
                        ctx.violation("C20.e", "cli", "split", f"own option form: {form}; target {'module' if tgt[0].startswith('-') else 'path'} "
                                      f"{'=' if '=' in tgt[0] else 'attached' if tgt[0].startswith('-') and len(tgt) == 1 else 'separate'}", loc,
                                      f"`fakesnow {' '.join(argv)}`: split() gives fakesnow {got[0] if got else '?'} and the target {got[1] if got else '?'}; "
                                      f"by the parser's own option forms fakesnow's part is {want[0]} and the target's arguments are {want[1]} — the "
                                      f"target loses (or gains) arguments")
                    break
    ctx.floor("C20.e split() scenarios", n, 30)


RULES = [
    ("C20.e", rule_split_forms, ("quick", "thorough")),
    ("C20.a", rule_release, ("quick", "thorough")),
    ("C20.c", rule_targets, ("quick", "thorough")),
]
