"""Operand wiring of the rewrite stages (shared by C10.d and C11.d).

Each case interprets ONE stage function on an abstract input node whose operands are *symbols* (so the
result holds for every argument value) and compares the abstract product with the shape Snowflake's
documented semantics require: which operand ends up in which slot, which defaults are filled in
(precision 38 / scale 0, position 1, occurrence 1, replacement ''), which forms are rejected.
The comparison is structural over abstract nodes — not over source text — so a refactoring that builds
the same product in another way stays silent.
"""

from __future__ import annotations

from ..execmodel import ExecHooks, lit, node
from ..interp import explore
from ..values import Const, EnumV, Lst, NodeV, Str, Sym, Tup, tagof


def S(name):  # a symbolic operand (any expression)
    return NodeV("Column", {"this": NodeV("Identifier", {"this": Const(name), "quoted": Const(False)}, name=f"id:{name}", open=False)},
                 name=f"operand:{name}", open=False)


def anon(fname, *ops):
    return node("Anonymous", "stmt", this=Const(fname), expressions=Lst(list(ops)))


def dtype(member, *params, **kw):
    a = {"this": EnumV(f"DataType.Type.{member}"), "nested": Const(False)}
    if params:
        a["expressions"] = Lst(list(params))
    a.update(kw)
    return node("DataType", **a)


# ---------------------------------------------------------------------- pattern matching
class P:
    """pattern: node of class cls with the given slots (other slots unconstrained)"""

    def __init__(self, cls, **slots):
        self.cls, self.slots = cls, slots


class IS:
    def __init__(self, obj):
        self.obj = obj


class LITERAL:
    def __init__(self, text, is_string=None):
        self.text, self.is_string = text, is_string


class ENUM:
    def __init__(self, member):
        self.member = member


class LIST:
    def __init__(self, *items):
        self.items = items


class ABSENT:
    pass


def match(v, pat, path="product") -> str | None:
    """None if v matches, else a description of the first mismatch."""
    if isinstance(pat, IS):
        return None if v is pat.obj or (isinstance(v, NodeV) and getattr(v, "copy_of", None) is pat.obj) else f"{path} is `{tagof(v)}`, expected the operand `{tagof(pat.obj)}`"
    if isinstance(pat, ABSENT):
        return None if v is None or (isinstance(v, Const) and v.v in (None, False)) else f"{path} is `{tagof(v)}`, expected nothing"
    if isinstance(pat, ENUM):
        return None if isinstance(v, EnumV) and v.member == pat.member else f"{path} is `{tagof(v)}`, expected type {pat.member}"
    if isinstance(pat, LITERAL):
        if not (isinstance(v, NodeV) and v.cls == "Literal"):
            return f"{path} is `{tagof(v)}`, expected the literal {pat.text!r}"
        t = v.args.get("this")
        txt = t.v if isinstance(t, Const) else t.text() if isinstance(t, Str) else tagof(t)
        if str(txt) != pat.text:
            return f"{path} is the literal {txt!r}, expected {pat.text!r}"
        if pat.is_string is not None:
            s = v.args.get("is_string")
            if not (isinstance(s, Const) and bool(s.v) == pat.is_string):
                return f"{path} literal {txt!r} has is_string={tagof(s)}"
        return None
    if isinstance(pat, LIST):
        items = v.items if isinstance(v, (Lst, Tup)) else None
        if items is None or len(items) != len(pat.items):
            return f"{path} has {len(items) if items is not None else '?'} element(s), expected {len(pat.items)}"
        for i, (x, p) in enumerate(zip(items, pat.items)):
            r = match(x, p, f"{path}[{i}]")
            if r:
                return r
        return None
    if isinstance(pat, P):
        if not isinstance(v, NodeV) or v.cls != pat.cls:
            return f"{path} is `{tagof(v)}` ({getattr(v, 'cls', type(v).__name__)}), expected a {pat.cls} node"
        for k, p in pat.slots.items():
            r = match(v.args.get(k), p, f"{path}.{k}")
            if r:
                return r
        return None
    if isinstance(pat, str):
        if isinstance(v, Const) and v.v == pat:
            return None
        if isinstance(v, NodeV) and v.cls in ("Var", "Identifier") and isinstance(v.args.get("this"), Const) and v.args["this"].v == pat:
            return None
        return f"{path} is `{tagof(v)}`, expected {pat!r}"
    if callable(pat):
        return pat(v, path)
    return f"{path}: unsupported pattern"


UNCHANGED = object()
RAISES = object()


def run_cases(ctx, rule_id, cases):
    """cases: (name, stage function, input factory -> (node, {operand names}), expected factory(inputs) -> pattern | UNCHANGED | RAISES, why)"""
    prog = ctx.prog
    n = 0
    for name, stage, make, expect, why in cases:
        if not prog.has_fn("transforms", stage):
            ctx.ob(rule_id, f"{name}: stage {stage} present", None, "fakesnow/transforms.py", "stage function not found")
            continue
        runs = []

        def run(I, make=make, stage=stage):
            inp, ops = make()
            runs.append((inp, ops))
            return I.call(I.global_lookup("transforms", stage), [inp], {}, None)

        fn = prog.fn("transforms", stage)
        loc = prog.mod("transforms").loc(fn)
        paths = explore(prog, lambda: ExecHooks(None), run, max_paths=64)
        for p, (inp, ops) in zip(paths, runs):
            n += 1
            # re-create expectations against this path's operands: explore re-runs `make` per path, the last call is this path's
            want = expect(ops, inp) if callable(expect) else expect
            if want is RAISES:
                ok = p.outcome == "raise" and p.value.cls.endswith("NotImplementedError")
                why_not = f"returns `{tagof(p.value)}`" if p.outcome == "return" else f"raises {p.value.cls}"
            elif p.outcome != "return":
                ok, why_not = False, f"raises {p.value.cls}"
            elif want is UNCHANGED:
                ok = p.value is inp
                why_not = f"rewrites it to `{tagof(p.value)}`"
            else:
                r = match(p.value, want)
                ok, why_not = r is None, r
            ctx.ob(rule_id, f"{name}", ok, loc, "" if ok else str(why_not))
            if not ok:
                ctx.violation(rule_id, "transforms", stage, name, loc, f"{name}: the stage `{stage}` {why_not} — {why}")
            break  # closed inputs give one path; further paths come from irrelevant unknowns
    return n
