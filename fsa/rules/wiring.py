"""Operand wiring of the rewrite stages (shared by C10.d and C11.d).

Each case interprets ONE stage function on an abstract input node whose operands are *symbols* (so the
result holds for every argument value) and compares the abstract product with the shape Snowflake's
documented semantics require: which operand ends up in which slot, which defaults are filled in
(precision 38 / scale 0, position 1, occurrence 1, replacement ''), which forms are rejected.
The comparison is structural over abstract nodes — not over source text — so a refactoring that builds
the same product in another way stays silent.
"""

from __future__ import annotations

from ..execmodel import ExecHooks, lit, node
from ..interp import explore
from ..values import Const, EnumV, Lst, NodeV, Str, Sym, Tup, tagof


def S(name):  # a symbolic operand (any expression)
    return NodeV("Column", {"this": NodeV("Identifier", {"this": Const(name), "quoted": Const(False)}, name=f"id:{name}", open=False)},
                 name=f"operand:{name}", open=False)


def anon(fname, *ops):
    return node("Anonymous", "stmt", this=Const(fname), expressions=Lst(list(ops)))


def dtype(member, *params, **kw):
    a = {"this": EnumV(f"DataType.Type.{member}"), "nested": Const(False)}
    if params:
        a["expressions"] = Lst(list(params))
    a.update(kw)
    return node("DataType", **a)


# ---------------------------------------------------------------------- pattern matching
class P:
    """pattern: node of class cls with the given slots (other slots unconstrained)"""

    def __init__(self, cls, **slots):
        self.cls, self.slots = cls, slots


class IS:
    def __init__(self, obj):
        self.obj = obj


class LITERAL:
    def __init__(self, text, is_string=None):
        self.text, self.is_string = text, is_string


class ENUM:
    def __init__(self, member):
        self.member = member


class LIST:
    def __init__(self, *items):
        self.items = items


class ABSENT:
    pass


def match(v, pat, path="product") -> str | None:
    """None if v matches, else a description of the first mismatch."""
    if isinstance(pat, IS):
        return None if v is pat.obj or (isinstance(v, NodeV) and getattr(v, "copy_of", None) is pat.obj) else f"{path} is `{tagof(v)}`, expected the operand `{tagof(pat.obj)}`"
    if isinstance(pat, ABSENT):
        return None if v is None or (isinstance(v, Const) and v.v in (None, False)) else f"{path} is `{tagof(v)}`, expected nothing"
    if isinstance(pat, ENUM):
        return None if isinstance(v, EnumV) and v.member == pat.member else f"{path} is `{tagof(v)}`, expected type {pat.member}"
    if isinstance(pat, LITERAL):
        if not (isinstance(v, NodeV) and v.cls == "Literal"):
            return f"{path} is `{tagof(v)}`, expected the literal {pat.text!r}"
        t = v.args.get("this")
        txt = t.v if isinstance(t, Const) else t.text() if isinstance(t, Str) else tagof(t)
        if str(txt) != pat.text:
            return f"{path} is the literal {txt!r}, expected {pat.text!r}"
        if pat.is_string is not None:
            s = v.args.get("is_string")
            if not (isinstance(s, Const) and bool(s.v) == pat.is_string):
                return f"{path} literal {txt!r} has is_string={tagof(s)}"
        return None
    if isinstance(pat, LIST):
        items = v.items if isinstance(v, (Lst, Tup)) else None
        if items is None or len(items) != len(pat.items):
            return f"{path} has {len(items) if items is not None else '?'} element(s), expected {len(pat.items)}"
        for i, (x, p) in enumerate(zip(items, pat.items)):
            r = match(x, p, f"{path}[{i}]")
            if r:
                return r
        return None
    if isinstance(pat, P):
        if not isinstance(v, NodeV) or v.cls != pat.cls:
            return f"{path} is `{tagof(v)}` ({getattr(v, 'cls', type(v).__name__)}), expected a {pat.cls} node"
        for k, p in pat.slots.items():
            r = match(v.args.get(k), p, f"{path}.{k}")
            if r:
                return r
        return None
    if isinstance(pat, str):
        if isinstance(v, Const) and v.v == pat:
            return None
        if isinstance(v, NodeV) and v.cls in ("Var", "Identifier") and isinstance(v.args.get("this"), Const) and v.args["this"].v == pat:
            return None
        return f"{path} is `{tagof(v)}`, expected {pat!r}"
    if callable(pat):
        return pat(v, path)
    return f"{path}: unsupported pattern"


UNCHANGED = object()
RAISES = object()


def run_cases(ctx, rule_id, cases):
    """cases: (name, stage function, input factory -> (node, {operand names}), expected factory(inputs) -> pattern | UNCHANGED | RAISES, why)"""
    prog = ctx.prog
    n = 0
    for name, stage, make, expect, why in cases:
        if not prog.has_fn("transforms", stage):
            ctx.ob(rule_id, f"{name}: stage {stage} present", None, "fakesnow/transforms.py", "stage function not found")
            continue
        runs = []

        def run(I, make=make, stage=stage):
            inp, ops = make()
            runs.append((inp, ops))
            return I.call(I.global_lookup("transforms", stage), [inp], {}, None)

        fn = prog.fn("transforms", stage)
        loc = prog.mod("transforms").loc(fn)
        paths = explore(prog, lambda: ExecHooks(None), run, max_paths=64)
        for p, (inp, ops) in zip(paths, runs):
            n += 1
            # re-create expectations against this path's operands: explore re-runs `make` per path, the last call is this path's
            want = expect(ops, inp) if callable(expect) else expect
            if want is RAISES:
                ok = p.outcome == "raise" and p.value.cls.endswith("NotImplementedError")
                why_not = f"returns `{tagof(p.value)}`" if p.outcome == "return" else f"raises {p.value.cls}"
            elif p.outcome != "return":
                ok, why_not = False, f"raises {p.value.cls}"
            elif want is UNCHANGED:
                # the same node, and nothing below it rewritten in place (set / replace / append on a node of the input)
                touched = [e for e in p.effects if e[0] in ("nodeset", "nodereplace")]
                ok = p.value is inp and not touched
                if p.value is not inp or not touched:
                    why_not = f"rewrites it to `{tagof(p.value)}`"
                else:
                    t0 = touched[0]
                    why_not = f"rewrites it in place ({t0[0]} `{tagof(t0[1])}`" + (f".{t0[2]} := {tagof(t0[3])}" if t0[0] == "nodeset" else "") + ")"
            else:
                r = match(p.value, want)
                ok, why_not = r is None, r
            ctx.ob(rule_id, f"{name}", ok, loc, "" if ok else str(why_not))
            if not ok:
                ctx.violation(rule_id, "transforms", stage, name, loc, f"{name}: the stage `{stage}` {why_not} — {why}")
            break  # closed inputs give one path; further paths come from irrelevant unknowns
    return n


# ---------------------------------------------------------------------- closure under earlier stages
def _fresh_paths(root):
    """paths (tuples of arg keys / list indices) to the nodes of a product that the producing stage constructed"""
    out, seen = [], set()

    def walk(v, path):
        if id(v) in seen:
            return
        seen.add(id(v))
        if isinstance(v, NodeV):
            if getattr(v, "fresh", False):
                out.append(path)
            for k, x in v.args.items():
                if ":" not in k:
                    walk(x, path + (k,))
        elif isinstance(v, (Lst, Tup)):
            for i, x in enumerate(v.items):
                walk(x, path + (i,))

    walk(root, ())
    return out


def _at(root, path):
    v = root
    for k in path:
        v = v.items[k] if isinstance(k, int) else v.args[k]
    return v


def _same_shape(a, b, depth=0) -> bool:
    """structural equality of two abstract values (a stage that rebuilds an identical node changes nothing)"""
    if a is b:
        return True
    if depth > 6 or type(a) is not type(b):
        return False
    if isinstance(a, NodeV):
        ka = {k for k, v in a.args.items() if ":" not in k and not (isinstance(v, Const) and v.v in (None, False))}
        kb = {k for k, v in b.args.items() if ":" not in k and not (isinstance(v, Const) and v.v in (None, False))}
        return a.cls == b.cls and ka == kb and all(_same_shape(a.args[k], b.args[k], depth + 1) for k in ka)
    if isinstance(a, Const):
        return a.v == b.v
    if isinstance(a, (Lst, Tup)):
        return len(a.items) == len(b.items) and all(_same_shape(x, y, depth + 1) for x, y in zip(a.items, b.items))
    if isinstance(a, EnumV):
        return a.member == b.member
    return tagof(a) == tagof(b)


def run_closure(ctx, rule_id, cases, exceptions=None):
    """A node constructed by stage i must not be one that a stage j < i would still rewrite: transform() visits every node
    once per stage, so a node that appears only after stage j ran never gets j's rewrite.  For each wiring case the product
    of its stage is built, and every earlier stage whose match classes admit one of the product's fresh nodes is
    interpreted on that node; the node must come back unchanged.  exceptions: {(producer, consumer): reason}."""
    from .. import pipeline

    prog = ctx.prog
    exceptions = exceptions or {}
    st = pipeline.stages(prog)
    first_index = {}
    for s in st:
        first_index.setdefault(s.name, s.index)
    sg = prog.sqlglot
    n = 0
    reported = set()
    for name, stage, make, expect, why in cases:
        if stage not in first_index or not prog.has_fn("transforms", stage):
            continue
        i = first_index[stage]
        probe = []

        def run0(I, make=make, stage=stage):
            inp, ops = make()
            r = I.call(I.global_lookup("transforms", stage), [inp], {}, None)
            probe.append((inp, r))
            return r

        paths0 = explore(prog, lambda: ExecHooks(None), run0, max_paths=64)
        if not paths0 or paths0[0].outcome != "return" or not isinstance(paths0[0].value, NodeV) or paths0[0].value is probe[0][0]:
            continue
        product = paths0[0].value
        fresh = _fresh_paths(product)
        for s in st[:i]:
            if s.fn is None or s.name == stage or (stage, s.name) in exceptions:
                continue
            sm = pipeline.summary(prog, s.fn).match
            for path in fresh:
                node_ = _at(product, path)
                if sm and not any(node_.cls and sg.issub(node_.cls, mc) for mc in sm):
                    continue
                res = []

                def run1(I, make=make, stage=stage, s=s, path=path):
                    inp, ops = make()
                    r = I.call(I.global_lookup("transforms", stage), [inp], {}, None)
                    tgt = _at(r, path)
                    mark = len(I.effects)
                    kw = {k: Sym(f"stagearg:{k}", typ="str", truthy=True) for k in s.kwargs if not k.startswith("#")}
                    out = I.call(I.global_lookup("transforms", s.name), [tgt], kw, None)
                    res.append((tgt, out, [e for e in I.effects[mark:] if e[0] in ("nodeset", "nodereplace") and e[1] is tgt]))
                    return out

                try:
                    ps = explore(prog, lambda: ExecHooks(None), run1, max_paths=16)
                except Exception:  # noqa: BLE001  (a stage that cannot be interpreted on this fragment gives no verdict)
                    continue
                if not ps or not res:
                    continue
                p, (tgt, out, eff) = ps[0], res[0]
                n += 1
                changed = p.outcome == "return" and ((out is not tgt and not _same_shape(out, tgt)) or bool(eff))
                loc = prog.mod("transforms").loc(prog.fn("transforms", stage))
                ctx.ob(rule_id, f"{stage} (stage {i}) builds {node_.cls}: the earlier stage {s.name} (stage {s.index}) has nothing left to do on it",
                       not changed, loc, "" if not changed else f"{s.name} would rewrite it to `{tagof(out)}`")
                if changed and (stage, s.name) not in reported:
                    reported.add((stage, s.name))
                    ctx.violation(rule_id, "cursor", "FakeSnowflakeCursor._transform", f"{stage} after {s.name}", "fakesnow/cursor.py",
                                  f"stage `{stage}` (position {i}) constructs a {node_.cls} node (case: {name}) that the earlier stage `{s.name}` "
                                  f"(position {s.index}) would rewrite to `{tagof(out)[:60]}`; each stage visits the tree once, so the new node never "
                                  f"gets that rewrite — `{s.name}` must run after `{stage}` (or the product must already be in final form)")
    return n


# ---------------------------------------------------------------------- self-nesting
def run_self_nesting(ctx, rule_id, cases, matters: dict):
    """sqlglot's transform() does not descend below a node the stage *replaced*.  A stage that returns a new node which embeds
    an operand therefore never sees an occurrence of its own pattern nested in that operand (TO_DECIMAL(1 + TO_DECIMAL(x)),
    v['a']['b']), unless it recurses itself.  For each wiring case with a symbolic operand the input is nested into itself
    (operand := another instance of the same input) and the stage is interpreted on the outer node; if the product is a new
    node that still contains the inner instance unrewritten, the nested occurrence is lost.  `matters`: stage -> a nested
    input that was confirmed to be meaningful Snowflake (only those are verdicts; the others are listed unclassified)."""
    prog = ctx.prog
    n = 0
    seen = set()
    for name, stage, make, expect, why in cases:
        if not prog.has_fn("transforms", stage) or expect in (UNCHANGED, RAISES):
            continue
        holder = {}

        def run(I, make=make, stage=stage):
            inner, iops = make()
            outer, oops = make()
            # the first symbolic operand of the outer instance becomes the inner instance
            target = next((v for v in oops.values() if isinstance(v, NodeV) and v.name.startswith("operand:")), None)
            if target is None:
                holder["skip"] = True
                return Const(None)
            placed = False
            seen_ids = set()

            def place(node_):
                nonlocal placed
                if id(node_) in seen_ids or placed:
                    return
                seen_ids.add(id(node_))
                for k, v in list(node_.args.items()):
                    if v is target:
                        node_.args[k] = inner
                        inner.parent = node_
                        placed = True
                        return
                    if isinstance(v, (Lst, Tup)):
                        for i, x in enumerate(v.items):
                            if x is target:
                                v.items[i] = inner
                                inner.parent = node_
                                placed = True
                                return
                            if isinstance(x, NodeV):
                                place(x)
                    elif isinstance(v, NodeV):
                        place(v)

            place(outer)
            if not placed:
                holder["skip"] = True
                return Const(None)
            holder.update(inner=inner, outer=outer, inner_cls=inner.cls)
            return I.call(I.global_lookup("transforms", stage), [outer], {}, None)

        try:
            paths = explore(prog, lambda: ExecHooks(None), run, max_paths=64)
        except Exception:  # noqa: BLE001
            continue
        if not paths or holder.get("skip") or paths[0].outcome != "return" or "inner" not in holder:
            continue
        p = paths[0]
        outer, inner = holder["outer"], holder["inner"]
        if p.value is outer or not isinstance(p.value, NodeV):
            continue  # rewritten in place (or left alone): transform() goes on into the children
        # is the very inner instance (unrewritten) still inside the product?
        found = False
        seen_ids = set()

        def walk(v):
            nonlocal found
            if id(v) in seen_ids or found:
                return
            seen_ids.add(id(v))
            if v is inner or getattr(v, "copy_of", None) is inner:
                found = True
                return
            if isinstance(v, NodeV):
                for k, x in v.args.items():
                    if ":" not in k:
                        walk(x)
            elif isinstance(v, (Lst, Tup)):
                for x in v.items:
                    walk(x)

        walk(p.value)
        if not found or (stage, name) in seen:
            continue
        seen.add((stage, name))
        n += 1
        loc = prog.mod("transforms").loc(prog.fn("transforms", stage))
        verdict = False if stage in matters else None
        ctx.ob(rule_id, f"{stage}: an occurrence nested in its own operand is rewritten too ({name[:50]})", verdict, loc,
               "the product is a new node that embeds the operand unvisited")
        if stage in matters and stage not in {s for s, _ in [k for k in seen if k[1] != name]}:
            ctx.violation(rule_id, "transforms", stage, "nested occurrence in the operand is never rewritten", loc,
                          f"`{stage}` replaces the node it matches by a new node that embeds the operand as it is; sqlglot's transform() does not "
                          f"descend below a replaced node, so the same construct nested in the operand is never rewritten — e.g. `{matters[stage]}` "
                          f"reaches DuckDB with the inner call untouched")
    return n
