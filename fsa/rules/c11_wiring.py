"""C11.d — operand wiring of the semi-structured rewrites."""

from __future__ import annotations

from ..execmodel import lit, node, table
from ..values import Const, EnumV, Lst, NodeV
from .wiring import ABSENT, ENUM, IS, LIST, LITERAL, P, RAISES, S, UNCHANGED, anon, dtype, run_cases


def cases():
    out = []

    def add(name, stage, make, expect, why):
        out.append((name, stage, make, expect, why))

    def mk(builder):
        def f():
            ops = {}
            n = builder(ops)
            return n, ops
        return f

    def op(ops, k, v=None):
        ops[k] = v if v is not None else S(k)
        return ops[k]

    def jpath():
        return node("JSONPath", expressions=Lst([node("JSONPathRoot"), node("JSONPathKey", this=Const("a"))]))

    add("TRY_PARSE_JSON(x) -> TRY_CAST(x AS JSON)", "try_parse_json", mk(lambda o: anon("try_parse_json", op(o, "x"))),
        lambda o, i: P("TryCast", this=IS(o["x"]), to=P("DataType", this=ENUM("JSON"))), "invalid JSON must give NULL, valid JSON a VARIANT")
    add("OBJECT_CONSTRUCT drops NULL-valued and NULL-keyed pairs, keeps the others in order", "object_construct",
        mk(lambda o: node("Struct", "stmt", expressions=Lst([
            op(o, "kv1", node("PropertyEQ", this=lit("a", True), expression=lit("1", False))),
            node("PropertyEQ", this=lit("b", True), expression=node("Null")),
            node("PropertyEQ", this=node("Null"), expression=lit("2", False)),
            op(o, "kv2", node("PropertyEQ", this=lit("c", True), expression=S("v")))]))),
        lambda o, i: P("Anonymous", this="TO_JSON", expressions=LIST(P("Struct", expressions=LIST(IS(o["kv1"]), IS(o["kv2"]))))),
        "OBJECT_CONSTRUCT omits pairs whose key or value is NULL")
    add("OBJECT_CONSTRUCT('a', COALESCE(x, NULL, 'n/a')::VARCHAR): a value that merely mentions NULL is kept", "object_construct",
        mk(lambda o: node("Struct", "stmt", expressions=Lst([
            op(o, "kv1", node("PropertyEQ", this=lit("a", True),
                              expression=node("Cast", this=node("Coalesce", this=S("x"), expressions=Lst([node("Null"), lit("n/a", True)])), to=dtype("VARCHAR"))))]))),
        lambda o, i: P("Anonymous", this="TO_JSON", expressions=LIST(P("Struct", expressions=LIST(IS(o["kv1"]))))),
        "only a pair whose value *is* NULL is omitted; an expression containing a NULL literal somewhere evaluates to a value")
    def not_empty_struct(v, path):
        inner = v.args.get("expressions").items[0] if isinstance(v, NodeV) and v.cls == "Anonymous" and isinstance(v.args.get("expressions"), Lst) \
            and v.args["expressions"].items else v
        if isinstance(inner, NodeV) and inner.cls == "Struct" and isinstance(inner.args.get("expressions"), Lst) and not inner.args["expressions"].items:
            return f"{path} is a struct literal without fields (`{{}}`), which DuckDB cannot parse; expected the empty object"
        return None

    add("OBJECT_CONSTRUCT('a', NULL) (every pair dropped) is the empty object", "object_construct",
        mk(lambda o: node("Struct", "stmt", expressions=Lst([node("PropertyEQ", this=lit("a", True), expression=node("Null"))]))),
        lambda o, i: not_empty_struct, "OBJECT_CONSTRUCT omits NULL-valued pairs; with nothing left the result is {} — not a statement DuckDB refuses")
    add("v['k'] -> json_extract(v, '$.k')", "indices_to_json_extract",
        mk(lambda o: node("Bracket", "stmt", this=op(o, "x"), expressions=Lst([lit("k", True)]))),
        lambda o, i: P("JSONExtract", this=IS(o["x"]), expression=LITERAL("$.k", True)), "object access by key")
    add("v['2023'] (quoted, all digits) -> json_extract(v, '$.2023')", "indices_to_json_extract",
        mk(lambda o: node("Bracket", "stmt", this=op(o, "x"), expressions=Lst([lit("2023", True)]))),
        lambda o, i: P("JSONExtract", this=IS(o["x"]), expression=LITERAL("$.2023", True)), "a quoted subscript is an object key whatever its text")
    add("v[2] -> json_extract(v, '$[2]')", "indices_to_json_extract",
        mk(lambda o: node("Bracket", "stmt", this=op(o, "x"), expressions=Lst([lit("2", False)]))),
        lambda o, i: P("JSONExtract", this=IS(o["x"]), expression=LITERAL("$[2]", True)), "array access by zero-based index")
    add("get_path(v['a'], 'p')[1]: a subscript below a function call below a rewritten subscript is rewritten too", "indices_to_json_extract",
        mk(lambda o: node("Bracket", "stmt", this=anon("GET_PATH", node("Bracket", "inner", this=op(o, "x"), expressions=Lst([lit("a", True)])), lit("p", True)),
                          expressions=Lst([lit("1", False)]))),
        lambda o, i: P("JSONExtract", this=P("Anonymous", expressions=LIST(P("JSONExtract", this=IS(o["x"]), expression=LITERAL("$.a", True)), LITERAL("p", True))),
                       expression=LITERAL("$[1]", True)),
        "transform() does not visit the operands of a node it replaced: the rewrite has to walk the whole operand, not only a directly nested subscript")
    add("v[expr] (non-literal index) is left alone", "indices_to_json_extract",
        mk(lambda o: node("Bracket", "stmt", this=op(o, "x"), expressions=Lst([S("i")]))), UNCHANGED, "only literal indices are JSON paths")
    add("(v:a)::VARCHAR extracts the string (->>) under the cast", "json_extract_cast_as_varchar",
        mk(lambda o: node("Cast", "stmt", this=node("JSONExtract", this=op(o, "x"), expression=op(o, "path", jpath())), to=dtype("VARCHAR"))),
        lambda o, i: P("Cast", this=P("JSONExtractScalar", this=IS(o["x"]), expression=IS(o["path"]))), "a VARIANT string converted to text loses its JSON quotes")
    add("UPPER(v:a) extracts the string (->>)", "json_extract_cased_as_varchar",
        mk(lambda o: node("Upper", "stmt", this=node("JSONExtract", this=op(o, "x"), expression=op(o, "path", jpath())))),
        lambda o, i: P("Upper", this=P("JSONExtractScalar", this=IS(o["x"]), expression=IS(o["path"]))), "case conversion turns a VARIANT string into text without JSON quotes")
    for fcls in ("Max", "ArrayAgg", "Coalesce", "ArraySize"):
        add(f"{fcls}(v:a) keeps the VARIANT extraction (->)", "json_extract_cased_as_varchar",
            mk(lambda o, fcls=fcls: node(fcls, "stmt", this=node("JSONExtract", this=op(o, "x"), expression=jpath()))), UNCHANGED,
            "only a conversion to text unquotes: an aggregate / conditional / array function over v:a still receives the VARIANT "
            "(numbers stay numbers, strings keep their JSON quotes)")
    add("v:a is parenthesised", "json_extract_precedence", mk(lambda o: node("JSONExtract", "stmt", this=op(o, "x"), expression=jpath())),
        lambda o, i: P("Paren", this=IS(i)), "DuckDB's -> binds looser than comparison operators")
    add("v:a::x extraction (->>) is parenthesised too", "json_extract_precedence", mk(lambda o: node("JSONExtractScalar", "stmt", this=op(o, "x"), expression=jpath())),
        lambda o, i: P("Paren", this=IS(i)), "same precedence problem for ->>")
    add("TRIM(x) -> TRIM(CAST(x AS VARCHAR))", "trim_cast_varchar", mk(lambda o: node("Trim", "stmt", this=op(o, "x"))),
        lambda o, i: P("Trim", this=P("Cast", this=IS(o["x"]), to=P("DataType", this=ENUM("VARCHAR")))), "TRIM implicitly converts its input to text")
    add("TRIM(x, chars) / LTRIM keep the trim characters and the position", "trim_cast_varchar",
        mk(lambda o: node("Trim", "stmt", this=op(o, "x"), expression=op(o, "chars"), position=op(o, "pos", node("Var", this=Const("LEADING"))))),
        lambda o, i: P("Trim", this=P("Cast", this=IS(o["x"])), expression=IS(o["chars"]), position=IS(o["pos"])),
        "the characters to trim and LEADING/TRAILING must survive the VARCHAR cast of the input")
    add("TRIM(CAST(x AS VARCHAR)) is left alone", "trim_cast_varchar",
        mk(lambda o: node("Trim", "stmt", this=node("Cast", this=op(o, "x"), to=dtype("VARCHAR")))), UNCHANGED, "already text")
    add("TRIM(CAST(x AS TEXT)) is left alone", "trim_cast_varchar",
        mk(lambda o: node("Trim", "stmt", this=node("Cast", this=op(o, "x"), to=dtype("TEXT")))), UNCHANGED, "STRING/TEXT casts are text already")
    add("TRIM(CAST(x AS BIGINT)) still gets its VARCHAR cast", "trim_cast_varchar",
        mk(lambda o: node("Trim", "stmt", this=op(o, "c", node("Cast", this=S("x"), to=dtype("BIGINT"))))),
        lambda o, i: P("Trim", this=P("Cast", this=IS(o["c"]), to=P("DataType", this=ENUM("VARCHAR")))), "a cast to something else is not text")
    add("LATERAL FLATTEN(input => a) f -> LATERAL UNNEST(CAST(a AS JSON[])) f(VALUE)", "flatten",
        mk(lambda o: node("Lateral", "stmt", this=node("Explode", this=node("Kwarg", this=node("Var", this=Const("input")), expression=op(o, "x"))),
                          alias=node("TableAlias", this=op(o, "alias", NodeV("Identifier", {"this": Const("F"), "quoted": Const(False)}, open=False))))),
        lambda o, i: P("Lateral", this=P("Unnest", expressions=LIST(P("Cast", this=IS(o["x"]), to=P("DataType", this=ENUM("ARRAY"), expressions=LIST(P("DataType", this=ENUM("JSON"))))))),
                       alias=P("TableAlias", this=IS(o["alias"]), columns=LIST("VALUE"))),
        "every element of the input array becomes one row with a VALUE column, under the caller's alias")
    def flatten_select(o, target, colname="VALUE", explode=True):
        col = op(o, "col", node("Column", this=NodeV("Identifier", {"this": Const(colname), "quoted": Const(False)}, open=False)))
        c = op(o, "cast", node("Cast", this=col, to=dtype(target)))
        lat = node("Lateral", this=node("Explode", this=S("arr"))) if explode else node("Lateral", this=S("other"))
        node("Select", "stmt", expressions=Lst([c]), **{"from": node("From", this=table("T")), "laterals": Lst([lat])})
        return c

    def two_flattens(o):
        idn = lambda n: NodeV("Identifier", {"this": Const(n), "quoted": Const(False)}, open=False)  # noqa: E731
        col = op(o, "col", node("Column", this=idn("VALUE"), table=idn("F2")))
        c = op(o, "cast", node("Cast", this=col, to=dtype("VARCHAR")))
        lats = [node("Lateral", this=node("Explode", this=S(f"arr{i}")), alias=node("TableAlias", this=idn(f"F{i}"))) for i in (1, 2)]
        node("Select", "stmt", expressions=Lst([c]), **{"from": node("From", this=table("T")), "laterals": Lst(lats)})
        return c

    add("f2.value::VARCHAR with two LATERAL FLATTENs: the second flatten's value is unquoted too", "flatten_value_cast_as_varchar",
        mk(two_flattens), lambda o, i: P("JSONExtractScalar", this=IS(o["col"])),
        "every FLATTEN of the SELECT yields a VALUE column; which one is cast must not matter")
    for target in ("VARCHAR", "TEXT"):
        add(f"f.value::{target} over LATERAL FLATTEN extracts the string (->> '$')", "flatten_value_cast_as_varchar",
            mk(lambda o, target=target: flatten_select(o, target)),
            lambda o, i: P("JSONExtractScalar", this=IS(o["col"]), expression=P("JSONPath", expressions=LIST(P("JSONPathRoot")))),
            "a string element converted to text (VARCHAR, or STRING/TEXT which the parser reads as TEXT) loses its JSON quotes")
    add("f.value::NUMBER over LATERAL FLATTEN stays a cast", "flatten_value_cast_as_varchar",
        mk(lambda o: flatten_select(o, "DECIMAL")), UNCHANGED, "only a conversion to text unquotes")
    add("value::VARCHAR without a FLATTEN in the same SELECT stays a cast", "flatten_value_cast_as_varchar",
        mk(lambda o: flatten_select(o, "VARCHAR", explode=False)), UNCHANGED, "a column that merely happens to be called VALUE is not a FLATTEN output")
    return out


def rule_wiring(ctx):
    n = run_cases(ctx, "C11.d", cases())
    ctx.floor("C11.d wiring cases evaluated", n, 14)


def rule_cast_extract(ctx):
    """json_extract_cast_as_varchar rewrites in place (node.replace): checked through its replace effect."""
    from ..execmodel import ExecHooks
    from ..interp import explore
    from .wiring import match

    prog = ctx.prog
    if not prog.has_fn("transforms", "json_extract_cast_as_varchar"):
        return
    fn = prog.fn("transforms", "json_extract_cast_as_varchar")
    loc = prog.mod("transforms").loc(fn)
    for target in ("VARCHAR", "TEXT", "BOOLEAN", "DATE", "BIGINT"):
        runs = []

        def run(I, target=target):
            x = S("x")
            path = node("JSONPath", expressions=Lst([node("JSONPathRoot")]))
            je = node("JSONExtract", this=x, expression=path)
            c = node("Cast", "stmt", this=je, to=dtype(target))
            runs.append((x, path, je, c))
            return I.call(I.global_lookup("transforms", "json_extract_cast_as_varchar"), [c], {}, None)

        for p, (x, path, je, c) in zip(explore(prog, lambda: ExecHooks(None), run, max_paths=8), runs):
            reps = [e for e in p.effects if e[0] == "nodereplace" and e[1] is je]
            sets = [e for e in p.effects if e[0] == "nodeset" and e[1] is c and e[2] == "this"]
            new = reps[0][2] if reps else sets[0][3] if sets else (p.value.args.get("this") if isinstance(p.value, NodeV) and p.value is not c else None)
            r = match(new, P("JSONExtractScalar", this=IS(x), expression=IS(path))) if new is not None else "the extraction under the cast is not replaced"
            ok = p.outcome == "return" and r is None
            ctx.ob("C11.d", f"(v:a)::{target} extracts the string (->>) before the cast", ok, loc, "" if ok else str(r))
            if not ok:
                ctx.violation("C11.d", "transforms", "json_extract_cast_as_varchar", f"(v:a)::{target}", loc,
                              f"casting a JSON extraction to {target}: {r} — the value is converted from the extracted string itself (->>), not from its "
                              f"JSON rendering: `\"1\"` (with its quotes) is not a {target}")
            break
