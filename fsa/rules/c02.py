"""C02 — unquoted identifiers fold to upper case; keyword case never changes the outcome."""

from __future__ import annotations

import ast
import re

from ..execmodel import ExecHooks, descriptors, make_session, node, run_execute
from ..interp import Hooks, explore
from ..model import norm
from ..pipeline import apply_stage_to, stages
from ..values import Const, NodeV, Obj, Str, Sym, tagof
from .common import traces

EXPLANATION = (
    "Belief-contradiction and ordering rules: (a) the first pipeline stage, interpreted on an abstract identifier, "
    "upper-cases exactly the unquoted ones and every parsed statement passes through it; (b) no later stage "
    "constructs an unquoted identifier from statement text without folding it; (c) every comparison of "
    "statement-derived text with a cased string constant (all ==, !=, in, not in, startswith, endswith sites of the "
    "package) is classified by provenance: sound if the consumer normalises the case, or the Snowflake parser does for "
    "that slot (table re-witnessed against the pinned sqlglot source), otherwise a lower-case spelling takes a "
    "different branch than the upper-case one; (d) identifier equality folds both sides iff unquoted; (e) the session "
    "names and status messages are built from folded names. Result column naming by DuckDB is not decided."
)
RULE_TEXT = (
    "C02.a stage0(Identifier unquoted).this == upper(text), quoted unchanged, and stage 0 is first; C02.b "
    "Identifier(quoted=False) constructions use constants or folded text; C02.c comparison sites: consumer-normalised | "
    "producer-normalised slot | case-significant domain | out of population, else violation; C02.d checks.equal; "
    "C02.e conn.database/schema and status names derive from folded values."
    " C02.h names compared as string literals in generated statements are texts, never rendered identifier nodes."
    " C02.c also covers keyword regexes (re.search/match on raw text without IGNORECASE)."
)
TRUSTED = ["CPython ast", "parser normalisation table, each entry re-witnessed against sqlglot's parser source on every run"]

# (holder class, slot) -> the Snowflake parser upper-cases the slot (witness: parser method, fragment)
NORMALISED = {
    ("Create", "kind"): ("_parse_create", "create_kind_text = create_token.text.upper()"),
    ("Drop", "kind"): ("_parse_drop", "and self._prev.text.upper()"),
    ("Alter", "kind"): ("_parse_alter", "kind=alter_token.text.upper()"),
    ("Show", "this"): ("snowflake._show_parser", "self._parse_show_snowflake(*args, **kwargs)"),
    ("Show", "scope_kind"): ("snowflake._parse_show_snowflake", "scope_kind = self._prev.text.upper()"),
    ("Var@Use.kind", "this"): ("_parse_var_from_options", ".upper()"),
    ("Var@DateAdd.unit", "this"): (None, None),
}
RAW = {
    ("Describe", "kind"): ("_parse_describe", "kind = self._match_set(self.CREATABLES) and self._prev.text"),
    ("Comment", "kind"): ("_parse_comment", "kind=kind.text"),
    ("Var@When.then", "this"): ("_parse_when_matched", "self.expression(exp.Var, this=self._prev.text)"),
    ("Command", "this"): ("_parse_as_command", "exp.Command(this=text[:size], expression=text[size:])"),
    ("Command", "expression"): ("_parse_as_command", "exp.Command(this=text[:size], expression=text[size:])"),
    ("Anonymous", "this"): (None, None),
    ("Identifier", "this"): (None, None),
}
IDENT_NAME_ATTRS = {"name", "db", "catalog", "alias", "alias_or_name"}
CASE_SIGNIFICANT = {("Literal@RegexpExtract.parameters", "this")}  # regex parameter letters ('e')
POST_FOLD_MODULES = {"transforms", "variables", "cursor"}  # run only after pipeline stage 0
SCAN_MODULES = ("transforms", "transforms_merge", "checks", "expr", "variables", "cursor", "conn", "info_schema")


def has_cased(s: str) -> bool:
    return any(c.isalpha() for c in s)


class FnFacts:
    def __init__(self, mod: str, fn: ast.FunctionDef):
        self.mod, self.fn = mod, fn
        self.defs: dict[str, list[ast.expr]] = {}
        self.types: dict[str, set[str]] = {}
        self.params = [a.arg for a in fn.args.args + fn.args.kwonlyargs]
        for a in fn.args.args + fn.args.kwonlyargs:
            if a.annotation is not None:
                t = ast.unparse(a.annotation)
                m = re.match(r"exp\.(\w+)", t)
                if m:
                    self.types.setdefault(a.arg, set()).add(m.group(1))
                if t in ("str", "str | None") or t.startswith("Literal["):
                    self.types.setdefault(a.arg, set()).add("<pystr>")
        for n in ast.walk(fn):
            if isinstance(n, ast.Assign) and len(n.targets) == 1 and isinstance(n.targets[0], ast.Name):
                self.defs.setdefault(n.targets[0].id, []).append(n.value)
            elif isinstance(n, ast.AnnAssign) and isinstance(n.target, ast.Name):
                m = re.match(r"exp\.(\w+)", ast.unparse(n.annotation))
                if m:
                    self.types.setdefault(n.target.id, set()).add(m.group(1))
                if n.value is not None:
                    self.defs.setdefault(n.target.id, []).append(n.value)
            elif isinstance(n, ast.NamedExpr):
                self.defs.setdefault(n.target.id, []).append(n.value)
            elif isinstance(n, (ast.For, ast.comprehension)):
                tgt = n.target
                for el in (tgt.elts if isinstance(tgt, ast.Tuple) else [tgt]):
                    if isinstance(el, ast.Name):
                        self.defs.setdefault(el.id, []).append(ast.Call(func=ast.Name(id="__iter__"), args=[n.iter], keywords=[]))
            elif isinstance(n, ast.Call) and isinstance(n.func, ast.Name) and n.func.id == "isinstance" and len(n.args) == 2 \
                    and isinstance(n.args[0], ast.Name):
                for c in self.expcls(n.args[1]):
                    self.types.setdefault(n.args[0].id, set()).add(c)

    @staticmethod
    def expcls(n) -> list[str]:
        if isinstance(n, ast.Attribute) and isinstance(n.value, ast.Name) and n.value.id == "exp":
            return [n.attr]
        if isinstance(n, ast.Tuple):
            return sum((FnFacts.expcls(e) for e in n.elts), [])
        if isinstance(n, ast.Name) and n.id == "str":
            return ["<pystr>"]
        return []

    def nodecls(self, e, depth=0) -> set[str]:
        if depth > 6:
            return set()
        if isinstance(e, ast.Name):
            out = set(self.types.get(e.id, ()))
            for d in self.defs.get(e.id, []):
                out |= self.nodecls(d, depth + 1)
            if len(out - {"Expression", "<pystr>"}) >= 1:
                out -= {"Expression"}
            return out
        if isinstance(e, ast.Call):
            f = e.func
            if isinstance(f, ast.Attribute) and f.attr in ("find", "find_ancestor") and e.args:
                return set(self.expcls(e.args[0]))
            if isinstance(f, ast.Attribute) and f.attr == "get" and isinstance(f.value, ast.Attribute) and f.value.attr == "args" \
                    and e.args and isinstance(e.args[0], ast.Constant):
                holder = self.nodecls(f.value.value, depth + 1)
                return {f"?@{h}.{e.args[0].value}" for h in holder} or {f"?@?.{e.args[0].value}"}
            if isinstance(f, ast.Name) and f.id == "cast" and len(e.args) == 2:
                return self.nodecls(e.args[1], depth + 1)
            return set()
        if isinstance(e, ast.Subscript) and isinstance(e.value, ast.Attribute) and e.value.attr == "args" and isinstance(e.slice, ast.Constant):
            holder = self.nodecls(e.value.value, depth + 1)
            return {f"?@{h}.{e.slice.value}" for h in holder}
        if isinstance(e, ast.Attribute) and e.attr in ("this", "expression", "unit", "parent"):
            holder = self.nodecls(e.value, depth + 1)
            return {f"?@{h}.{e.attr}" for h in holder}
        return set()

    def ident_status(self):
        if self.mod in POST_FOLD_MODULES:
            return ("normalised", "identifier text after stage 0 folded it")
        return ("raw", "identifier text before folding (this code runs before the pipeline)")

    def provenance(self, e, depth=0):
        """(status, detail); status in normalised | raw | unknown | nottext"""
        if depth > 8:
            return ("unknown", "depth")
        if isinstance(e, ast.Call) and isinstance(e.func, ast.Attribute) and e.func.attr in ("upper", "lower", "casefold"):
            return ("normalised", "consumer ." + e.func.attr + "()")
        if isinstance(e, ast.Call) and isinstance(e.func, ast.Name) and e.func.id == "str" and e.args:
            return self.provenance(e.args[0], depth + 1)
        if isinstance(e, ast.Call) and isinstance(e.func, ast.Attribute) and e.func.attr in ("strip", "lstrip", "rstrip"):
            return self.provenance(e.func.value, depth + 1)
        if isinstance(e, ast.Name):
            if e.id in self.params and ("<pystr>" in self.types.get(e.id, ()) or e.id not in self.defs):
                if any(t not in ("<pystr>",) for t in self.types.get(e.id, ())):
                    return ("unknown", "node parameter compared directly")
                return ("nottext", "python-level parameter")
            ds = self.defs.get(e.id, [])
            if not ds:
                return ("nottext", "not statement-derived (global / builtin)")
            res = [self.provenance(d, depth + 1) for d in ds]
            for st in ("raw", "unknown", "normalised", "nottext"):
                for r in res:
                    if r[0] == st:
                        return r
        if isinstance(e, ast.BoolOp):
            return self.provenance(e.values[-1], depth + 1)
        if isinstance(e, ast.Attribute) and e.attr == "key":
            return ("nottext", "class key constant")
        slot = None
        if isinstance(e, ast.Attribute) and e.attr in ({"this"} | IDENT_NAME_ATTRS):
            if e.attr in IDENT_NAME_ATTRS:
                hs = self.nodecls(e.value, depth + 1)
                if hs and all(not h.startswith("?@") and not prog_is_node_class(h) for h in hs):
                    return ("nottext", "not a node")
                return self.ident_status()
            slot = [(h, "this") for h in self.nodecls(e.value, depth + 1)]
        if isinstance(e, ast.Call) and isinstance(e.func, ast.Attribute) and e.func.attr == "get" and isinstance(e.func.value, ast.Attribute) \
                and e.func.value.attr == "args" and e.args and isinstance(e.args[0], ast.Constant):
            slot = [(h, e.args[0].value) for h in self.nodecls(e.func.value.value, depth + 1)]
        if isinstance(e, ast.Subscript) and isinstance(e.value, ast.Attribute) and e.value.attr == "args" and isinstance(e.slice, ast.Constant):
            slot = [(h, e.slice.value) for h in self.nodecls(e.value.value, depth + 1)]
        if slot is not None:
            if not slot:
                return ("unknown", "holder class unknown")
            plain = [(h, a) for h, a in slot if not h.startswith("?@")]
            ctxs = [h for h, _ in slot if h.startswith("?@")]
            a = slot[0][1]
            # contextual Var / Literal: Var found in slot X of class C
            for h, _ in plain:
                for c in ctxs:
                    key = (f"{h}@{c[2:]}", a)
                    if key in NORMALISED:
                        return ("normalised", f"parser upper-cases {key[0]}.{a}")
                    if key in RAW:
                        return ("raw", f"{key[0]}.{a} is raw user text")
                    if key in CASE_SIGNIFICANT:
                        return ("normalised", "case-significant domain")
            worst = None
            order = ["normalised", "unknown", "raw"]
            for h, a2 in plain:
                if (h, a2) in NORMALISED:
                    r = ("normalised", f"parser upper-cases {h}.{a2}")
                elif (h, a2) in RAW:
                    r = self.ident_status() if h == "Identifier" else ("raw", f"{h}.{a2} is raw user text")
                elif h == "<pystr>":
                    continue
                else:
                    r = ("unknown", f"{h}.{a2}")
                if worst is None or order.index(r[0]) > order.index(worst[0]):
                    worst = r
            return worst or ("unknown", f"context only {ctxs}")
        return ("nottext", type(e).__name__)


def prog_is_node_class(name: str) -> bool:
    return name[:1].isupper()


def _witness(ctx):
    sg = ctx.prog.sqlglot
    for table, present in ((NORMALISED, True), (RAW, True)):
        for key, (method, frag) in table.items():
            if method:
                sg.witness(method, frag, True)
    # Describe.kind must NOT be upper-cased by the parser (else the RAW entry is stale)
    sg.witness("_parse_describe", "kind = self._match_set(self.CREATABLES) and self._prev.text.upper()", False)
    sg.witness("_parse_when_matched", "self.expression(exp.Var, this=self._prev.text.upper())", False)


def _constlike(x):
    if isinstance(x, ast.Constant) and isinstance(x.value, str):
        return [x.value]
    if isinstance(x, (ast.Tuple, ast.List, ast.Set)) and x.elts and all(isinstance(e, ast.Constant) and isinstance(e.value, str) for e in x.elts):
        return [e.value for e in x.elts]
    if isinstance(x, ast.JoinedStr):
        lits = [v.value for v in x.values if isinstance(v, ast.Constant)]
        return ["".join(lits)] if lits else None
    return None


def rule_keyword_compare(ctx):
    prog = ctx.prog
    _witness(ctx)
    counts = {"nottext": 0, "normalised": 0, "unknown": 0, "raw": 0}
    nsites = 0
    for mname in SCAN_MODULES:
        if mname not in prog.modules:
            continue
        m = prog.modules[mname]
        for qual, fn in m.functions.items():
            facts = FnFacts(mname, fn)
            for n in ast.walk(fn):
                sides = None
                if isinstance(n, ast.Compare) and len(n.ops) == 1 and isinstance(n.ops[0], (ast.Eq, ast.NotEq, ast.In, ast.NotIn)):
                    l, r = n.left, n.comparators[0]
                    if _constlike(r) and not _constlike(l):
                        sides = (l, _constlike(r), n.ops[0])
                    elif _constlike(l) and not _constlike(r):
                        sides = (r, _constlike(l), n.ops[0])
                elif isinstance(n, ast.Call) and isinstance(n.func, ast.Attribute) and n.func.attr in ("startswith", "endswith") \
                        and n.args and isinstance(n.args[0], ast.Constant) and isinstance(n.args[0].value, str):
                    sides = (n.func.value, [n.args[0].value], None)
                elif isinstance(n, ast.Call) and (prog.dotted(m, n.func) or "") in ("re.search", "re.match", "re.fullmatch", "re.findall") \
                        and len(n.args) >= 2 and isinstance(n.args[0], ast.Constant) and isinstance(n.args[0].value, str):
                    # a keyword recognised by a regex: case-insensitive only with re.IGNORECASE / an inline (?i)
                    flags = n.args[2] if len(n.args) > 2 else next((k.value for k in n.keywords if k.arg == "flags"), None)
                    ci = (flags is not None and ("IGNORECASE" in norm(flags) or norm(flags).endswith("re.I"))) or n.args[0].value.startswith("(?i")
                    words = re.sub(r"\\[A-Za-z]", " ", n.args[0].value)  # \b \s \w ... are not keyword letters
                    if not ci:
                        sides = (n.args[1], [words], None)
                if not sides:
                    # a keyword looked up in a table with string keys is a comparison with each key: D.get(x), D[x], x in D
                    def str_keys(d):
                        dd = m.consts.get(d.id) if isinstance(d, ast.Name) else d
                        if isinstance(dd, ast.Dict) and dd.keys and all(isinstance(k, ast.Constant) and isinstance(k.value, str) for k in dd.keys):
                            return [k.value for k in dd.keys]
                        return None
                    if isinstance(n, ast.Call) and isinstance(n.func, ast.Attribute) and n.func.attr == "get" and n.args and str_keys(n.func.value):
                        sides = (n.args[0], str_keys(n.func.value), None)
                    elif isinstance(n, ast.Subscript) and isinstance(n.ctx, ast.Load) and str_keys(n.value) and not isinstance(n.slice, ast.Constant):
                        sides = (n.slice, str_keys(n.value), None)
                    elif isinstance(n, ast.Compare) and len(n.ops) == 1 and isinstance(n.ops[0], (ast.In, ast.NotIn)) and str_keys(n.comparators[0]):
                        sides = (n.left, str_keys(n.comparators[0]), n.ops[0])
                if not sides:
                    continue
                e, consts, op = sides
                nsites += 1
                if not any(has_cased(c) for c in consts):
                    st = ("nottext", "constant has no cased letter")
                elif isinstance(op, (ast.In, ast.NotIn)) and isinstance(n.left, ast.Constant) and not isinstance(e, (ast.Attribute, ast.Name)):
                    st = facts.provenance(e)
                else:
                    st = facts.provenance(e)
                # `cmd` (result of key_command) is decided by C04.c
                if isinstance(e, ast.Name) and any("key_command" in norm(d) for d in facts.defs.get(e.id, [])):
                    st = ("nottext", "command key (normalised by key_command, rule C04.c)")
                if isinstance(e, ast.Call) and isinstance(e.func, ast.Attribute) and isinstance(e.func.value, ast.Name) and any(
                        "key_command" in norm(d) for d in facts.defs.get(e.func.value.id, [])):
                    st = ("nottext", "command key")
                counts[st[0]] += 1
                what = f"{mname}.{qual}: `{norm(n)[:70]}` [{st[1]}]"
                if st[0] == "raw":
                    ctx.ob("C02.c", what, False, m.loc(n))
                    ctx.violation("C02.c", mname, qual, n, m.loc(n),
                                  f"`{norm(e)}` is raw user text ({st[1]}) and is compared with {consts!r} without case "
                                  f"normalisation: the lower-case spelling of the keyword takes a different branch than the upper-case one")
                elif st[0] == "normalised" and "folded" in st[1] and isinstance(op if op is not None else ast.Eq(), (ast.Eq, ast.In)) \
                        and consts and all(isinstance(c, str) and any(ch.islower() for ch in c) for c in consts) and mname != "checks":
                    # contradiction: the text was upper-cased by the folding stage (if it is an unquoted identifier), or is a name the parser
                    # keeps as written (if it is not an identifier at all) — compared for equality with a constant that has lower-case
                    # letters, the test either never holds for unquoted names or depends on the spelling the user chose
                    ctx.ob("C02.c", what, False, m.loc(n))
                    ctx.violation("C02.c", mname, qual, n, m.loc(n),
                                  f"`{norm(e)}` is the text of a name ({st[1]}) compared with {consts!r}, which has lower-case letters: an unquoted "
                                  f"identifier has been folded to upper case by then (the test never holds), and a name the parser keeps as written "
                                  f"(a named-argument keyword such as `input =>`) matches only in that one spelling — `INPUT =>` takes the other branch")
                elif st[0] == "unknown":
                    ctx.ob("C02.c", what, None, m.loc(n))
                else:
                    ctx.ob("C02.c", what, True, m.loc(n))
    ctx.inventory["C02.c classification"] = counts
    ctx.floor("string-constant comparison sites", nsites, 50)
    ctx.floor("statement-text comparisons classified as normalised", counts["normalised"], 20)


def rule_fold_first(ctx):
    prog = ctx.prog
    st = stages(prog)
    s0 = st[0]
    ctx.analysed(f"transforms.{s0.name}")
    fn_loc = prog.mod("cursor").loc(prog.fn("cursor", "FakeSnowflakeCursor._transform"))
    for quoted in (False, True):
        raw = Sym("raw_name", typ="str", truthy=True)

        def mk(quoted=quoted, raw=raw):
            return NodeV("Identifier", {"this": raw, "quoted": Const(quoted)}, name="ident", open=False)
        outs = apply_stage_to(prog, s0.name, mk)
        for p in outs:
            v = p.value
            t = v.args.get("this") if isinstance(v, NodeV) else None
            if quoted:
                ok = p.outcome == "return" and t is raw
                what = "stage 0 keeps a quoted identifier verbatim"
            else:
                ok = p.outcome == "return" and isinstance(t, Sym) and t.origin and t.origin[0] == "upper" and t.origin[1] is raw
                what = "stage 0 upper-cases an unquoted identifier"
            ctx.ob("C02.a", what, ok, fn_loc, tagof(t))
            if not ok:
                ctx.violation("C02.a", "cursor", "FakeSnowflakeCursor._transform", f"first stage {s0.name}: {what}", fn_loc,
                              f"the first pipeline stage ({s0.name}) maps an identifier with quoted={quoted} and text `raw_name` to "
                              f"`{tagof(t)}`: unquoted identifiers must be upper-cased (and quoted ones kept) before any other rewrite "
                              f"reads names")
    # every executed statement passes the pipeline (C01.d) and DESCRIBE rewrite / status see folded names (C04.b)


def rule_fold_closure(ctx):
    """C02.b: no stage constructs an unquoted Identifier from unfolded statement text."""
    prog = ctx.prog
    m = prog.mod("transforms")
    n = 0
    for qual, fn in m.functions.items():
        for c in ast.walk(fn):
            if not (isinstance(c, ast.Call) and (prog.dotted(m, c.func) or "") in ("sqlglot.exp.Identifier", "sqlglot.exp.to_identifier")):
                continue
            kw = {k.arg: k.value for k in c.keywords if k.arg}
            this = kw.get("this", c.args[0] if c.args else None)
            quoted = kw.get("quoted")
            is_quoted = isinstance(quoted, ast.Constant) and quoted.value is True
            n += 1
            if this is None or is_quoted:
                ctx.ob("C02.b", f"{qual}: `{norm(c)[:60]}` quoted identifier", True, m.loc(c))
                continue
            if isinstance(this, ast.Constant) and isinstance(this.value, str):
                ok = this.value == this.value.upper()
                why = "constant"
            elif isinstance(this, ast.JoinedStr):
                ok = all(v.value == v.value.upper() for v in this.values if isinstance(v, ast.Constant)) and not any(
                    isinstance(v, ast.FormattedValue) and not isinstance(v.value, (ast.Name, ast.BinOp, ast.Constant)) for v in this.values)
                why = "f-string"
            else:
                ok = isinstance(this, ast.Call) and isinstance(this.func, ast.Attribute) and this.func.attr == "upper"
                why = "statement text"
            ctx.ob("C02.b", f"{qual}: unquoted identifier from {why} `{norm(this)[:50]}` is upper case", ok, m.loc(c))
            if not ok:
                ctx.violation("C02.b", "transforms", qual, "unquoted Identifier built from unfolded statement text", m.loc(c),
                              f"an unquoted identifier is built from `{norm(this)}` after the folding stage has run, without upper-casing it: "
                              f"the name is reported/resolved in the user's spelling (`identifier('lower_t')` creates `lower_t`)")
    ctx.floor("Identifier construction sites", n, 3)


def rule_equal(ctx):
    """C02.d: checks.equal folds each side iff unquoted, same fold both sides."""
    prog = ctx.prog
    ctx.analysed("checks.equal")
    fn = prog.fn("checks", "equal")
    loc = prog.mod("checks").loc(fn)
    a, b = Sym("A", typ="str", truthy=True), Sym("B", typ="str", truthy=True)
    for qa in (False, True):
        for qb in (False, True):
            def run(I, qa=qa, qb=qb):
                l = NodeV("Identifier", {"this": a, "quoted": Const(qa)}, name="L", open=False)
                r = NodeV("Identifier", {"this": b, "quoted": Const(qb)}, name="R", open=False)
                return I.call(I.global_lookup("checks", "equal"), [l, r], {}, None)
            for p in explore(prog, Hooks, run, max_paths=8):
                # the decision made must be about (fold(A) if not qa else A) == (fold(B) if not qb else B)
                wa = "A" if qa else "upper(A)"
                wb = "B" if qb else "upper(B)"
                tags = [t for t, _ in p.assumed if "==" in t]
                want = " == ".join(sorted([wa, wb]))
                ok = p.outcome == "return" and tags == [want]
                ctx.ob("C02.d", f"equal(quoted={qa}, quoted={qb}) compares {wa} with {wb}", ok, loc, str(tags))
                if not ok:
                    ctx.violation("C02.d", "checks", "equal", f"quoted=({qa},{qb}) compares {tags}", loc,
                                  f"identifier equality with quoted=({qa},{qb}) decides `{tags}` instead of `{want}`: unquoted identifiers are "
                                  f"case-insensitive, quoted ones are exact")
                break


def rule_ident_compare(ctx):
    """C02.f: in code that runs before the folding stage, identifier text is compared only through
    checks.equal (or after explicit case normalisation on both sides)."""
    prog = ctx.prog
    n = 0
    for mname in SCAN_MODULES:
        if mname in POST_FOLD_MODULES or mname not in prog.modules:
            continue
        m = prog.modules[mname]
        for qual, fn in m.functions.items():
            if mname == "checks" and qual == "equal":
                continue
            facts = FnFacts(mname, fn)
            for c in ast.walk(fn):
                if not (isinstance(c, ast.Compare) and len(c.ops) == 1 and isinstance(c.ops[0], (ast.Eq, ast.NotEq, ast.In, ast.NotIn))):
                    continue
                l, r = c.left, c.comparators[0]
                if _constlike(l) or _constlike(r):
                    continue
                sl, sr = facts.provenance(l), facts.provenance(r)
                ident_l = sl[0] == "raw" and "identifier" in sl[1]
                ident_r = sr[0] == "raw" and "identifier" in sr[1]
                if not (ident_l or ident_r) or sl[0] == "nottext" or sr[0] == "nottext":
                    continue
                n += 1
                ok = False
                ctx.ob("C02.f", f"{mname}.{qual}: `{norm(c)[:70]}` compares identifier text through checks.equal", ok, m.loc(c))
                ctx.violation("C02.f", mname, qual, c, m.loc(c),
                              f"`{norm(c)}` compares the raw text of identifiers in code that runs before identifiers are folded: "
                              f"`src` and `SRC` (the same unquoted identifier) compare unequal; use checks.equal, which folds iff unquoted")
    ctx.inventory["raw identifier-to-identifier comparisons before folding"] = n
    # positive control: the MERGE source-column test goes through checks.equal
    mm = prog.modules.get("transforms_merge")
    uses = [c for c in ast.walk(mm.tree) if isinstance(c, ast.Call) and (prog.dotted(mm, c.func) or "").endswith("checks.equal")] if mm else []
    ctx.ob("C02.f", "MERGE matches source columns with checks.equal", bool(uses), "fakesnow/transforms_merge.py")
    if mm and not uses:
        fn = mm.functions.get("_create_merge_candidates")
        ctx.violation("C02.f", "transforms_merge", "_create_merge_candidates", "source column test without checks.equal", mm.loc(fn) if fn else mm.path,
                      "the MERGE explode step no longer uses checks.equal to decide which ON-clause columns belong to the source table: "
                      "a source spelled with different letter case in USING and ON is not recognised")


def _quoted_descriptors():
    """Statement descriptors whose object names are double-quoted identifiers (text must be kept verbatim)."""
    from ..execmodel import lit
    from ..values import Lst

    def qid(n):
        return NodeV("Identifier", {"this": Sym(n, typ="str", truthy=True, distinct=True), "quoted": Const(True)}, name=f"qid:{n}", open=False)

    def qtable(n, db=None, cat=None):
        a = {}
        if n:
            a["this"] = qid(n)
        if db:
            a["db"] = qid(db)
        if cat:
            a["catalog"] = qid(cat)
        t = NodeV("Table", a, name="qtbl", open=False)
        for v in a.values():
            v.parent = t
        return t
    return {
        "DESCRIBE TABLE \"qS\".\"qT\"": node("Describe", "stmt", kind=Const("table"), this=qtable("qT", "qS")),
        "DESCRIBE TABLE \"qD\".\"qS\".\"qT\"": node("Describe", "stmt", kind=Const("table"), this=qtable("qT", "qS", "qD")),
        "USE SCHEMA \"qS\"": node("Use", "stmt", kind=node("Var", this=Const("SCHEMA")), this=qtable("qS")),
        "USE DATABASE \"qD\"": node("Use", "stmt", kind=node("Var", this=Const("DATABASE")), this=qtable("qD")),
        "DROP TABLE \"qT\"": node("Drop", "stmt", kind=Const("TABLE"), this=qtable("qT")),
        "CREATE SCHEMA \"qS\"": node("Create", "stmt", kind=Const("SCHEMA"), this=qtable(None, "qS")),
        "SHOW TABLES IN SCHEMA \"qS\"": node("Show", "stmt", this=Const("TABLES"), terse=Const(False), scope=qtable("qS"), scope_kind=Const("SCHEMA")),
        "SHOW TABLES IN DATABASE \"qD\"": node("Show", "stmt", this=Const("TABLES"), terse=Const(False), scope=qtable("qD"), scope_kind=Const("DATABASE")),
        "COMMENT ON TABLE \"qS\".\"qT\"": node("Comment", "stmt", kind=Const("table"), this=qtable("qT", "qS"), expression=lit(Sym("cmt", typ="str", truthy=True))),
        "SHOW PRIMARY KEYS IN TABLE \"qT\"": node("Show", "stmt", this=Const("PRIMARY KEYS"), terse=Const(False), scope=qtable("qT"), scope_kind=Const("TABLE")),
    }


def _all_syms(v, seen=None):
    from ..values import Lst, Tup
    seen = seen if seen is not None else set()
    if id(v) in seen:
        return
    seen.add(id(v))
    if isinstance(v, Sym):
        yield v
    elif isinstance(v, Str):
        for p in v.parts:
            if not isinstance(p, str):
                yield from _all_syms(p, seen)
    elif isinstance(v, NodeV):
        for k, x in v.args.items():
            if ":" not in k:
                yield from _all_syms(x, seen)
        src = getattr(v, "parsed_from", None)
        if src is not None:
            yield from _all_syms(src, seen)
    elif isinstance(v, (Lst, Tup)):
        for x in v.items:
            yield from _all_syms(x, seen)


def rule_quoted_verbatim(ctx):
    """C02.g: the text of a double-quoted identifier reaches generated SQL, status text and session state verbatim."""
    prog = ctx.prog
    n = 0
    for kind, _ in _quoted_descriptors().items():
        sessions, hooks = [], []

        def fac():
            h = ExecHooks(None)
            hooks.append(h)
            return h

        def run(I, kind=kind):
            duck, conn, cur = make_session()
            sessions.append(conn)
            t = I.call(I.getattr(cur, "_transform"), [_quoted_descriptors()[kind]], {}, None)
            return I.call(I.getattr(cur, "_execute"), [t, Const(None)], {}, None)

        for p, conn, h in zip(explore(prog, fac, run, max_paths=32), sessions, hooks):
            if p.outcome != "return":
                continue
            n += 1
            bad = []
            vals = [c[0] for c in h.calls] + [conn.attrs.get("database"), conn.attrs.get("schema")]
            for v in vals:
                k, root = (None, None)
                if isinstance(v, Sym) and v.origin and v.origin[0] == "sql" and isinstance(v.origin[1], NodeV):
                    root = v.origin[1]
                for s_ in _all_syms(root if root is not None else v):
                    if s_.origin and s_.origin[0] in ("upper", "lower", "casefold") and isinstance(s_.origin[1], Sym) and s_.origin[1].tag.startswith("q"):
                        bad.append(s_.tag)
            ok = not bad
            ctx.ob("C02.g", f"{kind}: quoted identifier text is used verbatim", ok, "fakesnow/transforms.py", str(sorted(set(bad))))
            if not ok:
                ctx.violation("C02.g", "cursor", "FakeSnowflakeCursor._transform", f"{kind}: {sorted(set(bad))[0]}", "fakesnow/transforms.py",
                              f"for {kind} the text of a double-quoted identifier is case-converted ({sorted(set(bad))}) before it is used in the "
                              f"generated statement / session state: an object in a quoted mixed-case schema or database is not found")
    ctx.floor("C02.g traces", n, 8)


def rule_session_names(ctx):
    """C02.e: session names and status messages come from folded names."""
    prog = ctx.prog
    n = 0
    for kind, attr in (("USE DATABASE", "database"), ("USE SCHEMA", "schema")):
        for tr in traces(prog, kind):
            if tr.path.outcome != "return":
                continue
            n += 1
            v = tr.conn.attrs.get(attr)
            ok = isinstance(v, Sym) and v.origin and v.origin[0] == "upper"
            ctx.ob("C02.e", f"{kind}: conn.{attr} is a folded name", ok, "fakesnow/cursor.py", tagof(v))
            if not ok:
                ctx.violation("C02.e", "cursor", "FakeSnowflakeCursor._execute", f"{kind}: conn.{attr} = {tagof(v)}", "fakesnow/cursor.py",
                              f"after {kind} conn.{attr} is `{tagof(v)}`, not the folded (upper-cased) identifier")
    ctx.floor("C02.e traces", n, 2)
    # status identifier: quoted -> verbatim, unquoted -> upper (lower-case identifier descriptor, as produced by identifier())
    from ..execmodel import table

    def mk():
        t = NodeV("Table", {"this": NodeV("Identifier", {"this": Sym("mixedCase", typ="str", truthy=True, distinct=True), "quoted": Const(False)},
                                          name="id:mixedCase", open=False)}, name="tbl", open=False)
        return node("Drop", "stmt", kind=Const("TABLE"), this=t)
    sessions, hooks = [], []

    def fac():
        h = ExecHooks(None)
        hooks.append(h)
        return h

    def run(I):
        duck, conn, cur = make_session()
        sessions.append(cur)
        return I.call(I.getattr(cur, "_execute"), [mk(), Const(None)], {}, None)

    for p, cur, h in zip(explore(prog, fac, run, max_paths=16), sessions, hooks):
        if p.outcome != "return":
            continue
        last = h.calls[-1][0]
        holes = last.holes() if isinstance(last, Str) else []
        ok = bool(holes) and all(isinstance(x, Sym) and x.origin and x.origin[0] == "upper" for x in holes)
        ctx.ob("C02.e", "status message upper-cases an unquoted object name", ok, "fakesnow/cursor.py", tagof(last)[:80])
        if not ok:
            ctx.violation("C02.e", "cursor", "FakeSnowflakeCursor._execute", "status name not folded", "fakesnow/cursor.py",
                          f"the status message is built as `{tagof(last)[:80]}`: an unquoted object name must be reported in upper case")


def rule_names_in_literals(ctx):
    """C02.h: where fakesnow compares an object name as a string literal ('{name}' in a generated statement), the hole is
    the name's text, not a rendered identifier node: rendering adds the double quotes of a quoted identifier, so "S1" would be
    looked up as '"S1"' while s1 / S1 find the same schema."""
    from .common import all_kinds, sql_root, text_of

    prog = ctx.prog
    n = 0
    pat = re.compile(r"'[^'{}]*\{(sql|str)\(([^{}]*)\)\}")
    for kind in all_kinds():
        for tr in traces(prog, kind):
            if tr.path.outcome != "return":
                continue
            for sqlv in tr.engine_sql:
                k, root = sql_root(sqlv)
                txt = text_of(sqlv) if k == "text" else text_of(getattr(root, "parsed_from", None)) if k == "node" and getattr(root, "parsed_from", None) is not None else ""
                if "'" not in txt:
                    continue
                n += 1
                m = pat.search(txt)
                bad = m is not None and ("id:" in m.group(2) or "tbl:" in m.group(2))
                ctx.ob("C02.h", f"{kind}: names inside string literals of the generated statement are texts, not rendered identifiers", not bad,
                       "fakesnow/transforms.py", "" if not bad else m.group(0)[-60:])
                if bad:
                    ctx.violation("C02.h", "transforms", "<stage>", f"{kind}: rendered identifier `{m.group(2)}` inside a string literal", "fakesnow/transforms.py",
                                  f"the statement generated for {kind} compares a name as the string literal `...{m.group(0)[-50:]}'`: the hole is a "
                                  f"rendered identifier node, so a double-quoted name is compared with its quotes (`'\"S1\"'`) and finds nothing, "
                                  f"while the unquoted spelling of the same object is found")
    ctx.floor("C02.h generated statements with string literals", n, 20)


def rule_own_text_parsed(ctx):
    """C02.i: the statement execute() rewrites and runs is the parse of *this call's* text as written — quoted identifiers and
    string literals are case-sensitive, so a parse tree looked up under a case-folded (or otherwise normalised) form of the
    command belongs to another statement. Decided on execute() interpreted up to the hand-over to the rewrite pipeline."""
    from ..execmodel import FullHooks, make_session
    from ..interp import explore
    from .c05 import _prov_nodes

    prog = ctx.prog
    loc = "fakesnow/cursor.py"

    class H(FullHooks):
        earlier_calls_filled_caches = True  # the second of two commands is the interesting one

        def __init__(self):
            super().__init__(None, "SELECT", undefined_var=False)
            self.handed = []

        def intercept(self, I, key, args, kwargs, site, f=None):
            if key.endswith(("._transform_explode", "._transform")) and not self.handed:
                self.handed.append(args[0] if args else None)
                from ..values import Lst as _L
                return _L([]) if key.endswith("_explode") else args[0]
            return NotImplemented

    hooks = []

    def fac():
        h = H()
        hooks.append(h)
        return h

    def run(I):
        duck, conn, cur = make_session()
        return I.call(I.getattr(cur, "execute"), [Sym("COMMAND", typ="str", truthy=True), Const(None)], {}, None)

    n = 0
    for p, h in zip(explore(prog, fac, run, max_paths=64), hooks):
        if not h.handed:
            continue
        n += 1
        v = h.handed[0]
        fresh = isinstance(v, NodeV) and (getattr(v, "parsed_from", None) is not None or h.parsed >= 1) and not (
            isinstance(v, NodeV) and v.open and h.parsed == 0)
        folded = [tagof(x)[:60] for x in _prov_nodes(v) if isinstance(x, Sym) and x.origin and x.origin[0] in ("upper", "lower", "casefold")
                  or (isinstance(x, Sym) and x.origin and x.origin[0] == "method" and x.origin[2] in ("upper", "lower", "casefold", "strip", "split"))]
        # a statement served from a cache is this call's own parse when the cache is keyed by the exact text handed to the parser
        cache_keys = [x.origin[2] for x in _prov_nodes(v) if isinstance(x, Sym) and x.origin and x.origin[0] in ("dictget", "index") and len(x.origin) > 2]
        exact_cache = bool(cache_keys) and not folded and all(
            any(isinstance(y, Sym) and y.tag == "COMMAND" for y in _prov_nodes(k_)) or (isinstance(k_, Sym) and k_.tag == "COMMAND") for k_ in cache_keys)
        ok = (h.parsed >= 1 or exact_cache) and not folded
        ctx.ob("C02.i", "the statement handed to the rewrite pipeline is this call's own parse", ok, loc,
               "" if ok else f"parses in this call: {h.parsed}; statement `{tagof(v)[:60]}`")
        if not ok:
            ctx.violation("C02.i", "cursor", "FakeSnowflakeCursor.execute", "statement not parsed from this call's text", loc,
                          f"on a path of execute() the statement handed to the rewrite pipeline is `{tagof(v)[:80]}` — "
                          f"{'looked up under a normalised form of the command (' + folded[0] + ')' if folded else 'not the parse of the text passed to this call'}: "
                          f"two commands that differ only in the case of a quoted identifier or a string literal are served the same parse tree")
    ctx.floor("C02.i execute paths", n, 1)


def rule_bookkeeping_names_verbatim(ctx):
    """C02.j: names reach the side tables as the folding stage left them — unquoted ones already upper-case, quoted ones as
    written: the bookkeeping writers apply no case transformation of their own (a quoted `"lower"` would be filed under LOWER,
    where the metadata views never look)."""
    from ..interp import Hooks, explore
    from ..values import Lst, Tup
    from .c05 import _prov_nodes

    prog = ctx.prog
    m = prog.modules.get("info_schema")
    n = 0
    for wfn, args in (("insert_table_comment_sql", ["CAT", "SCH", "TBL", "CMT"]),
                      ("insert_text_lengths_sql", ["CAT", "SCH", "TBL", Lst([Tup([Sym("COL", typ="str", truthy=True), Sym("SIZE", typ="int", truthy=True)])])])):
        if m is None or not prog.has_fn("info_schema", wfn):
            continue

        def run(I, wfn=wfn, args=args):
            vals = [a if not isinstance(a, str) else Sym(a, typ="str", truthy=True) for a in args]
            return I.call(I.global_lookup("info_schema", wfn), vals, {}, None)

        for p in explore(prog, Hooks, run, max_paths=8):
            if p.outcome != "return":
                continue
            n += 1
            folded = sorted({x.tag for x in _prov_nodes(p.value) if isinstance(x, Sym) and x.origin and len(x.origin) >= 2
                             and x.origin[0] in ("upper", "lower", "casefold", "title", "capitalize", "swapcase")
                             and tagof(x.origin[1]) in ("CAT", "SCH", "TBL", "COL")})
            fn_ = prog.fn("info_schema", wfn)
            ctx.ob("C02.j", f"{wfn}: names are stored as given", not folded, m.loc(fn_), str(folded))
            if folded:
                ctx.violation("C02.j", "info_schema", wfn, f"names case-transformed when stored: {folded}", m.loc(fn_),
                              f"{wfn} stores {folded}: a double-quoted name with lower-case letters is filed under another spelling than the one "
                              f"information_schema reports, so its comment / declared length is never found again")
            break
    ctx.floor("C02.j bookkeeping writers", n, 2)


def rule_fold_ignores_session(ctx):
    """C02.k: a double-quoted identifier is reported exactly as written — in every session. The rewrite stage that folds
    identifiers is run on a quoted identifier with every extra argument the pipeline hands it left unknown: no setting of those
    arguments may make it change the quoted text (the property has no per-session exception)."""
    from ..execmodel import ExecHooks
    from ..interp import explore
    from ..pipeline import stages

    prog = ctx.prog
    tm = prog.mod("transforms")
    n_fold = 0

    def ident(quoted):
        return NodeV("Identifier", {"this": Sym("qName" if quoted else "uName", typ="str", truthy=True, distinct=True), "quoted": Const(quoted)},
                     name="qid" if quoted else "uid", open=False)

    def folded(v):
        t = v.args.get("this") if isinstance(v, NodeV) else None
        return isinstance(t, Sym) and t.origin and t.origin[0] in ("upper", "lower", "casefold")

    for st in stages(prog):
        if st.fn is None:
            continue
        extra = [a.arg for a in st.fn.args.args[1:]] + [a.arg for a in st.fn.args.kwonlyargs]
        kw = {k: Sym(f"session:{k}") for k in (st.kwargs or {}) if k in extra}

        def run(I, st=st, kw=kw, quoted=False):
            return I.call(I.global_lookup("transforms", st.name), [ident(quoted)], dict(kw), None)

        is_fold = any(p.outcome == "return" and folded(p.value) for p in explore(prog, lambda: ExecHooks(None), run, max_paths=16))
        if not is_fold:
            continue
        n_fold += 1
        bad = [p for p in explore(prog, lambda: ExecHooks(None), lambda I, st=st, kw=kw: run(I, st, kw, True), max_paths=32)
               if p.outcome == "return" and folded(p.value)]
        loc = tm.loc(st.fn)
        ctx.ob("C02.k", f"{st.name}: a quoted identifier keeps its text whatever the session-dependent arguments {sorted(kw)} are", not bad, loc)
        if bad:
            why = [t for t, v in bad[0].assumed if "session:" in t]
            ctx.violation("C02.k", "transforms", st.name, f"quoted identifier folded under a session setting {sorted(kw)}", loc,
                          f"`{st.name}` changes the case of a double-quoted identifier on the path where {why[0] if why else 'a session-dependent argument'} "
                          f"holds: what decides it comes from the connection ({', '.join(f'{k}=…' for k in kw)}), so in such a session quoted names are not "
                          f"reported as written — and any value that merely *looks* true (the text 'false', a non-empty string) switches it on")
    ctx.floor("C02.k identifier-folding stages", n_fold, 1)


RULES = [
    ("C02.k", rule_fold_ignores_session, ("quick", "thorough")),
    ("C02.j", rule_bookkeeping_names_verbatim, ("quick", "thorough")),
    ("C02.i", rule_own_text_parsed, ("quick", "thorough")),
    ("C02.h", rule_names_in_literals, ("quick", "thorough")),
    ("C02.a", rule_fold_first, ("quick", "thorough")),
    ("C02.b", rule_fold_closure, ("quick", "thorough")),
    ("C02.c", rule_keyword_compare, ("quick", "thorough")),
    ("C02.d", rule_equal, ("quick", "thorough")),
    ("C02.f", rule_ident_compare, ("quick", "thorough")),
    ("C02.g", rule_quoted_verbatim, ("quick", "thorough")),
    ("C02.e", rule_session_names, ("quick", "thorough")),
]
