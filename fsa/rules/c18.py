"""C18 — durability with db_path (narrow claim: what fakesnow's own code contributes)."""

from __future__ import annotations

import ast

from ..connectmodel import Point, points, run_point_states
from ..model import AnalysisError, norm
from ..execmodel import ExecHooks, cset, descriptors, make_session
from ..interp import explore
from ..pipeline import stages
from ..values import Const, NodeV, Obj, Str, Sym, tagof
from .c09 import rule_keys
from .c10 import rule_bootstrap
from .c20 import rule_release

EXPLANATION = (
    "Narrow claim. Crash points, kill timing and DuckDB's WAL are runtime and engine internals that static analysis "
    "cannot bound; they are not decided. Decided, as necessary conditions of finding the same state again under the "
    "same path: the two sites that attach a user database (connect and CREATE DATABASE) build the same file name "
    "<db_path>/<NAME>.db from the connection's db_path, and ':memory:' exactly when no db_path is configured; both run "
    "the same bootstrap (C10.c); the Snowflake-side metadata (comments, VARCHAR lengths) is written to side tables "
    "inside the object's own database file (C09.c); patch() closes the instance's engine connection on every exit (C20.a)."
)
RULE_TEXT = (
    "C18.a file-name template agreement connect vs CREATE DATABASE, with and without db_path; C18.b=C10.c; C18.c=C09.c "
    "(side tables qualified by the object's catalog); C18.d=C20.a; C18.e=C13.e; C18.f bootstrap statements are IF NOT "
    "EXISTS (C14.a)."
    " C18.g no call that deletes, moves, truncates or overwrites a file anywhere in the package (positive control)."
)
TRUSTED = ["CPython ast", "DuckDB ATTACH '<file>' persists the catalog in that file; ':memory:' does not touch the disk"]


def _shape(parts, path_tag="db_path") -> str:
    out = ""
    for p in parts:
        if isinstance(p, str):
            out += p
        else:
            t = tagof(p)
            folded = isinstance(p, Sym) and ((p.origin and p.origin[0] == "upper") or p.distinct)
            out += "<db_path>" if path_tag in t.lower() else "<NAME>" if folded else "<name as typed by the user>"
    return out


def rule_file_naming(ctx):
    prog = ctx.prog
    ctx.analysed("conn.FakeSnowflakeConnection.__init__", "transforms.create_database")
    # connect
    shapes = {}
    for with_path in (False, True):
        pt = Point(True, None, True, True, with_path, False, False)
        for path, st in run_point_states(prog, pt):
            if st.created_db:
                shapes[("connect", with_path)] = _shape(st.attach_file or [])
    # an empty db_path is "no db_path" (a CLI / environment default): the instance stays in memory
    from ..connectmodel import ConnectHooks
    from ..values import ClsRef
    pt0 = Point(True, None, True, True, False, False, False)
    hooks0 = []

    def fac0():
        h = ConnectHooks(pt0)
        hooks0.append(h)
        return h

    def run0(I):
        return I.construct(ClsRef("fakesnow.conn.FakeSnowflakeConnection"), [Obj("duck", kind="duck"), Sym("database", truthy=True, typ="str"), Const(None)],
                           {"create_database": Const(True), "create_schema": Const(True), "db_path": Const(""), "nop_regexes": Const(None)}, None)

    for p0, h0 in zip(explore(prog, fac0, run0, max_paths=64), hooks0):
        if h0.st.created_db:
            shape0 = _shape(h0.st.attach_file or [])
            ok0 = shape0 == ":memory:"
            ctx.ob("C18.a", "connect with db_path='' attaches `:memory:`", ok0, "fakesnow/conn.py", shape0)
            if not ok0:
                ctx.violation("C18.a", "conn", "FakeSnowflakeConnection.__init__", f"connect: file `{shape0}` with an empty db_path", "fakesnow/conn.py",
                              f"with db_path='' (falsy, like None) connect attaches the file `{shape0}`: an in-memory instance writes database files "
                              f"into the current directory and later instances see its objects")
    # CREATE DATABASE through the pipeline with the connection's db_path
    db_kinds = [k for k in descriptors() if k.startswith("CREATE") and k.endswith("DATABASE") or k.startswith("CREATE DATABASE")]
    for with_path, kind in [(w, k) for w in (False, True) for k in db_kinds]:
        sess = []
        site_name = "create database" if kind == "CREATE DATABASE" else kind.lower()

        def run(I, with_path=with_path, kind=kind):
            duck, conn, cur = make_session()
            cset(conn, "db_path", Sym("Path(db_path)", truthy=True, typ="path") if with_path else Const(None))
            return I.call(I.getattr(cur, "_transform"), [descriptors()[kind]], {}, None)
        for p in explore(prog, lambda: ExecHooks(None), run, max_paths=16):
            v = p.value
            if p.outcome == "return" and not (isinstance(v, NodeV) and v.cls == "Command"):
                # whatever is on disk, this instance has not necessarily attached it: every CREATE DATABASE reaches the engine as an ATTACH
                # (IF NOT EXISTS is the engine's to decide — it knows what is attached; a file that merely exists was written by an earlier run)
                probed = [tagof(e[1]) for e in p.effects if e[0] == "call" and isinstance(e[1], str) and e[1].rsplit(".", 1)[-1] in ("exists", "is_file", "isfile", "stat")]
                ctx.ob("C18.a", f"{site_name} with{'' if with_path else 'out'} db_path: every path attaches the database", False, "fakesnow/transforms.py",
                       f"returns {tagof(v)[:60]}")
                ctx.violation("C18.a", "transforms", "create_database", f"{site_name}: a path generates no ATTACH", "fakesnow/transforms.py",
                              f"{site_name} with{'' if with_path else 'out'} a db_path has a path on which no ATTACH is generated"
                              + (f" (decided by {probed[0]}() on the database file)" if probed else "")
                              + ": a database file left by an earlier run is reported as created / existing but is never opened in this instance, "
                                "so the committed state it holds is not observable")
                continue
            if p.outcome == "return" and isinstance(v, NodeV) and v.cls == "Command":
                ex = v.args.get("expression")
                txt = ex.args.get("this") if isinstance(ex, NodeV) else ex
                parts = txt.parts if isinstance(txt, Str) else [txt.v] if isinstance(txt, Const) else []
                # DATABASE '<file>' AS <name>
                from .. import sqlt
                toks = sqlt.tokenize(Str(parts) if parts else Const(""))
                f = next((t for t in toks if t.kind == "str"), None)
                shapes[(site_name, with_path)] = _shape(f.parts) if f is not None else "?"
    want = {False: ":memory:", True: "<db_path>/<NAME>.db"}
    for (site, with_path), shape in sorted(shapes.items()):
        ok = shape == want[with_path]
        ctx.ob("C18.a", f"{site} with{'' if with_path else 'out'} db_path attaches `{want[with_path]}`", ok, "fakesnow", shape)
        if not ok:
            mod, fn = ("conn", "FakeSnowflakeConnection.__init__") if site == "connect" else ("transforms", "create_database")
            ctx.violation("C18.a", mod, fn, f"{site}: file `{shape}` with{'' if with_path else 'out'} db_path", f"fakesnow/{mod}.py",
                          f"{site} attaches the database file `{shape}` {'with' if with_path else 'without'} a db_path; the other attach site and "
                          f"later sessions use `{want[with_path]}`: state committed under one name is not found under the other"
                          + ("" if with_path else " (and an in-memory instance must never touch the disk)"))
    ctx.floor("attach sites x storage modes", len(shapes), 8)
    # the pipeline passes the connection's own db_path
    st = [s for s in stages(prog) if s.name == "create_database"]
    ok = bool(st) and "db_path" in st[0].kwargs
    ctx.ob("C18.a", "the CREATE DATABASE stage receives the connection's db_path", ok, "fakesnow/cursor.py", str(st[0].kwargs if st else None))
    if not ok:
        ctx.violation("C18.a", "cursor", "FakeSnowflakeCursor._transform", "create_database without db_path", "fakesnow/cursor.py",
                      "the CREATE DATABASE rewrite is not given the connection's db_path: databases created by SQL are in-memory even when a "
                      "db_path is configured, and are lost on exit")


from .c13 import rule_no_implicit_tx_calls  # noqa: E402  (work that was never committed must be absent afterwards)

# pathlib methods whose names are not also methods of str / list / dict / sqlglot nodes
DESTRUCTIVE_ATTRS = {"unlink", "rmdir", "rmtree", "removedirs", "rename", "truncate", "write_text", "write_bytes", "touch"}
DESTRUCTIVE_DOTTED = {"os.remove", "os.unlink", "os.rmdir", "os.removedirs", "os.rename", "os.replace", "os.truncate", "shutil.rmtree", "shutil.move",
                      "shutil.copy", "shutil.copyfile", "shutil.copy2"}


def _destructive_calls(tree, dotted_of):
    """calls that delete, move or overwrite a file: os / shutil / pathlib removers, and open(..., 'w'|'a'|'x'|'+')"""
    out = []
    for n in ast.walk(tree):
        if not isinstance(n, ast.Call):
            continue
        d = dotted_of(n.func) or ""
        if d in DESTRUCTIVE_DOTTED:
            out.append((n, d))
        elif isinstance(n.func, ast.Attribute) and n.func.attr in DESTRUCTIVE_ATTRS and not d.startswith(("re.", "string.", "sqlglot.", "pyarrow.", "pa.", "pc.")):
            recv = norm(n.func.value)
            out.append((n, f"{recv}.{n.func.attr}"))
        elif (isinstance(n.func, ast.Name) and n.func.id == "open") or d in ("builtins.open", "io.open") or (isinstance(n.func, ast.Attribute) and n.func.attr == "open"
                                                                                                    and "path" in norm(n.func.value).lower()):
            mode = n.args[1] if len(n.args) > 1 else next((k.value for k in n.keywords if k.arg == "mode"), None)
            if isinstance(mode, ast.Constant) and isinstance(mode.value, str) and any(c in mode.value for c in "wax+"):
                out.append((n, f"open(mode={mode.value!r})"))
    return out


def rule_no_file_destruction(ctx):
    """C18.g: only DuckDB touches the database files: no function of the package deletes, moves, truncates or overwrites a
    file (a leftover `<db>.db.wal` is exactly where the committed work of a killed process lives)."""
    prog = ctx.prog
    # positive control: the predicate must recognise the idioms it is meant to find
    control = ast.parse("import os, shutil\nfrom pathlib import Path\n"
                        "def f(db_file, p):\n    Path(f'{db_file}.wal').unlink(missing_ok=True)\n    os.remove(db_file)\n    shutil.rmtree(p)\n    open(db_file, 'w')\n")
    found = _destructive_calls(control, lambda e: norm(e))
    if len(found) != 4:
        raise AnalysisError(f"C18.g positive control: {len(found)} of 4 destructive idioms recognised")
    n = 0
    for mname, m in prog.modules.items():
        for n_, what in _destructive_calls(m.tree, lambda e, m=m: prog.dotted(m, e)):
            n += 1
            ctx.ob("C18.g", f"{mname}: `{what}` does not delete / overwrite a file", False, m.loc(n_))
            ctx.violation("C18.g", mname, "<module>", n_, m.loc(n_),
                          f"`{norm(n_)[:80]}` deletes, moves or overwrites a file: fakesnow must leave the database files (and the write-ahead "
                          f"log that holds the committed work of a killed process) to DuckDB")
    ctx.ob("C18.g", f"no function of the package deletes, moves, truncates or overwrites a file ({len(prog.modules)} modules scanned)", n == 0, "fakesnow")
    ctx.inventory["C18.g modules scanned"] = len(prog.modules)


from .c14 import rule_typestate as rule_connect_typestate  # noqa: E402  (re-attaching a file must not disturb what it holds)

from .c13 import rule_no_tx_mapping  # noqa: E402  (a COMMIT the engine rejected must not be reported as committed)

def rule_db_path_remembered(ctx):
    """C18.i: a connection made with a db_path keeps it — whatever the auto-create flags say — because it is what a later
    CREATE DATABASE of the session uses to decide where the new database's file goes (none: in memory, nothing on disk)."""
    from ..connectmodel import points, run_point_states
    from .c05 import _prov_nodes

    prog = ctx.prog
    n = 0
    for pt in points():
        if not pt.db_path or pt.schema == "builtin" or pt.db0 or pt.schema0:
            continue
        for path, st in run_point_states(prog, pt):
            conn = path.value
            if path.outcome != "return" or not isinstance(conn, Obj):
                continue
            n += 1
            v = conn.attrs.get("db_path")
            ok = v is not None and any(isinstance(x, Sym) and x.tag == "db_path" for x in _prov_nodes(v))
            ctx.ob("C18.i", f"{pt!r}: the connection records the db_path it was given", ok, "fakesnow/conn.py", tagof(v) if v is not None else "unset")
            if not ok:
                ctx.violation("C18.i", "conn", "FakeSnowflakeConnection.__init__", f"db_path dropped with create_database={pt.create_database} create_schema={pt.create_schema}",
                              "fakesnow/conn.py",
                              f"{pt!r}: the connection's db_path is `{tagof(v) if v is not None else 'unset'}` although a db_path was given: a CREATE DATABASE "
                              f"issued on this session attaches ':memory:' instead of a file under the path, so what the session commits is gone when "
                              f"the process ends and a later session on the same path finds nothing")
    ctx.floor("C18.i connect points with a db_path", n, 8)


RULES = [
    ("C18.i", rule_db_path_remembered, ("quick", "thorough")),
    ("C18.h", rule_no_tx_mapping, ("quick", "thorough")),
    ("C18.g", rule_no_file_destruction, ("quick", "thorough")),
    ("C18.f", rule_connect_typestate, ("quick", "thorough")),
    ("C18.e", rule_no_implicit_tx_calls, ("quick", "thorough")),
    ("C18.a", rule_file_naming, ("quick", "thorough")),
    ("C18.b", rule_bootstrap, ("quick", "thorough")),
    ("C18.c", rule_keys, ("quick", "thorough")),
    ("C18.d", rule_release, ("quick", "thorough")),
]
