"""C01 — stored values read back unchanged (decided clause: type and environment plumbing)."""

from __future__ import annotations

import ast
import re

from ..connectmodel import points, run_point_states
from ..execmodel import ExecHooks, node, run_execute
from ..interp import explore
from ..model import norm
from ..pipeline import run_pipeline_on, stages
from ..values import Const, EnumV, Lst, NodeV, Obj, Seq, Str, Sym, Tup, tagof

EXPLANATION = (
    "End-to-end width map: every Snowflake column type the parser can emit is pushed, as an abstract DataType node, "
    "through the real 53-stage pipeline (abstract interpretation of each stage) and then through the DuckDB "
    "generator's TYPE_MAPPING read from sqlglot's source; the resulting DuckDB type must be at least as wide as the "
    "Snowflake type (FLOAT family 64-bit, integer family NUMBER(38,0), TIMESTAMP_NTZ >= microseconds, "
    "semi-structured = JSON, everything else its own family). Every executed statement passes through the pipeline; "
    "every path of connect sets the session time zone to UTC; write_pandas inserts by double-quoted column name, "
    "json-encodes dict/list cells and returns the engine's count. Equality of the values themselves (DuckDB / "
    "pyarrow behaviour) is not decided by this family."
)
RULE_TEXT = (
    "C01.a pipeline(T) then generator map in the allowed set of DuckDB types for each declared type T; C01.b SET "
    "TimeZone='UTC' on every connect path; C01.c _insert_df template/encoding/count; C01.d every exploded statement is "
    "transformed before it is executed; C01.c2 write_pandas target == <database>.<schema>.<table> from its arguments; "
    "C01.c3 abstract frames as row intervals: for n in 0..6 x chunk_size in {None,1,2,3,4,7} the inserted intervals "
    "partition [0,n) and the reported count is n; C01.e/f = C08.a/b/d; C01.g CLONE wiring (target, source)."
    " C01.c also: on every path of _insert_df the JSON encoder is applied to the object columns (skipped only when the frame has none)."
    " C01.c4 without overwrite none of write_pandas' own statements is CREATE OR REPLACE / DROP / TRUNCATE / DELETE."
)
TRUSTED = ["CPython ast", "sqlglot duckdb generator TYPE_MAPPING (read from source)", "Snowflake documented storage widths",
           "DuckDB type widths: REAL 32-bit, DOUBLE 64-bit, TINYINT<SMALLINT<INTEGER<BIGINT<HUGEINT<=DECIMAL(38,0), TIMESTAMP us"]

# declared Snowflake type (as DataType.Type member the Snowflake parser yields) -> allowed DuckDB type names
ALLOWED = {
    "FLOAT": {"DOUBLE"}, "DOUBLE": {"DOUBLE"},
    "INT": {"HUGEINT", "DECIMAL(38,0)"}, "SMALLINT": {"HUGEINT", "DECIMAL(38,0)"}, "TINYINT": {"HUGEINT", "DECIMAL(38,0)"},
    "BIGINT": {"HUGEINT", "DECIMAL(38,0)"},
    "TIMESTAMPNTZ": {"TIMESTAMP", "TIMESTAMP_NS", "DATETIME"},
    "TIMESTAMPTZ": {"TIMESTAMPTZ", "TIMESTAMP WITH TIME ZONE"},
    "VARIANT": {"JSON"}, "OBJECT": {"JSON"}, "ARRAY": {"JSON"},
    "VARCHAR": {"VARCHAR", "TEXT"}, "TEXT": {"VARCHAR", "TEXT"},
    "BOOLEAN": {"BOOLEAN"}, "DATE": {"DATE"}, "TIME": {"TIME"}, "BINARY": {"BLOB", "BINARY", "VARBINARY"},
    "DECIMAL(p,s)": {"DECIMAL(p,s)"},
    # a declared precision is a promise (NUMBER(3,0) refuses 12345; TRY_TO_DECIMAL(x, 3, 0) answers NULL): it survives the pipeline
    "DECIMAL(p,0)": {"DECIMAL(p,s)"},
}
WIDTH_NOTE = {
    "FLOAT": "Snowflake FLOAT/FLOAT4/FLOAT8/REAL are 64-bit", "DOUBLE": "64-bit",
    "INT": "Snowflake INT is NUMBER(38,0)", "SMALLINT": "Snowflake SMALLINT is NUMBER(38,0)",
    "TINYINT": "Snowflake TINYINT/BYTEINT is NUMBER(38,0)", "BIGINT": "Snowflake BIGINT is NUMBER(38,0)",
    "TIMESTAMPNTZ": "TIMESTAMP_NTZ holds at least microseconds",
}


def _final_type(prog, member: str, with_params: bool, scale: str = "2"):
    def mk():
        from ..execmodel import lit
        from ..values import Lst
        args = {"this": EnumV(f"DataType.Type.{member}"), "nested": Const(False)}
        if with_params:
            args["expressions"] = Lst([node("DataTypeParam", this=lit("10", False)), node("DataTypeParam", this=lit(scale, False))])
        return node("DataType", "coltype", **args)
    outs = set()
    for p in run_pipeline_on(prog, mk):
        v = p.value
        if p.outcome != "return" or not isinstance(v, NodeV):
            outs.add(("?", repr(v)))
            continue
        t = v.args.get("this")
        mem = t.member if isinstance(t, EnumV) else tagof(t)
        ex = v.args.get("expressions")
        has_params = bool(getattr(ex, "items", None))
        outs.add((mem, has_params))
    return outs


def rule_width(ctx):
    prog = ctx.prog
    sg = prog.sqlglot
    gen = sg.duckdb_type_mapping
    st = stages(prog)
    ctx.floor("pipeline stages", len(st), 40)
    ctx.analysed("cursor.FakeSnowflakeCursor._transform", *[f"transforms.{s.name}" for s in st if s.name in
                                                           ("float_to_double", "integer_precision", "timestamp_ntz", "semi_structured_types")])
    site = prog.fn("cursor", "FakeSnowflakeCursor._transform")
    loc = prog.mod("cursor").loc(site)
    for declared, allowed in ALLOWED.items():
        params = declared.startswith("DECIMAL(")
        member = "DECIMAL" if params else declared
        for mem, has_params in _final_type(prog, member, params, scale="0" if declared == "DECIMAL(p,0)" else "2"):
            if mem == "?":
                ctx.ob("C01.a", f"{declared}: pipeline result readable", None, loc)
                continue
            duck = gen.get(mem, mem)
            if mem == "DECIMAL":
                duck = "DECIMAL(p,s)" if has_params else "DECIMAL(18,3)"
            ok = duck in allowed
            ctx.ob("C01.a", f"declared {declared} -> pipeline {mem} -> DuckDB {duck}", ok, loc)
            if not ok:
                note = WIDTH_NOTE.get(declared, f"{declared} must stay in its own family {sorted(allowed)}")
                ctx.violation("C01.a", "cursor", "FakeSnowflakeCursor._transform", f"{declared} -> {duck}", loc,
                              f"a column declared {declared} is created as DuckDB {duck} ({note}): values the Snowflake type can hold "
                              f"are rejected or lose precision")
    ctx.inventory["declared types pushed through the pipeline"] = len(ALLOWED)


def rule_utc(ctx):
    prog = ctx.prog
    n = bad = 0
    for pt in points():
        for path, st in run_point_states(prog, pt):
            if path.outcome != "return":
                continue
            n += 1
            if not st.utc:
                bad += 1
                ctx.violation("C01.b", "conn", "FakeSnowflakeConnection.__init__", "SET TimeZone = 'UTC' missing on a path", "fakesnow/conn.py",
                              f"a path of connect ({pt!r}) never sets the engine time zone to UTC: TIMESTAMP_TZ values come back in the host's zone")
    ctx.ob("C01.b", f"SET TimeZone='UTC' on every normal path of connect ({n} paths)", bad == 0, "fakesnow/conn.py")
    ctx.floor("connect paths", n, 80)


def rule_pandas(ctx):
    prog = ctx.prog
    m = prog.mod("pandas_tools")
    from ..roles import roles
    helper = roles(prog).insert_frame
    fn = prog.fn("pandas_tools", helper)
    ctx.analysed(f"pandas_tools.{helper}", "pandas_tools.write_pandas")

    hooks = []

    class ScanHooks(ExecHooks):
        """also remembers what the local named in `SELECT * FROM <name>` is bound to when the INSERT runs (DuckDB's replacement
        scan reads that local of the calling frame)"""

        def engine(self, I, obj, method, args, kwargs, site):
            if method == "execute" and args and I.envstack:
                t_ = args[0].text() if isinstance(args[0], Str) else tagof(args[0])
                mt_ = re.search(r"SELECT\s+\*\s+FROM\s+([A-Za-z_]\w*)\s*$", t_.strip(), re.I)
                if mt_ and not hasattr(self, "scanned"):
                    self.scanned = I.envstack[-1].lookup(mt_.group(1))
            return super().engine(I, obj, method, args, kwargs, site)

    def fac():
        h = ScanHooks(None)
        hooks.append(h)
        return h

    def run(I):
        duck = Obj("duck", kind="duck")
        df = Obj("df", kind="df")
        return I.call(I.global_lookup("pandas_tools", helper), [duck, df, Sym("TABLE_NAME", typ="str", truthy=True)], {}, None)

    n = 0
    for p, h in zip(explore(prog, fac, run, max_paths=32), hooks):
        if p.outcome != "return" or not h.calls:
            continue
        n += 1
        sql = h.calls[0][0]
        txt = sql.text() if isinstance(sql, Str) else tagof(sql)
        # the column list names the columns of the very frame the SELECT * reads, in that frame's order
        from .c05 import _prov_nodes
        col_sources = [x.origin[1] for x in _prov_nodes(sql) if isinstance(x, Sym) and x.origin and x.origin[0] == "attr" and len(x.origin) == 3
                       and x.origin[2] == "columns"]
        scanned = getattr(h, "scanned", None)
        if col_sources and scanned is not None:
            ok_f = all(cs is scanned or tagof(cs) == tagof(scanned) for cs in col_sources)
            ctx.ob("C01.c", "the INSERT's column list is read off the frame that `SELECT *` scans", ok_f, m.loc(fn),
                   "" if ok_f else f"columns of `{tagof(col_sources[0])[:50]}`, rows of `{tagof(scanned)[:50]}`")
            if not ok_f:
                ctx.violation("C01.c", "pandas_tools", helper, "column list and SELECT * read different frames", m.loc(fn),
                              f"the INSERT lists the columns of `{tagof(col_sources[0])[:60]}` but `SELECT *` reads `{tagof(scanned)[:60]}`, a frame "
                              f"derived later: when the two differ in column order the values land in the wrong columns")
        ok_t = isinstance(sql, Str) and txt.upper().startswith("INSERT INTO {TABLE_NAME}") and "SELECT * FROM DF" in txt.upper()
        # the column list is a join of '"' + col + '"'
        joins = [x for x in sql.parts if isinstance(x, Sym) and x.origin and x.origin[0] == "join"] if isinstance(sql, Str) else []
        ok_q = False
        for j in joins:
            seq = j.origin[2]
            el = seq.elem if isinstance(seq, Seq) else None
            if isinstance(el, Str) and len(el.parts) == 3 and el.parts[0] == '"' and el.parts[2] == '"':
                ok_q = True
        ctx.ob("C01.c", "INSERT names every dataframe column, double-quoted, and selects from the frame", ok_t and ok_q, m.loc(fn), txt[:80])
        if not (ok_t and ok_q):
            ctx.violation("C01.c", "pandas_tools", "_insert_df", f"insert template {txt[:80]}", m.loc(fn),
                          "write_pandas does not insert by double-quoted column name (`INSERT INTO t(\"col\",...) SELECT * FROM df`): column "
                          "names that need quoting or a different column order put values into the wrong columns")
        ret = p.value
        ok_c = isinstance(ret, Sym) and "engine_count" in tagof(ret)
        ctx.ob("C01.c", "the returned row count is the engine's", ok_c, m.loc(fn), tagof(ret))
        if not ok_c:
            ctx.violation("C01.c", "pandas_tools", "_insert_df", "returned count", m.loc(fn),
                          f"write_pandas reports `{tagof(ret)}` rows instead of the count the engine returned for the INSERT")
    ctx.floor("C01.c paths", n, 1)
    # every object column is encoded on every path: the only way past the encoder is "the frame has no object column"
    n_enc = 0
    for p in explore(prog, lambda: ExecHooks(None), run, max_paths=32):
        if p.outcome != "return":
            continue
        n_enc += 1
        stores = [e for e in p.effects if e[0] == "setitem" and any(t in tagof(e[3]) for t in (".apply(", ".map(", ".applymap(", ".transform("))]
        no_object_columns = any(v is False and t.startswith("nonempty(") and "select_dtypes" in t for t, v in p.assumed)
        other = [(t, v) for t, v in p.assumed if not (t.startswith("nonempty(") and "select_dtypes" in t)]
        ok = bool(stores) or no_object_columns
        ctx.ob("C01.c", "every object column is passed through the JSON encoder (skipped only when the frame has none)", ok, m.loc(fn),
               "" if ok else f"skipped under {other}")
        if not ok:
            ctx.violation("C01.c", "pandas_tools", "_insert_df", "object column left unencoded on a data-dependent path", m.loc(fn),
                          f"on a path decided by {[t for t, _ in other][:3]} an object column reaches the INSERT without the dict/list -> JSON "
                          f"encoding: whether a column is encoded must not depend on the value of some of its cells (a NULL or a string in the "
                          f"first row hands raw dicts to DuckDB)")
    ctx.floor("C01.c encoder paths", n_enc, 2)
    # C01.c5: apart from that encoding the frame's cells reach the engine as the caller supplied them: the insert path stores
    # nothing else into a column (allow-list of one idiom, the applied encoder; anything else rewrites caller values)
    n_st = 0
    seen_st = set()
    for p in explore(prog, lambda: ExecHooks(None), run, max_paths=32):
        if p.outcome != "return":
            continue
        for e in p.effects:
            if e[0] != "setitem":
                continue
            n_st += 1
            t = tagof(e[3])
            ok = any(x in t for x in (".apply(", ".map(", ".applymap(", ".transform("))
            if t in seen_st:
                continue
            seen_st.add(t)
            ctx.ob("C01.c5", "a column is rewritten only by the dict/list JSON encoder", ok, m.loc(fn), t[:80])
            if not ok:
                ctx.violation("C01.c5", "pandas_tools", helper, f"column rewritten with {t[:80]}", m.loc(fn),
                              f"before the INSERT a dataframe column is replaced by `{t[:100]}`, which is not the dict/list JSON encoding: "
                              f"write_pandas must hand the caller's values to the engine unchanged (a conversion such as dropping a time "
                              f"zone, rounding or casting stores a different value than was written)")
    ctx.floor("C01.c5 column stores", n_st, 1)
    # dict/list cells are json-encoded: the callable applied to the object columns (found through the effect trace, wherever
    # it is defined) dumps exactly the dict / list cells
    def encodes(fnode) -> bool:
        body = fnode.body if isinstance(fnode, ast.Lambda) else fnode
        dumps = [c for c in ast.walk(body) if isinstance(c, ast.Call) and norm(c.func).endswith("json.dumps")]
        guarded = any(isinstance(t, (ast.IfExp, ast.If)) and "isinstance" in norm(t.test) and "dict" in norm(t.test) and "list" in norm(t.test)
                      for t in ast.walk(body))
        return bool(dumps) and guarded

    applied = []
    for p in explore(prog, lambda: ExecHooks(None), run, max_paths=32):
        for e in p.effects:
            if e[0] == "call" and str(e[1]).endswith((".apply", ".map", ".applymap", ".transform")) and e[2]:
                node_ = getattr(e[2][0], "node", None)
                if node_ is not None:
                    applied.append(node_)
    ok_enc = bool(applied) and all(encodes(a_) for a_ in applied)
    ctx.ob("C01.c", "dict and list cells pass through json.dumps before the insert", ok_enc, m.loc(fn), f"{len(applied)} applied callables")
    if not ok_enc:
        ctx.violation("C01.c", "pandas_tools", "_insert_df", "json encoding of object cells", m.loc(fn),
                      "dict/list cells are not json-encoded before the dataframe is inserted: DuckDB would store them as STRUCT/LIST text, "
                      "not the JSON text Snowflake returns for VARIANT/OBJECT/ARRAY")


def rule_pandas_target(ctx):
    """C01.c2: write_pandas writes to <database>.<schema>.<table> built from its arguments, in that order."""
    prog = ctx.prog
    m = prog.mod("pandas_tools")
    fn = prog.fn("pandas_tools", "write_pandas")
    for with_db, with_schema in ((True, True), (False, True), (False, False)):
        hooks = []

        def fac():
            h = ExecHooks(None)
            hooks.append(h)
            return h

        def run(I, with_db=with_db, with_schema=with_schema):
            from ..execmodel import make_session
            duck, conn, cur = make_session()
            kw = {}
            if with_db:
                kw["database"] = Sym("DATABASE", typ="str", truthy=True)
            if with_schema:
                kw["schema"] = Sym("SCHEMA", typ="str", truthy=True)
            return I.call(I.global_lookup("pandas_tools", "write_pandas"), [conn, Obj("df", kind="df"), Sym("TABLE_NAME", typ="str", truthy=True)], kw, None)

        want = ("{DATABASE}." if with_db else "") + ("{SCHEMA}." if with_schema else "") + "{TABLE_NAME}"
        for p, h in zip(explore(prog, fac, run, max_paths=16), hooks):
            if p.outcome != "return" or not h.calls:
                continue
            txt = h.calls[0][0].text() if isinstance(h.calls[0][0], Str) else tagof(h.calls[0][0])
            ok = txt.startswith(f"INSERT INTO {want}(")
            ctx.ob("C01.c", f"write_pandas(database={with_db}, schema={with_schema}) inserts into {want}", ok, m.loc(fn), txt[:70])
            if not ok:
                ctx.violation("C01.c", "pandas_tools", "write_pandas", f"target for database={with_db} schema={with_schema}", m.loc(fn),
                              f"write_pandas builds the target `{txt[:60]}`; with these arguments the rows belong in `{want}` — they are written to "
                              f"another table (or the statement fails)")
            break


def rule_pandas_create_target(ctx):
    """C01.c6 / C03.f: with auto_create_table the table write_pandas creates is the table it loads: the CREATE names the same
    database / schema / table as the INSERT."""
    from .c19 import write_pandas_statements

    prog = ctx.prog
    m = prog.mod("pandas_tools")
    fn = prog.fn("pandas_tools", "write_pandas")
    n = 0
    for with_db, with_schema in ((True, True), (False, True), (False, False)):
        kw = {"auto_create_table": Const(True)}
        if with_db:
            kw["database"] = Sym("DATABASE", typ="str", truthy=True)
        if with_schema:
            kw["schema"] = Sym("SCHEMA", typ="str", truthy=True)
        want = ("{DATABASE}." if with_db else "") + ("{SCHEMA}." if with_schema else "") + "{TABLE_NAME}"
        seen = set()
        for texts in write_pandas_statements(prog, **kw):
            for txt in texts:
                mt = re.match(r"CREATE\s+(?:OR\s+REPLACE\s+)?(?:TEMP(?:ORARY)?\s+)?TABLE\s+(?:IF\s+NOT\s+EXISTS\s+)?(\S+?)\s*\(", txt, re.I)
                if not mt or txt in seen:
                    continue
                seen.add(txt)
                n += 1
                ok = mt.group(1) == want
                ctx.ob("C01.c6", f"write_pandas(auto_create_table, database={with_db}, schema={with_schema}) creates {want}", ok, m.loc(fn), mt.group(1))
                if not ok:
                    ctx.violation("C01.c6", "pandas_tools", "write_pandas", f"auto-created table for database={with_db} schema={with_schema}", m.loc(fn),
                                  f"write_pandas creates `{mt.group(1)}` but loads `{want}`: with a schema / database argument that differs from the "
                                  f"session's the table is created in the current schema and the rows go elsewhere (or the load fails)")
    ctx.floor("C01.c6 auto-create statements", n, 3)
    # the auto-created table is a schema object every session finds under its qualified name: it is TEMPORARY (private to the
    # writing connection) only when the caller asked for a temporary table
    k = 0
    for label, kw, temp_ok in (("default options", {}, False), ("table_type='transient'", {"table_type": Const("transient")}, False),
                               ("table_type=''", {"table_type": Const("")}, False)):
        seen = set()
        for texts in write_pandas_statements(prog, auto_create_table=Const(True), **kw):
            for txt in texts:
                mt = re.match(r"CREATE\s+(?:OR\s+REPLACE\s+)?((?:LOCAL\s+|GLOBAL\s+)?TEMP(?:ORARY)?\s+)?TABLE\b", txt, re.I)
                if not mt or txt in seen:
                    continue
                seen.add(txt)
                k += 1
                ok = temp_ok or not mt.group(1)
                ctx.ob("C01.c6", f"write_pandas(auto_create_table, {label}) creates a table other sessions can see", ok, m.loc(fn), txt[:60])
                if not ok:
                    ctx.violation("C01.c6", "pandas_tools", "write_pandas", f"auto-created table is TEMPORARY with {label}", m.loc(fn),
                                  f"with {label} write_pandas creates `{txt[:50]}…`: a temporary table lives in the writing connection's private "
                                  f"catalog, so `<db>.<schema>.<table>`, SHOW TABLES and every other connection do not see the loaded rows")
    ctx.floor("C01.c6 auto-create statements by table_type", k, 3)


class FrameHooks(ExecHooks):
    """write_pandas on a frame of n rows: frames are abstract row intervals [lo, hi) of the caller's frame; DuckDB's
    replacement scan resolves the table name of `SELECT * FROM <name>` to the Python local of that name in the frame of
    the function that calls execute."""

    def __init__(self):
        super().__init__(None)
        self.inserted = []  # (lo, hi) per INSERT, or None when the source is not a modelled frame

    @staticmethod
    def frame(lo, hi, name="df"):
        return Obj(name, kind="df", __len__=Const(hi - lo), rows=Tup([Const(lo), Const(hi)]))

    def obj_method(self, I, recv, name, args, kwargs, site):
        if recv.kind == "df" and name in ("copy", "reset_index"):
            lo, hi = (x.v for x in recv.attrs["rows"].items)
            return self.frame(lo, hi, recv.name + "'")
        if recv.kind == "df" and name == "select_dtypes":
            return Obj("no_object_columns", kind="cols", columns=Lst([]))  # the modelled frame has no dict/list cells
        return NotImplemented

    def subscript(self, I, v, lo, hi, idx, site):
        base = v
        if isinstance(v, Sym) and v.origin and v.origin[0] == "attr" and v.origin[2] in ("iloc", "loc"):
            base = v.origin[1]
        if not (isinstance(base, Obj) and base.kind == "df" and idx is None):
            return NotImplemented
        if not all(x is None or (isinstance(x, Const) and isinstance(x.v, int)) for x in (lo, hi)):
            return NotImplemented
        b0, b1 = (x.v for x in base.attrs["rows"].items)
        r = range(b1 - b0)[(lo.v if lo else None):(hi.v if hi else None)]
        return self.frame(b0 + r.start, b0 + max(r.stop, r.start), base.name + "[:]")

    def engine(self, I, obj, method, args, kwargs, site):
        if method == "execute" and args:
            txt = args[0].text() if isinstance(args[0], Str) else (args[0].v if isinstance(args[0], Const) else "")
            m = re.search(r"SELECT\s+\*\s+FROM\s+(\w+)", str(txt), re.I)
            if str(txt).lstrip().upper().startswith("INSERT") and m:
                src = I.envstack[-1].lookup(m.group(1)) if I.envstack else None
                rows = tuple(x.v for x in src.attrs["rows"].items) if isinstance(src, Obj) and src.kind == "df" else None
                self.inserted.append(rows)
                I.effect("frame-insert", rows, site)
        if method == "fetchall" and self.inserted and self.inserted[-1] is not None:
            super().engine(I, obj, method, args, kwargs, site)
            return Lst([Tup([Const(self.inserted[-1][1] - self.inserted[-1][0])])])
        return super().engine(I, obj, method, args, kwargs, site)


def rule_pandas_whole_frame(ctx):
    """C01.c3: write_pandas inserts every row of the frame exactly once, whatever chunk_size is, and reports that many rows.
    Bounded: frames of 0..6 rows x chunk_size in {None, 1, 2, 3, 4, 7} (abstract frames are row intervals)."""
    prog = ctx.prog
    m = prog.mod("pandas_tools")
    fn = prog.fn("pandas_tools", "write_pandas")
    loc = m.loc(fn)
    n_eval = 0
    for n in (0, 1, 2, 3, 5, 6):
        for c in (None, 1, 2, 3, 4, 7):
            hooks = []

            def fac():
                h = FrameHooks()
                hooks.append(h)
                return h

            def run(I, n=n, c=c):
                from ..execmodel import make_session
                duck, conn, cur = make_session()
                return I.call(I.global_lookup("pandas_tools", "write_pandas"), [conn, FrameHooks.frame(0, n), Sym("TABLE_NAME", typ="str", truthy=True)],
                              {"chunk_size": Const(c)}, None)

            for p, h in zip(explore(prog, fac, run, max_paths=64), hooks):
                n_eval += 1
                what = f"write_pandas(frame of {n} rows, chunk_size={c})"
                if p.outcome != "return":
                    ok, why = False, f"raises {p.value.cls}"
                elif any(r is None for r in h.inserted):
                    ctx.ob("C01.c3", f"{what}: inserted frames are row ranges of the caller's frame", None, loc, "source frame not modelled")
                    continue
                else:
                    covered, pos, why = True, 0, ""
                    for lo, hi in h.inserted:
                        if lo != pos:
                            covered, why = False, f"inserts rows {h.inserted} of {n}"
                            break
                        pos = hi
                    if covered and pos != n:
                        covered, why = False, f"inserts rows {h.inserted or 'none'} of {n}"
                    cnt = p.value.items[2] if isinstance(p.value, Tup) and len(p.value.items) > 2 else None
                    if covered and h.inserted and not (isinstance(cnt, Const) and cnt.v == n):
                        covered, why = False, f"reports {tagof(cnt)} rows for {n} inserted"
                    ok = covered
                ctx.ob("C01.c3", f"{what}: every row inserted exactly once and counted", ok, loc, "" if ok else why)
                if not ok:
                    ctx.violation("C01.c3", "pandas_tools", "write_pandas", f"rows lost or repeated when chunk_size={c}", loc,
                                  f"{what} {why}: rows of the frame are lost, repeated or miscounted")
    ctx.floor("C01.c3 frame x chunk_size evaluations", n_eval, 30)


def rule_pandas_non_destructive(ctx):
    """C01.c4: unless the caller asks to overwrite, write_pandas only adds rows: none of its own statements replaces, drops,
    truncates or deletes (auto_create_table creates the table when it is missing — IF NOT EXISTS — and keeps what is there)."""
    from .c19 import write_pandas_statements

    prog = ctx.prog
    m = prog.mod("pandas_tools")
    fn = prog.fn("pandas_tools", "write_pandas")
    n = 0
    seen = set()
    for label, kw in (("auto_create_table=True", {"auto_create_table": Const(True)}),
                      ("auto_create_table=True, overwrite=False", {"auto_create_table": Const(True), "overwrite": Const(False)}),
                      ("defaults", {})):
        for texts in write_pandas_statements(prog, **kw):
            n += 1
            for txt in texts:
                bad = re.match(r"(CREATE\s+OR\s+REPLACE|DROP|TRUNCATE|DELETE)\b", txt, re.I)
                if (label, txt) in seen:
                    continue
                seen.add((label, txt))
                ctx.ob("C01.c4", f"write_pandas({label}): `{txt[:40]}` keeps the rows already in the table", not bad, m.loc(fn))
                if bad:
                    ctx.violation("C01.c4", "pandas_tools", "write_pandas", f"{label}: destructive statement {bad.group(1).upper()}", m.loc(fn),
                                  f"write_pandas({label}) issues `{txt[:70]}`: rows written earlier (a previous batch, or a table created by SQL) are "
                                  f"silently discarded although the caller did not ask to overwrite")
    ctx.floor("C01.c4 write_pandas paths", n, 3)


def rule_transformed_before_executed(ctx):
    prog = ctx.prog
    n = 0
    for tr in run_execute(prog, "INSERT", None):
        if not tr.hooks.parsed:
            continue
        n += 1
        names = [e[1] for e in tr.path.effects if e[0] == "enter"]
        first_stage = stages(prog)[0].name
        try:
            i_t = names.index(f"transforms.{first_stage}")
            i_e = names.index("cursor.FakeSnowflakeCursor._execute")
            ok = i_t < i_e
        except ValueError:
            ok = False
        ctx.ob("C01.d", "the statement is transformed before it is executed", ok, "fakesnow/cursor.py")
        if not ok:
            ctx.violation("C01.d", "cursor", "FakeSnowflakeCursor.execute", "statement executed without the rewrite pipeline", "fakesnow/cursor.py",
                          "a parsed statement reaches _execute without passing the rewrite pipeline: Snowflake types and identifiers reach DuckDB unmapped")
    ctx.floor("C01.d traces", n, 1)


def rule_clone(ctx):
    """C01.g: CLONE is rewritten to CREATE TABLE <target> AS SELECT * FROM <source> (one of C01's ingestion paths)."""
    from .c10_wiring import cases
    from .wiring import run_cases

    n = run_cases(ctx, "C01.g", [c for c in cases() if c[1] == "create_clone"])
    ctx.floor("C01.g clone wiring cases", n, 1)


from .c08 import rule_client_side, rule_server_side  # noqa: E402  (bound parameters are one of C01's ingestion paths)

_DT_ALLOWED = {
    # pandas dtype name -> column types under which every value of that dtype reads back equal (anything else that is a known
    # Snowflake type name loses something: fractions, the zone, the time of day, the value's Python type)
    "int64": r"(NUMBER|DECIMAL|NUMERIC)(\(\d+(,\s*0)?\))?|INT|INTEGER|BIGINT",
    "float64": r"FLOAT|FLOAT4|FLOAT8|DOUBLE|DOUBLE PRECISION|REAL",
    "bool": r"BOOLEAN",
    "object": r"VARCHAR|STRING|TEXT|VARCHAR\(16777216\)",
    "datetime64[ns]": r"TIMESTAMP_NTZ|TIMESTAMPNTZ|TIMESTAMP|DATETIME|TIMESTAMP_NTZ\(9\)",
    "datetime64[ns, UTC]": r"TIMESTAMP_TZ|TIMESTAMPTZ|TIMESTAMP_LTZ|TIMESTAMPLTZ|TIMESTAMP_TZ\(9\)|TIMESTAMP_LTZ\(9\)",
    "datetime64[ns, Europe/Berlin]": r"TIMESTAMP_TZ|TIMESTAMPTZ|TIMESTAMP_LTZ|TIMESTAMPLTZ|TIMESTAMP_TZ\(9\)|TIMESTAMP_LTZ\(9\)",
    "datetime64[us, UTC]": r"TIMESTAMP_TZ|TIMESTAMPTZ|TIMESTAMP_LTZ|TIMESTAMPLTZ|TIMESTAMP_TZ\(9\)|TIMESTAMP_LTZ\(9\)",
}
_SF_TYPE_WORDS = {"NUMBER", "DECIMAL", "NUMERIC", "INT", "INTEGER", "BIGINT", "SMALLINT", "TINYINT", "BYTEINT", "FLOAT", "FLOAT4", "FLOAT8", "DOUBLE", "REAL",
                  "BOOLEAN", "VARCHAR", "STRING", "TEXT", "CHAR", "CHARACTER", "BINARY", "VARBINARY", "DATE", "TIME", "DATETIME", "TIMESTAMP", "TIMESTAMP_NTZ",
                  "TIMESTAMP_LTZ", "TIMESTAMP_TZ", "TIMESTAMPNTZ", "TIMESTAMPLTZ", "TIMESTAMPTZ"}


def rule_pandas_dtype_map(ctx):
    """C01.c7: the column type write_pandas(auto_create_table=True) declares for a frame column can hold every value of that dtype
    unchanged. The dtype -> type function is interpreted on concrete dtype names (it may refuse a dtype; an answer that needs
    more than the name is not judged): int64 is not FLOAT, float64 is not NUMBER, a zone-aware datetime is not TIMESTAMP_NTZ."""
    prog = ctx.prog
    m = prog.mod("pandas_tools")
    # the dtype -> type function by role: a one-parameter function of the module that write_pandas calls while it builds its CREATE
    # (whatever its body looks like: an if-ladder, a lookup table, named constants), or one that returns type names outright
    wp = prog.fn("pandas_tools", "write_pandas")
    called = {c.func.id for c in ast.walk(wp) if isinstance(c, ast.Call) and isinstance(c.func, ast.Name)}
    cands = [q for q, f in m.functions.items() if "." not in q and len(f.args.args) == 1 and not f.args.kwonlyargs and (
        (q in called and "dtype" in (f.args.args[0].arg + norm(f.args.args[0].annotation or ast.Constant(value="")) + q).lower())
        or sum(1 for r in ast.walk(f) if isinstance(r, ast.Return) and isinstance(r.value, ast.Constant) and isinstance(r.value.value, str)
               and r.value.value.split("(")[0].strip().upper() in _SF_TYPE_WORDS) >= 2)]
    if not cands:
        cands = [q for q, f in m.functions.items() if "." not in q and len(f.args.args) == 1 and q in called and "type" in q.lower()]
    ctx.floor("C01.c7 dtype -> column type functions", len(cands), 1)
    n = 0
    for q in cands:
        fn = m.functions[q]
        for dt, allowed in _DT_ALLOWED.items():
            paths = explore(prog, lambda: ExecHooks(None), lambda I, q=q, dt=dt: I.call(I.global_lookup("pandas_tools", q), [Const(dt)], {}, None), max_paths=16)
            for p in paths:
                n += 1
                if p.outcome != "return" or not (isinstance(p.value, Const) and isinstance(p.value.v, str)):
                    ctx.ob("C01.c7", f"{q}({dt}): refused, or decided by more than the dtype name", None if p.outcome == "return" else True, m.loc(fn),
                           tagof(p.value)[:60])
                    continue
                t = " ".join(p.value.v.upper().split())
                known = t.split("(")[0].strip() in _SF_TYPE_WORDS
                ok = bool(re.fullmatch(allowed, t)) or not known
                ctx.ob("C01.c7", f"{q}({dt}) = {t}: holds every value of the dtype unchanged", ok if known else None, m.loc(fn))
                if not ok:
                    ctx.violation("C01.c7", "pandas_tools", q, f"dtype {dt} -> {t}", m.loc(fn),
                                  f"a frame column of dtype {dt} is auto-created as {t}, which cannot hold its values unchanged (allowed: {allowed}): "
                                  + ("a zone-aware timestamp stored without its zone reads back as a naive, offset-shifted datetime" if "," in dt else
                                     "the values read back differ from the ones written"))
    ctx.floor("C01.c7 dtype evaluations", n, 8)


RULES = [
    ("C01.c7", rule_pandas_dtype_map, ("quick", "thorough")),
    ("C01.c6", rule_pandas_create_target, ("quick", "thorough")),
    ("C01.g", rule_clone, ("quick", "thorough")),
    ("C01.e", rule_client_side, ("quick", "thorough")),
    ("C01.f", rule_server_side, ("quick", "thorough")),
    ("C01.a", rule_width, ("quick", "thorough")),
    ("C01.b", rule_utc, ("quick", "thorough")),
    ("C01.c", rule_pandas, ("quick", "thorough")),
    ("C01.c2", rule_pandas_target, ("quick", "thorough")),
    ("C01.c3", rule_pandas_whole_frame, ("quick", "thorough")),
    ("C01.c4", rule_pandas_non_destructive, ("quick", "thorough")),
    ("C01.d", rule_transformed_before_executed, ("quick", "thorough")),
]
