"""C08 — bound parameters arrive as data."""

from __future__ import annotations

from ..execmodel import FullHooks, cset, define_variables, make_session, run_execute
from ..interp import explore
from ..values import Const, Dct, Lst, NodeV, Obj, Seq, Str, Sym, Tup, tagof
from .c05 import _prov_nodes

EXPLANATION = (
    "Dataflow (provenance) analysis of execute()/executemany() by abstract interpretation: with a client-side "
    "paramstyle every bound value reaches the statement text only through the connector's own "
    "to_snowflake -> escape -> quote chain and the % operator, applied to the text *after* session variables were "
    "inlined (so a value containing $name is never rewritten), and the engine receives no parameters; with qmark the "
    "very parameter object reaches the engine's prepared statement and the text is untouched; the style consulted is "
    "the connection's snapshot taken at connect; executemany executes once per parameter set, in order. The "
    "correctness of the connector's escape/quote and of DuckDB's prepared statements is trusted."
)
RULE_TEXT = (
    "C08.a each element -> quote(escape(to_snowflake(p))) in order, command is the left operand of %; C08.b no "
    "variable-inlining call has the substituted text as input and the parsed text is exactly the substituted value; "
    "C08.c substitution happens iff the connection's stored style is pyformat/format; C08.d qmark: engine gets the "
    "same params object, text unsubstituted; C08.e executemany: one execute per element, in order."
    " C08.f = C09.e."
    " C08.g the status statement of a nop-matched statement runs without the user's parameters."
)
TRUSTED = ["CPython ast", "snowflake.connector.converter.SnowflakeConverter.to_snowflake/escape/quote", "DuckDB prepared statements"]

VARS = {"V": Const("1")}


def _chain(v):
    """['quote','escape','to_snowflake', <leaf>] for a converted value."""
    names = []
    cur = v
    while isinstance(cur, Sym) and cur.origin and cur.origin[0] in ("call", "method"):
        if cur.origin[0] == "call":
            names.append(str(cur.origin[1]).split(".")[-1])
            args = cur.origin[2]
        else:
            names.append(cur.origin[2])
            args = cur.origin[3]
        if not args:
            break
        cur = args[0]
    return names, cur


def _is_substitution(x) -> bool:
    """a regex substitution result: re.sub(...) / re.subn(...) or <compiled pattern>.sub(...)"""
    if not (isinstance(x, Sym) and x.origin):
        return False
    if x.origin[0] == "call" and str(x.origin[1]).split(".")[-1] in ("sub", "subn"):
        return True
    return x.origin[0] == "method" and x.origin[2] in ("sub", "subn")


def _parse_arg(tr):
    e = [x for x in tr.path.effects if x[0] == "parse-user"]
    return e[0][1] if e else None


def rule_client_side(ctx):
    prog = ctx.prog
    ctx.analysed("cursor.FakeSnowflakeCursor.execute", "cursor.FakeSnowflakeCursor._rewrite_with_params",
                 "cursor.FakeSnowflakeCursor._inline_variables", "variables.Variables.inline_variables")
    n = 0
    P1, P2 = Sym("P1"), Sym("P2")
    for style in ("pyformat", "format"):
        for pname, params, leaves in (("sequence", Tup([P1, P2]), [P1, P2]), ("list", Lst([P1, P2]), [P1, P2]),
                                      ("dict", Dct({"a": P1, "b": P2}), [P1, P2])):
            for tr in run_execute(prog, "SELECT", None, params=params, paramstyle=style, variables=VARS):
                if not tr.hooks.parsed:
                    continue
                n += 1
                arg = _parse_arg(tr)
                probs = []
                if not (isinstance(arg, Sym) and arg.origin and arg.origin[0] == "binop" and arg.origin[1] == "Mod"):
                    probs.append(f"the parsed text `{tagof(arg)[:60]}` is not `command % converted-params`")
                else:
                    left, right = arg.origin[2], arg.origin[3]
                    items = (right.items if isinstance(right, (Tup, Lst)) else list(right.items.values()) if isinstance(right, Dct) else None)
                    if items is None or len(items) != len(leaves):
                        probs.append(f"converted parameters `{tagof(right)[:60]}` do not correspond one-to-one to the bound values")
                    else:
                        for it, leaf in zip(items, leaves):
                            names, end = _chain(it)
                            if names != ["quote", "escape", "to_snowflake"] or end is not leaf:
                                probs.append(f"bound value {leaf.tag} reaches the text as `{tagof(it)[:70]}`, not quote(escape(to_snowflake(value)))"
                                             + (f" (an extra conversion `{names[3]}` is applied to the value first)" if len(names) > 3 else ""))
                    # C08.b: inlining happened on the left operand only, before substitution
                    inl_left = any(_is_substitution(x) for x in _prov_nodes(left))
                    if not inl_left:
                        probs.append("session variables are not inlined into the command before parameters are substituted")
                    for leaf in leaves:
                        pass
                # a literal rendered through a cache keyed by == of the value (functools.lru_cache without typed=True) is
                # shared by values that compare equal but render differently (True / 1 / 1.0 / Decimal('1'))
                for e in tr.path.effects:
                    if e[0] == "memo-call" and e[1] == "untyped" and any(a is leaf for a in e[2] for leaf in leaves):
                        probs.append(f"bound value {next(a.tag for a in e[2] if any(a is l for l in leaves))} is rendered through a cache keyed "
                                     f"by equality of the value (line {getattr(e[3], 'lineno', '?')}): values that compare equal but have different "
                                     f"types (True, 1, 1.0) get each other's literal instead of quote(escape(to_snowflake(value)))")
                        break
                # the caller's parameter object is read, never written: a second execute with the same dict / list must bind the same values
                wrote = [e for e in tr.path.effects if e[0] in ("setitem", "list-extend") and len(e) > 1 and e[1] is params]
                if wrote or (isinstance(params, Dct) and any(params.items.get(k) is not v for k, v in (("a", P1), ("b", P2)))) \
                        or (isinstance(params, Lst) and [x for x in params.items] != [P1, P2]):
                    probs.append("the caller's parameter object is modified in place (the rendered literals are written back into it): passing "
                                 "the same object to the next execute binds already-quoted text, quote(escape(to_snowflake(value))) is applied twice")
                # nobody rewrites the substituted text: no re.sub/inline call above the Mod node
                if isinstance(arg, Sym) and arg.origin and arg.origin[0] != "binop":
                    for x in _prov_nodes(arg):
                        if isinstance(x, Sym) and x.origin and x.origin[0] == "binop" and x.origin[1] == "Mod":
                            probs = [f"the substituted text is rewritten afterwards (`{tagof(arg)[:50]}`): a bound value containing $name "
                                     f"or other text would be altered"]
                # engine receives no params
                eng = tr.hooks.calls[0][1] if tr.hooks.calls else None
                if not (isinstance(eng, Const) and eng.v is None):
                    probs.append(f"the engine call still receives parameters `{tagof(eng)}` after client-side substitution")
                ctx.ob("C08.a", f"{style}/{pname}: values quoted by the connector's chain, substituted after variable inlining",
                       not probs, "fakesnow/cursor.py", "; ".join(probs))
                for pr in probs:
                    ctx.violation("C08.a" if "quote(" in pr or "one-to-one" in pr or "not `command" in pr else "C08.b",
                                  "cursor", "FakeSnowflakeCursor.execute", f"{style}/{pname}: {pr[:90]}", "fakesnow/cursor.py",
                                  f"paramstyle {style}, {pname} parameters: {pr}")
    ctx.floor("C08.a traces", n, 6)
    # nothing to bind (None, or an empty tuple / list / dict): the text is nobody's format string — it reaches the parser as
    # written (`like 'a%'`, `10 % 3`, `'%%'` untouched) and the engine gets no parameters to complain about
    k = 0
    for pname, params in (("None", None), ("()", Tup([])), ("[]", Lst([])), ("{}", Dct({}))):
        for tr in run_execute(prog, "SELECT", None, params=params, paramstyle="pyformat"):
            if not tr.hooks.parsed:
                continue
            k += 1
            arg = _parse_arg(tr)
            mod = next((x for x in _prov_nodes(arg) if isinstance(x, Sym) and x.origin and x.origin[0] == "binop" and x.origin[1] == "Mod"), None)
            ok = mod is None
            ctx.ob("C08.a", f"pyformat with params={pname}: the command is not %-formatted", ok, "fakesnow/cursor.py", "" if ok else tagof(mod)[:60])
            if not ok:
                ctx.violation("C08.a", "cursor", "FakeSnowflakeCursor.execute", f"params={pname}: text %-formatted with nothing to bind", "fakesnow/cursor.py",
                              f"execute(command, {pname}) under paramstyle pyformat computes `command % {pname}`: a literal `%` in the statement "
                              f"(LIKE 'a%', 10 % 3) raises a Python formatting error and `'%%'` silently becomes `'%'`, although no value was bound")
    ctx.floor("C08.a no-parameter traces", k, 4)


def rule_server_side(ctx):
    prog = ctx.prog
    n = 0
    PARAMS = Tup([Sym("P1"), Sym("P2")])
    for style in ("qmark", "numeric"):
        for tr in run_execute(prog, "SELECT", None, params=PARAMS, paramstyle=style, variables=VARS):
            if not tr.hooks.parsed:
                continue
            n += 1
            arg = _parse_arg(tr)
            probs = []
            if any(isinstance(x, Sym) and x.origin and x.origin[0] == "binop" and x.origin[1] == "Mod" for x in _prov_nodes(arg)):
                probs.append("the text is %-substituted although the connection's paramstyle is server-side")
            eng = tr.hooks.calls[0][1] if tr.hooks.calls else None
            if eng is not PARAMS:
                probs.append(f"the engine's prepared statement receives `{tagof(eng)}` instead of the caller's parameters")
            ctx.ob("C08.d", f"{style}: parameters passed through to the engine unchanged", not probs, "fakesnow/cursor.py", "; ".join(probs))
            for pr in probs:
                ctx.violation("C08.d", "cursor", "FakeSnowflakeCursor.execute", f"{style}: {pr[:80]}", "fakesnow/cursor.py",
                              f"paramstyle {style}: {pr}")
    ctx.floor("C08.d traces", n, 2)
    # select upper(?), ?: the n-th value binds to the n-th placeholder of the statement *text*; if the cursor numbers them,
    # the numbers follow the written order, whatever the nesting depth (a tree search visits ph2 before ph1)
    m = 0
    for tr in run_execute(prog, "SELECT placeholders", None, params=PARAMS, paramstyle="qmark"):
        st = getattr(tr.hooks, "stmt", None)
        if st is None or tr.path.outcome != "return":
            continue
        m += 1
        phs = []

        def walk(x, depth=0):
            if isinstance(x, NodeV):
                if x.cls == "Placeholder":
                    phs.append(x)
                if depth < 12:
                    for k_, a_ in x.args.items():
                        if ":" not in k_:
                            walk(a_, depth + 1)
            elif isinstance(x, (Lst, Tup)):
                for a_ in x.items:
                    walk(a_, depth + 1)
        walk(st)
        got = {x.name: x.args.get("this") for x in phs}
        nums = {k: (v.v if isinstance(v, Const) else tagof(v)) for k, v in got.items() if v is not None and not (isinstance(v, Const) and not v.v)}
        ok = not nums or (str(nums.get("ph1")) == "1" and str(nums.get("ph2")) == "2")
        ctx.ob("C08.d", "select upper(?), ?: placeholders stay positional, or are numbered in written order", ok, "fakesnow/cursor.py", str(nums))
        if not ok:
            ctx.violation("C08.d", "cursor", "FakeSnowflakeCursor.execute", f"placeholders numbered out of written order {nums}", "fakesnow/cursor.py",
                          f"for `select upper(?), ?` the placeholders are rewritten to {nums}: the first value of the caller's sequence is bound "
                          f"to the second `?` and vice versa (numbering by tree depth instead of position in the text)")
    ctx.floor("C08.d nested-placeholder traces", m, 1)
    # C08.c snapshot: the constructor stores snowflake.connector.paramstyle
    from ..connectmodel import Point, run_point_states
    from ..values import Ext

    ok = False
    for path, st in run_point_states(prog, Point(False, None, True, True, False, False, False)):
        conn = path.value
        if isinstance(conn, Obj):
            held = list(conn.attrs.values()) + [w for v in conn.attrs.values() if isinstance(v, Obj) and v.kind != "duck" for w in v.attrs.values()]
            ok = any(isinstance(v, Ext) and v.dotted == "snowflake.connector.paramstyle" for v in held)  # on the connection or a record it owns
    ctx.ob("C08.c", "the connection stores snowflake.connector.paramstyle at construction", ok, "fakesnow/conn.py")
    if not ok:
        ctx.violation("C08.c", "conn", "FakeSnowflakeConnection.__init__", "paramstyle snapshot", "fakesnow/conn.py",
                      "the connection does not record snowflake.connector.paramstyle when it is made: the style in force would "
                      "follow later changes of the global")


def rule_executemany(ctx):
    prog = ctx.prog
    ctx.analysed("cursor.FakeSnowflakeCursor.executemany")
    from ..values import OneShot
    sets = [Tup([Sym("A1")]), Tup([Sym("B1")]), Tup([Sym("C1")])]
    n = 0
    for shape in ("tuple", "iterator"):
        hooks = []

        def fac():
            h = FullHooks(None, "INSERT", undefined_var=False)
            hooks.append(h)
            return h

        def run(I, shape=shape):
            duck, conn, cur = make_session()
            from ..execmodel import R
            cset(conn, R().paramstyle, Const("qmark"))
            batch = Tup(sets) if shape == "tuple" else OneShot(sets)  # any iterable of rows: a generator / zip(...) can be read once
            return I.call(I.getattr(cur, "executemany"), [Sym("COMMAND", typ="str", truthy=True), batch], {}, None)

        for p, h in zip(explore(prog, fac, run, max_paths=64), hooks):
            if p.outcome != "return":
                continue
            n += 1
            primaries = [c for c in h.calls if isinstance(c[1], Tup)]
            ok = [c[1] for c in primaries] == sets and h.parsed >= 1  # (a parse cache keyed by the exact text may serve the repeats)
            ctx.ob("C08.e", f"executemany ({shape} of rows): one execute per parameter set, in order", ok, "fakesnow/cursor.py",
                   f"{h.parsed} statements, params {[tagof(c[1]) for c in primaries]}")
            if not ok:
                ctx.violation("C08.e", "cursor", "FakeSnowflakeCursor.executemany", f"executemany loop ({shape} of rows)", "fakesnow/cursor.py",
                              f"executemany over 3 parameter sets given as a{'n' if shape == 'iterator' else ''} {shape} executes {h.parsed} statement(s) with "
                              f"parameters {[tagof(c[1]) for c in primaries]}: every set must be executed once, in order"
                              + (" (a one-shot iterable was consumed before the loop that executes)" if shape == "iterator" else ""))
    ctx.floor("C08.e paths", n, 2)


def rule_executemany_client_side(ctx):
    """C08.e2: under a client-side paramstyle executemany binds every parameter set the way execute does: each statement text
    that reaches the parser is `inlined(command) % converted(set_i)` — the values of one set, through the connector's chain,
    substituted after (never before) session variables are inlined, and not rewritten afterwards."""
    prog = ctx.prog
    A1, B1 = Sym("A1"), Sym("B1")
    sets = [Tup([A1]), Tup([B1])]
    hooks = []

    def fac():
        h = FullHooks(None, "INSERT")
        hooks.append(h)
        return h

    def run(I):
        duck, conn, cur = make_session()
        from ..execmodel import R
        cset(conn, R().paramstyle, Const("pyformat"))
        define_variables(conn, dict(VARS))
        return I.call(I.getattr(cur, "executemany"), [Sym("COMMAND", typ="str", truthy=True), Tup(sets)], {}, None)

    n = 0
    seen = set()
    for p, h in zip(explore(prog, fac, run, max_paths=128), hooks):
        if p.outcome != "return" or h.parsed == 0:
            continue
        n += 1
        texts = [e[1] for e in p.effects if e[0] == "parse-user"]
        probs = []
        prov = [(t, list(_prov_nodes(t))) for t in texts]
        for i, leaf in enumerate((A1, B1)):
            # the set's value reaches a parsed statement, and only as quote(escape(to_snowflake(value)))
            uses = [x for _, nodes in prov for x in nodes if isinstance(x, Sym) and x.origin and x.origin[0] in ("call", "method")
                    and _chain(x)[1] is leaf]
            if not uses:
                probs.append(f"the value of parameter set #{i + 1} reaches no statement")
            elif not any(_chain(x)[0][:3] == ["quote", "escape", "to_snowflake"] for x in uses):
                probs.append(f"the value of parameter set #{i + 1} is not bound as quote(escape(to_snowflake(value)))")
        for i, (t, nodes) in enumerate(prov):
            # session variables are inlined into the command text only: no substitution runs over text that holds bound values
            for x in nodes:
                if _is_substitution(x) and any(y is leaf for y in _prov_nodes(x) for leaf in (A1, B1)):
                    probs.append(f"statement #{i + 1}: bound values are already in the text when session variables are inlined "
                                 f"(`$name` inside a bound value is replaced or refused)")
                    break
            if not any(_is_substitution(x) for x in nodes):
                probs.append(f"statement #{i + 1}: session variables are not inlined into the command")
        ok = not probs
        ctx.ob("C08.e2", "executemany (pyformat): every parameter set is bound as execute binds it", ok, "fakesnow/cursor.py", "; ".join(probs)[:200])
        for pr in probs:
            if pr in seen:
                continue
            seen.add(pr)
            ctx.violation("C08.e2", "cursor", "FakeSnowflakeCursor.executemany", pr[:90], "fakesnow/cursor.py",
                          f"executemany under paramstyle pyformat: {pr}")
    ctx.floor("C08.e2 paths", n, 1)


def rule_placeholder_order(ctx):
    """C08.h: server-side placeholders are bound by position in the *generated* statement, so a rewrite must keep the operands
    that can hold a `?` in the order they were written. Decided for the rewrites that rebuild an operand list:
    OBJECT_CONSTRUCT('b', ?, 'a', ?) keeps its pairs in written order."""
    from ..execmodel import lit, node
    from .wiring import IS, LIST, P, run_cases

    def make():
        ops = {}
        ops["kv1"] = node("PropertyEQ", this=lit("b", True), expression=node("Placeholder", "ph1"))
        ops["kv2"] = node("PropertyEQ", this=lit("a", True), expression=node("Placeholder", "ph2"))
        return node("Struct", "stmt", expressions=Lst([ops["kv1"], ops["kv2"]])), ops

    cases = [("OBJECT_CONSTRUCT('b', ?, 'a', ?) keeps the pairs (and their placeholders) in written order", "object_construct", make,
              lambda o, i: P("Anonymous", this="TO_JSON", expressions=LIST(P("Struct", expressions=LIST(IS(o["kv1"]), IS(o["kv2"]))))),
              "qmark / numeric parameters are bound to the n-th placeholder of the generated SQL: reordering the pairs binds the values to the wrong keys")]
    def occurs_once(opnd):
        def pat(v, path):
            cnt = 0

            def walk(x, depth=0):
                nonlocal cnt
                if x is opnd:
                    cnt += 1
                    return
                if depth > 12:
                    return
                if isinstance(x, NodeV):
                    for a_ in x.args.values():
                        walk(a_, depth + 1)
                elif isinstance(x, (Lst, Tup)):
                    for a_ in x.items:
                        walk(a_, depth + 1)
            walk(v)
            return None if cnt == 1 else f"{path} contains the operand {cnt} times, expected once"
        return pat

    def make_size():
        ops = {"ph": node("Placeholder", "ph1")}
        return node("ArraySize", "stmt", this=ops["ph"]), ops

    cases.append(("ARRAY_SIZE(?) keeps one placeholder", "array_size", make_size, lambda o, i: occurs_once(o["ph"]),
                  "an operand rendered twice doubles the `?` inside it: the prepared statement then needs more parameters than the caller bound"))
    n = run_cases(ctx, "C08.h", cases)
    ctx.floor("C08.h cases", n, 2)


def rule_reembedded_text(ctx):
    """C08.f = C09.e: a value that fakesnow itself re-embeds into a statement of its own (the table comment — which may have
    been a bound parameter) sits in a single-quoted literal with its quotes doubled, the one embedding that is safe for every
    value."""
    from .c09 import rule_quote

    before = len(ctx.obligations)
    rule_quote(ctx)
    for o in ctx.obligations[before:]:
        o["rule"] = "C08.f"
    for f in ctx.findings:
        if f.rule == "C09.e":
            f.rule = "C08.f"


def rule_nop_with_params(ctx):
    """C08.g: a statement with client-side parameters that matches a nop pattern is answered with the parameter-free status
    statement — the engine must not be handed the user's parameters with it (it would refuse: "needs 0 parameters")."""
    from ..values import Lst, Tup

    prog = ctx.prog
    n = 0
    P1 = Sym("P1")
    for pname, params in (("sequence", Tup([P1])), ("list", Lst([P1]))):
        for tr in run_execute(prog, "INSERT", None, params=params, paramstyle="pyformat", nop_regexes=Lst([Const("^INSERT")]), nop_match=True):
            if tr.hooks.parsed:
                continue  # (not the nop path)
            n += 1
            calls = tr.hooks.calls
            eng = calls[0][1] if calls else None
            ok = tr.path.outcome == "return" and bool(calls) and (eng is None or (isinstance(eng, Const) and eng.v is None))
            ctx.ob("C08.g", f"nop-matched statement with pyformat {pname} parameters: the status statement runs without parameters", ok,
                   "fakesnow/cursor.py", tagof(eng) if eng is not None else "")
            if not ok:
                ctx.violation("C08.g", "cursor", "FakeSnowflakeCursor.execute", f"nop path with {pname} parameters", "fakesnow/cursor.py",
                              f"a statement matched by nop_regexes and executed with pyformat parameters hands `{tagof(eng) if eng is not None else '?'}` to the "
                              f"engine together with the placeholder-free status statement: the engine refuses the parameters, so the no-op fails "
                              f"exactly when values are bound")
    ctx.floor("C08.g nop paths with parameters", n, 2)


def rule_value_survives_set(ctx):
    """C08.i = C15.g: a bound value may travel through a session variable (`set v = %s` … `select $v`): the text SET stores is
    rendered in the dialect it is parsed back in, so the value that comes out is the value that was bound (a default-dialect
    rendering re-reads backslashes as escapes)."""
    from .c15 import rule_set_unset

    before, nf = len(ctx.obligations), len(ctx.findings)
    rule_set_unset(ctx)
    ctx.obligations[before:] = [o for o in ctx.obligations[before:] if o["rule"] == "C15.g"]
    for o in ctx.obligations[before:]:
        o["rule"] = "C08.i"
    keep = []
    for f in ctx.findings[nf:]:
        if f.rule == "C15.g":
            f.rule = "C08.i"
            keep.append(f)
    ctx.findings[nf:] = keep


RULES = [
    ("C08.i", rule_value_survives_set, ("quick", "thorough")),
    ("C08.g", rule_nop_with_params, ("quick", "thorough")),
    ("C08.f", rule_reembedded_text, ("quick", "thorough")),
    ("C08.a", rule_client_side, ("quick", "thorough")),
    ("C08.d", rule_server_side, ("quick", "thorough")),
    ("C08.e", rule_executemany, ("quick", "thorough")),
    ("C08.e2", rule_executemany_client_side, ("quick", "thorough")),
    ("C08.h", rule_placeholder_order, ("quick", "thorough")),
]
