"""E7 — path-sensitive abstract interpreter (typestate / effect analysis).

Interprets a *named* function of the analysed package over abstract values (values.py).  A branch
on an unknown splits the path: paths are enumerated by replaying the function under a growing
vector of decisions; a decision is memoised per path by its tag, so later tests of the same fact
agree.  Intra-package calls are interpreted (inlined); external calls are recorded as effects and
return unknowns that carry their provenance.  No concrete execution of the analysed code, no solver.
"""

from __future__ import annotations

import ast
import re as _re

from .model import PKG, AnalysisError, Program, is_property, norm, walk_no_nested
from .values import (ArgsView, Bound, ClsRef, Const, Dct, EnumV, ExcV, Ext, FlagV, Func, Gen, Lam, Lst, NodeV, Obj, OneShot, Part, Seq, Str,
                     Sym, Tpl, Tup, Val, mkstr, tagof)


class Unsupported(AnalysisError):
    pass


class _Return(Exception):
    def __init__(self, v):
        self.v = v


class _Raise(Exception):
    def __init__(self, exc: ExcV):
        self.exc = exc


class _Break(Exception):
    pass


class _Continue(Exception):
    pass


class PathLimit(AnalysisError):
    pass


EXC_BASES = {
    "snowflake.connector.errors.ProgrammingError": ["snowflake.connector.errors.DatabaseError"],
    "snowflake.connector.errors.NotSupportedError": ["snowflake.connector.errors.DatabaseError"],
    "snowflake.connector.errors.DatabaseError": ["snowflake.connector.errors.Error"],
    "snowflake.connector.errors.Error": ["builtins.Exception"],
    "duckdb.BinderException": ["duckdb.ProgrammingError"],
    "duckdb.CatalogException": ["duckdb.ProgrammingError"],
    "duckdb.ParserException": ["duckdb.ProgrammingError"],
    "duckdb.ProgrammingError": ["duckdb.DatabaseError"],
    "duckdb.TransactionException": ["duckdb.OperationalError"],
    "duckdb.ConnectionException": ["duckdb.OperationalError"],
    "duckdb.ConversionException": ["duckdb.DataError"],
    "duckdb.ConstraintException": ["duckdb.IntegrityError"],
    "duckdb.OperationalError": ["duckdb.DatabaseError"],
    "duckdb.DataError": ["duckdb.DatabaseError"],
    "duckdb.IntegrityError": ["duckdb.DatabaseError"],
    "duckdb.DatabaseError": ["duckdb.Error"],
    "duckdb.Error": ["builtins.Exception"],
    "builtins.AssertionError": ["builtins.Exception"],
    "builtins.NotImplementedError": ["builtins.RuntimeError"],
    "builtins.RuntimeError": ["builtins.Exception"],
    "builtins.ValueError": ["builtins.Exception"],
    "builtins.TypeError": ["builtins.Exception"],
    "builtins.KeyError": ["builtins.LookupError"],
    "builtins.LookupError": ["builtins.Exception"],
    "builtins.Exception": ["builtins.BaseException"],
}


def exc_isinstance(cls: str, base: str) -> bool:
    seen, todo = set(), [cls]
    while todo:
        c = todo.pop()
        if c == base:
            return True
        if c in seen:
            continue
        seen.add(c)
        todo.extend(EXC_BASES.get(c, ["builtins.Exception"] if c != "builtins.BaseException" else []))
    return False


class Env:
    __slots__ = ("vars", "outer", "mod", "fn")

    def __init__(self, mod: str, fn: str = "", outer: "Env | None" = None):
        self.vars: dict[str, Val] = {}
        self.outer = outer
        self.mod = mod
        self.fn = fn

    def lookup(self, name: str):
        e = self
        while e is not None:
            if name in e.vars:
                return e.vars[name]
            e = e.outer
        return None


class Hooks:
    """Default environment model; rules subclass it."""

    def engine(self, I: "Interp", obj: Obj, method: str, args, kwargs, site) -> Val:
        I.effect("engine", method, args, kwargs, site)
        if method in ("execute", "sql"):
            return obj
        return Sym(f"{obj.name}.{method}()@{I.siteid(site)}", origin=("engine", method))

    def external(self, I: "Interp", dotted: str, args, kwargs, site):
        return NotImplemented

    def assert_mode(self) -> str:
        return "assume"  # asserts are assumptions; 'fork' explores the failing side too

    def isinstance_unknown(self, I, v, cls):
        return None

    def subscript(self, I, v, lo, hi, idx, site):
        """v[lo:hi] (idx None) or v[idx] on an abstract object the rule models; NotImplemented = default"""
        return NotImplemented


# library functions whose result type is fixed by their documentation (isinstance() on the result does not fork)
_EXT_RETURNS = {"re.sub": "str", "re.escape": "str", "json.dumps": "str", "textwrap.dedent": "str", "os.path.join": "str",
                "os.getcwd": "str", "builtins.repr": "str", "builtins.chr": "str", "builtins.hex": "str"}


def _odigest(v, depth=3) -> str:
    """what a value was computed from, as text (tags of the operands, recursively): two results of the same call site with
    different operands differ here although their site-based tags coincide"""
    o = getattr(v, "origin", None)
    if not o or depth == 0:
        return tagof(v)
    parts = []
    for x in o:
        if isinstance(x, (list, tuple)):
            parts.append("(" + ",".join(_odigest(y, depth - 1) if isinstance(y, Val) else str(y) for y in x) + ")")
        elif isinstance(x, dict):
            parts.append("{" + ",".join(f"{k}:{_odigest(y, depth - 1) if isinstance(y, Val) else y}" for k, y in x.items()) + "}")
        elif isinstance(x, Val):
            parts.append(_odigest(x, depth - 1))
        else:
            parts.append(str(getattr(x, "name", x))[:40] if not isinstance(x, ast.AST) else "")
    return ";".join(parts)


def dkey(v):
    """the key a value has in an abstract dict: the constant itself, else the value's tag — for results of calls / methods /
    operators (whose tags name the call site only) extended by a digest of the operands"""
    if isinstance(v, Const):
        return v.v
    t = tagof(v)
    if isinstance(v, Sym) and v.origin and v.origin[0] in ("call", "method", "binop"):
        import hashlib
        return t + "#" + hashlib.sha1(_odigest(v).encode()).hexdigest()[:6]
    return t


class Interp:
    MAX_DEPTH = 12

    def __init__(self, prog: Program, hooks: Hooks, decisions: list[bool]):
        self.prog = prog
        self.hooks = hooks
        self.decisions = list(decisions)
        self.dpos = 0
        self.val: dict[str, bool] = {}
        self.effects: list[tuple] = []
        self.assumed: list[tuple[str, bool]] = []
        self.depth = 0
        self.callstack: list[str] = []
        self._modenv: dict[str, Env] = {}
        self._loopctr: list[int] = []
        self.value_ctx = False
        self.steps = 0
        self.envstack: list[Env] = []  # environments of the active intra-package calls (innermost last)
        self._yield_collect: list[list] = []
        self._tentative: list[bool] | None = None
        self._tent_tags: list[str] = []

    # ------------------------------------------------------------------ decisions
    def decide(self, tag: str) -> bool:
        self._decide_calls = getattr(self, "_decide_calls", 0) + 1
        if tag in self.val:
            return self.val[tag]
        if self._tentative is not None:
            # inside an assumed `assert`: unknowns take the values that make the assertion hold, without forking
            i = len(self._tent_tags)
            v = self._tentative[i] if i < len(self._tentative) else True
            self._tent_tags.append(tag)
            self.val[tag] = v
            return v
        if self.dpos < len(self.decisions):
            v = self.decisions[self.dpos]
        else:
            v = True
            self.decisions.append(True)
        self.dpos += 1
        self.val[tag] = v
        self.assumed.append((tag, v))
        return v

    def assume(self, tag: str, v: bool) -> None:
        self.val.setdefault(tag, v)

    def effect(self, *e) -> None:
        self.effects.append(e)

    def siteid(self, site) -> str:
        if site is None:
            return "?"
        loop = "." + ".".join(map(str, self._loopctr)) if self._loopctr else ""
        return f"{getattr(site, 'lineno', 0)}:{getattr(site, 'col_offset', 0)}{loop}"

    # ------------------------------------------------------------------ truth
    def truth(self, v) -> bool:
        if isinstance(v, Const):
            return bool(v.v)
        if isinstance(v, FlagV):
            return bool(v.members)
        if isinstance(v, Str):
            return True if v.nonempty() else self.decide(f"truthy({v.tag})")
        if isinstance(v, Sym):
            if v.truthy is not None:
                return v.truthy
            r = self.decide(f"truthy({v.tag})")
            return r
        if isinstance(v, (Tup, Lst)):
            if isinstance(v, Lst) and v.open and not v.items:
                return self.decide(f"truthy({v.tag}@open)")
            return len(v.items) > 0
        if isinstance(v, Dct):
            return len(v.items) > 0
        if isinstance(v, Seq):
            return self.decide(f"nonempty({v.tag})")
        if isinstance(v, Obj) and v.kind == "arrow":
            return self.decide(f"nonempty({v.tag})")  # a pyarrow table / batch is falsy when it has no rows
        return True  # objects, nodes, functions, classes

    def is_none(self, v) -> bool:
        if isinstance(v, Const):
            return v.v is None
        if isinstance(v, Sym):
            if v.notnone:
                return False
            if v.truthy:
                return False
            return not self.decide(f"{v.tag} is not None")
        return False

    # ------------------------------------------------------------------ module environments
    def modenv(self, mod: str) -> Env:
        if mod not in self._modenv:
            self._modenv[mod] = Env(mod)
            self._module_init(mod, self._modenv[mod])
        return self._modenv[mod]

    def _module_init(self, mod: str, env: Env) -> None:
        """What importing the module does besides defining names: top-level calls, loops and registering decorators (a stage
        registry filled by `stage(fn)` calls, a route table filled by `@post(path)`). Run once per interpreter, quietly: effects
        and decisions of the import are not the analysed call's."""
        m = self.prog.modules.get(mod)
        tree = getattr(m, "tree", None)
        if m is None or tree is None:
            return
        todo = []
        for s in tree.body:
            if isinstance(s, ast.Expr) and isinstance(s.value, ast.Call):
                todo.append(s)
            elif isinstance(s, (ast.For, ast.AugAssign)):
                todo.append(s)
            elif isinstance(s, (ast.FunctionDef, ast.AsyncFunctionDef)) and any(self._is_package_decorator(m, d) for d in s.decorator_list):
                todo.append(s)
        if not todo:
            return
        n_eff, val0, assumed0, dpos0, dec0 = len(self.effects), dict(self.val), len(self.assumed), self.dpos, list(self.decisions)
        hooks0, self.hooks = self.hooks, Hooks()
        try:
            for s in todo:
                try:
                    if isinstance(s, (ast.FunctionDef, ast.AsyncFunctionDef)):
                        fv = Func(mod, s.name, s)
                        for d in reversed(s.decorator_list):
                            if self._is_package_decorator(m, d):
                                self.call(self.ev(d, env), [fv], {}, d, env)
                    else:
                        self.st(s, env)
                except (_Raise, _Return, Unsupported, PathLimit, AnalysisError, RecursionError):
                    pass
        finally:
            self.hooks = hooks0
            del self.effects[n_eff:]
            self.val, self.dpos, self.decisions = val0, dpos0, dec0
            del self.assumed[assumed0:]

    def _is_package_decorator(self, m, d) -> bool:
        f = d.func if isinstance(d, ast.Call) else d
        if isinstance(f, ast.Name):
            return m.functions.own(f.id) if hasattr(m.functions, "own") else f.id in m.functions
        dn = self.prog.dotted(m, f) or ""
        return dn.startswith(PKG + ".") and self.prog.resolve(dn) is not None

    def global_lookup(self, mod: str, name: str):
        env = self.modenv(mod)
        if name in env.vars:
            return env.vars[name]
        m = self.prog.modules[mod]
        v = None
        own = getattr(m.functions, "own", m.functions.__contains__)
        if own(name):
            v = Func(mod, name, m.functions[name])
        elif getattr(m.classes, "own", m.classes.__contains__)(name):
            v = ClsRef(f"{PKG}.{mod}.{name}")
        elif getattr(m.consts, "own", m.consts.__contains__)(name):
            env.vars[name] = Sym(f"{mod}.{name}")  # cycle guard
            v = self.ev(m.consts[name], env)
            if isinstance(v, Tpl):
                v.name = name
            if isinstance(v, NodeV):
                v.name = f"{mod}.{name}"
                v.fresh = False
                v.shared = True  # module-level AST constant
            if isinstance(v, Dct) and self._module_dict_written(name):
                v.shared_name = f"{mod}.{name}"  # module-level dict that code writes to: other calls may have filled it
        elif name in m.imports:
            v = self.import_value(m.imports[name])
        elif name in m.functions or name in m.classes or name in m.consts:
            home = self.prog.locate(mod, name)  # visible through a star import of a sibling module
            if home is not None and home[0] != mod:
                v = self.global_lookup(home[0], home[1])
        if v is not None:
            env.vars[name] = v
        return v

    def _module_dict_written(self, name: str) -> bool:
        """does any function of the package store into / mutate a container called `name` (bare or as module attribute)?"""
        cache = self.prog.__dict__.setdefault("_dict_writers", {})
        if name not in cache:
            def is_it(e):
                return (isinstance(e, ast.Name) and e.id == name) or (isinstance(e, ast.Attribute) and e.attr == name)
            hit = False
            for m in self.prog.modules.values():
                for n in ast.walk(m.tree):
                    if isinstance(n, (ast.Assign, ast.AugAssign, ast.Delete)):
                        tg = n.targets if isinstance(n, (ast.Assign, ast.Delete)) else [n.target]
                        if any(isinstance(t, ast.Subscript) and is_it(t.value) for t in tg):
                            hit = True
                    elif isinstance(n, ast.Call) and isinstance(n.func, ast.Attribute) and is_it(n.func.value) and n.func.attr in (
                            "update", "setdefault", "pop", "popitem", "clear", "__setitem__"):
                        hit = True
            cache[name] = hit
        return cache[name]

    def import_value(self, dotted: str) -> Val:
        r = self.prog.resolve(dotted)
        if r:
            mod, qual = r
            return self.global_lookup(mod, qual.split(".")[0]) if "." not in qual else self.global_lookup(mod, qual)
        parts = dotted.split(".")
        if parts[0] == PKG and len(parts) == 2 and parts[1] in self.prog.modules:
            return Ext(dotted)
        return self.ext_value(dotted)

    def ext_value(self, dotted: str) -> Val:
        d = dotted.replace("sqlglot.expressions.", "sqlglot.exp.")
        if d.startswith("sqlglot.exp."):
            rest = d[len("sqlglot.exp."):]
            if rest.startswith("DataType.Type."):
                return EnumV(rest)
            if rest.startswith("DataType.") and rest.split(".", 1)[1] in self.prog.sqlglot.type_sets:
                return Tup([EnumV(f"DataType.Type.{m_}") for m_ in self.prog.sqlglot.type_sets[rest.split(".", 1)[1]]])  # a frozen set of types
            if rest in self.prog.sqlglot.classes:
                return ClsRef("exp." + rest)
            if rest == "DataType.Type":
                return Ext("exp.DataType.Type")
        last = d.rsplit(".", 1)[-1]
        if d.startswith(("duckdb.", "snowflake.connector.")) and last[:1].isupper() and last.endswith(("Error", "Exception")):
            return ClsRef(d)
        return Ext(d)

    # ------------------------------------------------------------------ names
    BUILTIN_CLASSES = {"str", "int", "bool", "float", "list", "tuple", "dict", "set", "bytes", "type", "object"}
    BUILTIN_EXC = {"Exception", "AssertionError", "NotImplementedError", "ValueError", "TypeError", "KeyError",
                   "RuntimeError", "BaseException"}

    def name(self, n: str, env: Env):
        v = env.lookup(n)
        if v is not None:
            return v
        v = self.global_lookup(env.mod, n)
        if v is not None:
            return v
        if n in ("True", "False", "None"):
            return Const({"True": True, "False": False, "None": None}[n])
        if n in self.BUILTIN_EXC:
            return ClsRef("builtins." + n)
        return Ext("builtins." + n)

    # ------------------------------------------------------------------ expressions
    def ev(self, e: ast.AST, env: Env) -> Val:
        self.steps += 1
        if self.steps > 200000:
            raise PathLimit("interpreter step limit")
        m = getattr(self, "ev_" + type(e).__name__, None)
        if m is None:
            return Sym(f"expr:{norm(e)[:50]}@{self.siteid(e)}")
        return m(e, env)

    def ev_Constant(self, e, env):
        return Const(e.value)

    def ev_Name(self, e, env):
        return self.name(e.id, env)

    def ev_Tuple(self, e, env):
        return Tup(self._elts(e.elts, env))

    def ev_List(self, e, env):
        return Lst(self._elts(e.elts, env))

    def ev_Set(self, e, env):
        return Tup(self._elts(e.elts, env))

    def _elts(self, elts, env):
        out = []
        for x in elts:
            if isinstance(x, ast.Starred):
                v = self.force(self.ev(x.value, env))
                if isinstance(v, (Tup, Lst)):
                    out.extend(v.items)
                else:
                    out.append(Sym(f"*{tagof(v)}", origin=("star", v)))
            else:
                out.append(self.ev(x, env))
        return out

    def ev_Dict(self, e, env):
        d = Dct()
        for k, v in zip(e.keys, e.values):
            if k is None:
                inner = self.ev(v, env)
                if isinstance(inner, Dct):
                    d.items.update(inner.items)
                continue
            kv = self.ev(k, env)
            key = dkey(kv)
            d.items[key] = self.ev(v, env)
            if not isinstance(kv, Const):
                d.keyvals[key] = kv
        return d

    def ev_JoinedStr(self, e, env):
        parts = []
        for v in e.values:
            if isinstance(v, ast.Constant):
                parts.append(v.value)
            elif isinstance(v, ast.FormattedValue):
                x = self.ev(v.value, env)
                if v.format_spec is not None:
                    spec = "".join(c.value for c in v.format_spec.values if isinstance(c, ast.Constant))
                    if isinstance(x, Const) and isinstance(x.v, (int, float, str)):
                        try:
                            parts.append(format(x.v, spec))
                            continue
                        except (ValueError, TypeError):
                            pass
                    parts.append(Sym(f"format({tagof(x)},{spec!r})", origin=("format", x, spec), typ="str", truthy=True))
                    continue
                parts.append(self.to_strpart(x))
        return mkstr(parts)

    def to_strpart(self, x):
        if isinstance(x, Const):
            return x.v if isinstance(x.v, str) else str(x.v)
        if isinstance(x, (Str, Sym)):
            return x
        if isinstance(x, NodeV):
            return Sym(f"sql({x.name})", truthy=True, origin=("sql", x), typ="str")
        if isinstance(x, EnumV):
            return x.dotted
        return Sym(f"str({tagof(x)})", origin=("str", x), typ="str")

    def ev_NamedExpr(self, e, env):
        v = self.ev(e.value, env)
        env.vars[e.target.id] = v
        return v

    def _capture_defaults(self, a: ast.arguments, env) -> dict:
        captured = {}
        pos = [*a.posonlyargs, *a.args]
        for prm, d in zip(pos[len(pos) - len(a.defaults):], a.defaults):
            captured[prm.arg] = self.ev(d, env)
        for prm, d in zip(a.kwonlyargs, a.kw_defaults):
            if d is not None:
                captured[prm.arg] = self.ev(d, env)
        return captured

    @staticmethod
    def _with_captured(f, node_args: ast.arguments, args, kwargs) -> dict:
        cap = getattr(f, "defaults", None) or {}
        if not cap:
            return kwargs
        pos = [x.arg for x in (*node_args.posonlyargs, *node_args.args)]
        given = set(pos[:len(args)]) | set(kwargs)
        return {**{k: v for k, v in cap.items() if k not in given}, **kwargs}

    def ev_Lambda(self, e, env):
        lam = Lam(e, env, env.mod)
        # default values are evaluated when the lambda is created (`lambda m, v=value: v` captures this iteration's value)
        lam.defaults = self._capture_defaults(e.args, env)
        return lam

    def ev_UnaryOp(self, e, env):
        v = self.ev(e.operand, env)
        if isinstance(e.op, ast.Not):
            return Const(not self.truth(v))
        if isinstance(e.op, ast.USub) and isinstance(v, Const) and isinstance(v.v, (int, float)):
            return Const(-v.v)
        if isinstance(e.op, ast.Invert) and isinstance(v, FlagV):
            return FlagV(v.cls, set(v.universe) - v.members, v.universe)
        return Sym(f"{type(e.op).__name__}({tagof(v)})", origin=("unop", type(e.op).__name__, v))

    def ev_BoolOp(self, e, env):
        vctx = self.value_ctx
        self.value_ctx = False
        last = None
        for i, x in enumerate(e.values):
            last = self.ev(x, env)
            if i == len(e.values) - 1:
                return last
            if vctx and isinstance(last, Sym) and last.truthy is None and f"truthy({last.tag})" not in self.val:
                # value position: keep symbolic instead of splitting the path on an irrelevant unknown
                rest = [self.ev(y, env) for y in e.values[i + 1:]]
                op = "or" if isinstance(e.op, ast.Or) else "and"
                return Sym(f"({last.tag} {op} {' '.join(tagof(r) for r in rest)})", origin=("boolop", op, [last, *rest]))
            t = self.truth(last)
            if isinstance(e.op, ast.And) and not t:
                return last
            if isinstance(e.op, ast.Or) and t:
                return last
        return last

    def ev_IfExp(self, e, env):
        return self.ev(e.body, env) if self.truth(self.ev(e.test, env)) else self.ev(e.orelse, env)

    def ev_BinOp(self, e, env):
        l, r = self.ev(e.left, env), self.ev(e.right, env)
        if isinstance(e.op, ast.BitOr) and isinstance(l, Dct) and isinstance(r, Dct):
            merged = Dct({**l.items, **r.items})  # dict | dict: a new mapping, right operand wins
            merged.keyvals.update({**l.keyvals, **r.keyvals})
            return merged
        if isinstance(l, FlagV) and isinstance(r, FlagV) and l.cls == r.cls and isinstance(e.op, (ast.BitOr, ast.BitAnd, ast.BitXor)):
            m_ = l.members | r.members if isinstance(e.op, ast.BitOr) else l.members & r.members if isinstance(e.op, ast.BitAnd) else l.members ^ r.members
            return FlagV(l.cls, m_, l.universe)
        if isinstance(e.op, ast.Add):
            if isinstance(l, (Const, Str, Sym)) and isinstance(r, (Const, Str, Sym)):
                if isinstance(l, Const) and isinstance(r, Const):
                    try:
                        return Const(l.v + r.v)
                    except TypeError:
                        pass
                elif _strlike(l) or _strlike(r):
                    return mkstr([self.to_strpart(l), self.to_strpart(r)])
            if isinstance(l, (Tup, Lst)) and isinstance(r, (Tup, Lst)):
                if type(l) is not type(r):
                    # list + tuple (either way) is a TypeError in Python
                    raise _Raise(ExcV("builtins.TypeError", {}, [Const("can only concatenate list (not \"tuple\") to list")]))
                if isinstance(l, Tup):
                    return Tup(l.items + r.items)
                return Lst(l.items + r.items, open=getattr(l, "open", False) or getattr(r, "open", False))
            if isinstance(l, (Tup, Lst)) and isinstance(r, (Seq, Sym)):
                return Lst(l.items + [Sym(f"elem({tagof(r)})", origin=("elem", r))], open=True)
        if isinstance(e.op, ast.Div):
            # pathlib join
            if (isinstance(l, Sym) and l.typ == "path") or (isinstance(l, Str)):
                return Str([l, "/", self.to_strpart(r)])
        if isinstance(e.op, ast.Mult) and isinstance(l, Const) and isinstance(r, Const) and (
                (isinstance(l.v, str) and isinstance(r.v, int)) or (isinstance(l.v, int) and isinstance(r.v, str))) and not isinstance(l.v, bool) and not isinstance(r.v, bool):
            return Const(l.v * r.v)  # " " * 16
        if isinstance(l, Const) and isinstance(r, Const) and isinstance(l.v, (int, float)) and isinstance(r.v, (int, float)):
            try:
                return Const({ast.Add: lambda a, b: a + b, ast.Sub: lambda a, b: a - b, ast.Mult: lambda a, b: a * b,
                              ast.FloorDiv: lambda a, b: a // b, ast.Mod: lambda a, b: a % b, ast.Div: lambda a, b: a / b}[
                    type(e.op)](l.v, r.v))
            except KeyError:
                pass
            except ZeroDivisionError:
                raise _Raise(ExcV("builtins.ZeroDivisionError", {}, [Const("division by zero")])) from None
        op = type(e.op).__name__
        return Sym(f"({tagof(l)} {op} {tagof(r)})", origin=("binop", op, l, r),
                   typ="str" if isinstance(e.op, ast.Mod) and _strlike(l) else None)

    def ev_Compare(self, e, env):
        left = self.ev(e.left, env)
        res = True
        for op, rc in zip(e.ops, e.comparators):
            right = self.ev(rc, env)
            res = self.compare(left, op, right, e)
            if not res:
                return Const(False)
            left = right
        return Const(res)

    def compare(self, l, op, r, site) -> bool:
        neg = isinstance(op, (ast.NotEq, ast.IsNot, ast.NotIn))
        if isinstance(op, (ast.Is, ast.IsNot)):
            if isinstance(r, Const) and r.v is None:
                res = self.is_none(l)
            elif isinstance(l, Const) and isinstance(r, Const):
                res = l.v is r.v
            elif isinstance(l, (ClsRef, Ext)) and isinstance(r, (ClsRef, Ext)):
                res = l.dotted == r.dotted  # the same class / module object
            elif isinstance(l, EnumV) and isinstance(r, EnumV):
                res = l.dotted == r.dotted
            elif isinstance(l, FlagV) and isinstance(r, FlagV):
                res = l.cls == r.cls and l.members == r.members
            elif isinstance(l, Func) and isinstance(r, Func):
                res = (l.mod, l.qual) == (r.mod, r.qual) and l.self_val is r.self_val
            else:
                res = l is r
            return res != neg
        if isinstance(op, (ast.Eq, ast.NotEq)):
            res = self.equal(l, r)
            return res != neg
        if isinstance(op, (ast.In, ast.NotIn)) and isinstance(l, FlagV) and isinstance(r, FlagV):
            return (l.cls == r.cls and l.members <= r.members) != neg  # Flag containment
        if isinstance(op, (ast.In, ast.NotIn)):
            if isinstance(r, (Tup, Lst)) and not getattr(r, "open", False):
                res = False
                for x in r.items:
                    if self.equal(l, x):
                        res = True
                        break
            elif isinstance(r, Dct):
                key_ = dkey(l)
                res = key_ in r.items
                if not res and getattr(r, "shared_name", None) and getattr(self.hooks, "earlier_calls_filled_caches", False):
                    # a module-level dict that code writes to: an earlier call may have stored this key (a rule that reasons about
                    # histories asks for this; by default a run starts with the caches as the module defines them)
                    res = self.decide(f"{tagof(l)} in {r.shared_name}")
            elif isinstance(l, Const) and isinstance(r, Const) and isinstance(r.v, str) and isinstance(l.v, str):
                res = l.v in r.v
            elif isinstance(l, Const) and isinstance(r, Str) and isinstance(l.v, str) and any(
                isinstance(p, str) and l.v in p for p in r.parts
            ):
                res = True
            else:
                res = self.decide(f"{tagof(l)} in {tagof(r)}")
            return res != neg
        if isinstance(l, Const) and isinstance(r, Const):
            try:
                return {ast.Lt: l.v < r.v, ast.LtE: l.v <= r.v, ast.Gt: l.v > r.v, ast.GtE: l.v >= r.v}[type(op)]
            except (TypeError, KeyError):
                pass
        return self.decide(f"{tagof(l)} {type(op).__name__} {tagof(r)}")

    def equal(self, l, r) -> bool:
        # a member of an enum with a data mix-in (`class K(str, Enum)`, IntEnum, StrEnum) *is* its value for ==, `in` and hashing
        if isinstance(l, EnumV) and getattr(l, "mixin", False) and not isinstance(r, EnumV):
            l = l.value_
        if isinstance(r, EnumV) and getattr(r, "mixin", False) and not isinstance(l, EnumV):
            r = r.value_
        if isinstance(l, Const) and isinstance(r, Const):
            return l.v == r.v
        if isinstance(l, EnumV) and isinstance(r, EnumV):
            return l.dotted == r.dotted
        if isinstance(l, FlagV) and isinstance(r, FlagV):
            return l.cls == r.cls and l.members == r.members
        if isinstance(l, (ClsRef, Ext)) and isinstance(r, (ClsRef, Ext)):
            return l.dotted == r.dotted
        if isinstance(l, (EnumV, ClsRef)) and isinstance(r, Const) or isinstance(r, (EnumV, ClsRef)) and isinstance(l, Const):
            return False
        if l is r:
            return True
        if isinstance(l, Sym) and isinstance(r, Sym) and l.tag == r.tag:
            return True
        if isinstance(l, Sym) and isinstance(r, Sym) and l.distinct and r.distinct:
            return False  # two different generic user-chosen names
        if isinstance(l, Sym) and isinstance(r, Sym) and l.origin and r.origin and l.origin[0] == "sql" and r.origin[0] == "sql" \
                and isinstance(l.origin[1], NodeV) and isinstance(r.origin[1], NodeV) and not l.origin[1].open and not r.origin[1].open \
                and l.origin[1] is not r.origin[1] and l.origin[1].name != r.origin[1].name:
            return False  # renderings of two differently named closed descriptor nodes
        if isinstance(l, Str) and isinstance(r, Str):
            if l.text() == r.text():
                return True  # the same abstract text
            lh, rh = [p for p in l.parts if not isinstance(p, str)], [p for p in r.parts if not isinstance(p, str)]
            if len(l.parts) == 1 and len(r.parts) == 1 and len(lh) == 1 and len(rh) == 1:
                lo, ro = getattr(lh[0], "origin", None), getattr(rh[0], "origin", None)
                if lo and ro and lo[0] == "sql" and ro[0] == "sql" and isinstance(lo[1], NodeV) and isinstance(ro[1], NodeV) \
                        and not lo[1].open and not ro[1].open and lo[1] is not ro[1] and lo[1].name != ro[1].name:
                    return False  # renderings of two differently named closed descriptor nodes
        if isinstance(l, Const) and l.v is None:
            return self.is_none(r)
        if isinstance(r, Const) and r.v is None:
            return self.is_none(l)
        for a, b in ((l, r), (r, l)):
            if isinstance(a, Const) and isinstance(b, Sym) and b.distinct:
                return False
            if isinstance(a, Const) and isinstance(b, Sym) and b.origin and b.origin[0] in ("upper", "lower", "casefold") \
                    and isinstance(b.origin[1], Sym) and b.origin[1].distinct:
                return False
            if isinstance(a, Const) and isinstance(a.v, str) and isinstance(b, Sym) and b.origin and (
                    (b.origin[0] == "upper" and a.v != a.v.upper()) or (b.origin[0] in ("lower", "casefold") and a.v != a.v.lower())):
                return False  # an upper-cased text never equals a constant with a lower-case letter (and vice versa)
            if isinstance(a, Const) and isinstance(b, (Sym, Str)):
                if isinstance(a.v, str) and a.v == "" and (isinstance(b, Str) and b.nonempty() or isinstance(b, Sym) and b.truthy):
                    return False
                if isinstance(b, Str) and isinstance(a.v, str) and not _could_match(b, a.v):
                    return False
                if isinstance(b, Sym) and b.truthy is False and a.v:
                    return False
        structured = (NodeV, Obj, EnumV, ClsRef, Tup, Lst, Dct, Ext, Func, Lam, Tpl, ExcV, Seq)
        for a, b in ((l, r), (r, l)):
            if isinstance(a, structured):
                if isinstance(b, (Const, Str)) or (isinstance(b, Sym) and b.typ):
                    return False
                if isinstance(b, structured):
                    if isinstance(a, (Tup, Lst)) and isinstance(b, (Tup, Lst)) and len(a.items) == len(b.items):
                        return all(self.equal(x, y) for x, y in zip(a.items, b.items))
                    return a is b
        a, b = sorted([tagof(l), tagof(r)])
        return self.decide(f"{a} == {b}")

    def ev_Subscript(self, e, env):
        v = self.ev(e.value, env)
        if isinstance(v, (ClsRef, Ext)):  # typing generics: tuple[...], list[...]
            return v
        idx = self.ev(e.slice, env) if not isinstance(e.slice, ast.Slice) else None
        self._sub_env = env
        try:
            return self.getitem(v, idx, e)
        finally:
            self._sub_env = None

    def getitem(self, v, idx, e):
        if isinstance(v, Obj) and getattr(v, "tuple_fields", None) and isinstance(idx, Const) and isinstance(idx.v, int) \
                and -len(v.tuple_fields) <= idx.v < len(v.tuple_fields):
            return v.attrs.get(v.tuple_fields[idx.v], Const(None))
        if isinstance(e.slice, ast.Slice):
            lo = self.ev(e.slice.lower, Env("?")) if isinstance(e.slice.lower, ast.Constant) else None
            hi = self.ev(e.slice.upper, Env("?")) if isinstance(e.slice.upper, ast.Constant) else None
            env = getattr(self, "_sub_env", None)
            if env is not None and e.slice.step is None and (isinstance(v, (Obj, Sym)) or (isinstance(v, (Tup, Lst)) and not getattr(v, "open", False))):
                # bounds computed from concrete integers (i + 1) are evaluated in the current environment
                blo = lo if lo is not None or e.slice.lower is None else self.ev(e.slice.lower, env)
                bhi = hi if hi is not None or e.slice.upper is None else self.ev(e.slice.upper, env)
                if isinstance(v, (Obj, Sym)):
                    r = self.hooks.subscript(self, v, blo, bhi, None, e)
                    if r is not NotImplemented:
                        return r
                elif all(x is None or (isinstance(x, Const) and isinstance(x.v, int)) for x in (blo, bhi)):
                    return Lst(v.items[(blo.v if blo else None):(bhi.v if bhi else None)])
            if isinstance(v, (Tup, Lst)) and all(x is None or isinstance(x, Const) for x in (lo, hi)) and (
                (e.slice.lower is None or lo is not None) and (e.slice.upper is None or hi is not None)
            ) and not getattr(v, "open", False):
                return Lst(v.items[(lo.v if lo else None):(hi.v if hi else None)])
            return Sym(f"{tagof(v)}[{norm(e.slice)}]", origin=("slice", v, norm(e.slice)))
        if isinstance(v, (Tup, Lst)) and isinstance(idx, Const) and isinstance(idx.v, int):
            if -len(v.items) <= idx.v < len(v.items) and not (getattr(v, "open", False) and idx.v < 0):
                return v.items[idx.v]
            if not getattr(v, "open", False) and not isinstance(v, OneShot):
                raise _Raise(ExcV("builtins.IndexError", {}, [Const("list index out of range")]))  # a closed sequence has no such element
        if isinstance(v, Dct) and isinstance(idx, Const) and idx.v in v.items:
            return v.items[idx.v]
        if isinstance(v, Dct) and not isinstance(idx, Const) and dkey(idx) in v.items:
            return v.items[dkey(idx)]
        if isinstance(v, ArgsView) and isinstance(idx, Const):
            return self.node_arg(v.node, idx.v)
        if isinstance(v, Seq):
            if v.kind == "dict" and v.src:
                self.effect("keyed-lookup", v, idx, e)  # a mapping built from a sequence, read back by key: one entry per distinct key
            return v.elem
        if isinstance(v, ExcV) and isinstance(idx, Const):
            return Sym(f"{v.tag}.args[{idx.v}]", typ="str")
        return Sym(f"{tagof(v)}[{tagof(idx)}]", origin=("index", v, idx))

    def ev_Yield(self, e, env):
        # only reached when the hooks ask for generator bodies to be interpreted straight through (a context manager
        # entered and left normally): the yield hands out its value and resumes with None
        v = self.ev(e.value, env) if e.value is not None else Const(None)
        if self._yield_collect:
            self._yield_collect[-1].append(v)  # a generator function being consumed: the values it hands out, in order
            return Const(None)
        self.effect("yield", v, e)
        return Const(None)

    def ev_YieldFrom(self, e, env):
        v = self.force(self.ev(e.value, env))
        if self._yield_collect:
            items = self.iter_values(v, e)
            self._yield_collect[-1].extend(items if items is not None else [Sym(f"elem({tagof(v)})", origin=("elem", v))])
            return Const(None)
        self.effect("yield", v, e)
        return Const(None)

    def ev_Await(self, e, env):
        return self.ev(e.value, env)

    def ev_Starred(self, e, env):
        return self.ev(e.value, env)

    def ev_ListComp(self, e, env):
        return self.comprehension(e, env, "list")

    def _ev_stored(self, e, env):
        """the value of an expression that is stored or returned: a generator expression stays unevaluated (it runs when — and only
        if — something consumes it), also as the deciding operand of `x and (… for …)` / `x or (…)` / `a if c else (… for …)`"""
        if isinstance(e, ast.GeneratorExp):
            return Gen(e, env)
        if isinstance(e, ast.BoolOp) and isinstance(e.values[-1], ast.GeneratorExp):
            for operand in e.values[:-1]:
                v = self.ev(operand, env)
                if self.truth(v) != isinstance(e.op, ast.And):
                    return v  # `and`: the first falsy operand; `or`: the first truthy one
            return Gen(e.values[-1], env)
        if isinstance(e, ast.IfExp) and (isinstance(e.body, ast.GeneratorExp) or isinstance(e.orelse, ast.GeneratorExp)):
            branch = e.body if self.truth(self.ev(e.test, env)) else e.orelse
            return self._ev_stored(branch, env)
        return self.ev(e, env)

    def ev_GeneratorExp(self, e, env):
        return self.comprehension(e, env, "gen")

    def ev_SetComp(self, e, env):
        return self.comprehension(e, env, "set")

    def ev_DictComp(self, e, env):
        return self.comprehension(e, env, "dict")

    def comprehension(self, e, env, kind):
        if len(e.generators) != 1:
            # nested `for` clauses over concrete iterables: the loops run in order, inner iterables may use outer targets
            out, dout, dkeys = [], {}, {}
            sub0 = Env(env.mod, env.fn, env)

            def level(i, sub):
                if i == len(e.generators):
                    if kind == "dict":
                        k = self.ev(e.key, sub)
                        dout[dkey(k)] = self.ev(e.value, sub)
                        if not isinstance(k, Const):
                            dkeys[tagof(k)] = k
                    else:
                        out.append(self.ev(e.elt, sub))
                    return True
                g = e.generators[i]
                src = self.iter_values(self.force(self.ev(g.iter, sub)), e)
                if src is None:
                    return False
                for x in src:
                    self.assign(g.target, x, sub)
                    if all(self.truth(self.ev(c, sub)) for c in g.ifs):
                        if not level(i + 1, sub):
                            return False
                return True

            if level(0, sub0):
                if kind == "dict":
                    dres = Dct(dout)
                    dres.keyvals.update(dkeys)
                    return dres
                return Lst(out)
            return Sym(f"comp@{self.siteid(e)}")
        g = e.generators[0]
        it = self.force(self.ev(g.iter, env))
        sub = Env(env.mod, env.fn, env)
        src = self.iter_values(it, e)
        if src is not None:
            out, dout, dkeys = [], {}, {}
            for x in src:
                self.assign(g.target, x, sub)
                if all(self.truth(self.ev(c, sub)) for c in g.ifs):
                    if kind == "dict":
                        k = self.ev(e.key, sub)
                        dout[dkey(k)] = self.ev(e.value, sub)
                        if not isinstance(k, Const):
                            dkeys[tagof(k)] = k
                    else:
                        out.append(self.ev(e.elt, sub))
            if kind == "dict":
                dres = Dct(dout)
                dres.keyvals.update(dkeys)
                return dres
            return Lst(out)
        elem = it.elem if isinstance(it, Seq) else Sym(f"elem({tagof(it)})", origin=("elem", it))
        if isinstance(it, Bound) or (isinstance(it, Sym) and it.origin and it.origin[0] == "method" and it.origin[2] == "items"):
            pass
        self.assign(g.target, elem, sub)
        # evaluate filter and element once on the abstract element; effects inside are recorded once
        mark = dict(self.val)
        for c in g.ifs:
            self.ev(c, sub)  # do not constrain
        if kind == "dict":
            kv = self.ev(e.key, sub)
            vv = self.ev(e.value, sub)
            return Seq(vv, "dict", src=("comp", it, kv))
        return Seq(self.ev(e.elt, sub), kind, src=("comp", it))

    def iter_values(self, it, site):
        if isinstance(it, Obj) and getattr(it, "tuple_fields", None):
            return [it.attrs.get(f_, Const(None)) for f_ in it.tuple_fields]
        if isinstance(it, OneShot):
            if it.consumed:
                return []
            it.consumed = True
            return list(it.items)
        if isinstance(it, (Tup, Lst)) and not getattr(it, "open", False):
            return list(it.items)
        if isinstance(it, ClsRef) and it.dotted.startswith(PKG + ".") and it.dotted.count(".") == 2:
            _, mod_, cls_ = it.dotted.split(".")
            return self._enum_members(mod_, cls_)  # iterating an Enum class yields its members in definition order
        if isinstance(it, Dct):
            return [it.keyvals.get(k, Const(k)) for k in it.items]
        if isinstance(it, Sym) and it.origin and it.origin[0] == "enumerate":
            inner = self.iter_values(it.origin[1], site)
            if inner is not None:
                return [Tup([Const(i), x]) for i, x in enumerate(inner)]
        if isinstance(it, Sym) and it.origin and it.origin[0] == "dictitems":
            d = it.origin[1]
            return [Tup([d.keyvals.get(k, Const(k)), v]) for k, v in d.items.items()]
        return None

    def ev_Attribute(self, e, env):
        d = self.prog.dotted(self.prog.modules[env.mod], e) if env.lookup(_root_name(e) or "") is None else None
        if d is not None:
            r = self.prog.resolve(d)
            if r:
                mod, qual = r
                if "." not in qual:
                    v = self.global_lookup(mod, qual)
                    if v is not None:
                        return v
            elif not d.startswith(PKG + "."):
                ev = self.ext_value(d)
                if not isinstance(ev, Ext) or not isinstance(e.value, ast.Attribute):
                    return ev
                return ev
        base = self.ev(e.value, env)
        return self.getattr(base, e.attr, e)

    def refresh_properties(self, obj, names, site=None):
        """Mirror what `obj.<name>` reads into obj.attrs for names the class defines as properties (a rule that inspects the
        object after the path ended sees what a caller of the attribute would see, wherever the value is stored)."""
        if not isinstance(obj, Obj) or not obj.cls:
            return
        for a in names:
            fn = self.find_method(obj.cls[0], obj.cls[1], a)
            if fn is not None and is_property(fn[2]):
                held = obj.attrs.pop(a, None)
                try:
                    obj.attrs[a] = self.call_func(Func(fn[0], fn[1], fn[2], self_val=obj), [], {}, site)
                except _Raise:
                    if held is not None:
                        obj.attrs[a] = held

    def getattr(self, base, a: str, site=None) -> Val:
        if isinstance(base, Obj):
            if a in base.attrs:
                return base.attrs[a]
            if base.cls:
                mod, cls = base.cls
                fn = self.find_method(mod, cls, a)
                if fn is not None:
                    if _is_staticmethod(fn[2]):
                        return Func(fn[0], fn[1], fn[2], self_val=None)
                    if _is_classmethod(fn[2]):
                        return Func(fn[0], fn[1], fn[2], self_val=ClsRef(f"{PKG}.{fn[0]}.{fn[1].split('.')[0]}"))
                    f = Func(fn[0], fn[1], fn[2], self_val=base)
                    if is_property(fn[2]):
                        return self.call_func(f, [], {}, site)
                    return f
            if base.kind in ("duck", "arrow"):
                return Bound(base, a)
            if base.cls:
                cv = self.class_attr(base.cls[0], base.cls[1], a)
                if cv is not None:
                    return cv
            if base.cls and not getattr(base, "lazy_done", False):
                # a hand-built abstract object (execmodel.make_session): attributes its constructor would have created
                # (helpers, caches, wrappers) are materialised on first miss by interpreting __init__ on a shadow object
                base.lazy_done = True
                self._lazy_init(base)
                if a in base.attrs:
                    return base.attrs[a]
            return Sym(f"{base.name}.{a}", origin=("attr", base, a))
        if isinstance(base, NodeV):
            return self.node_attr(base, a, site)
        if isinstance(base, ArgsView):
            return Bound(base, a)
        if isinstance(base, Const) and base.v is None:
            exc = ExcV("builtins.AttributeError", {}, [Const(f"'NoneType' object has no attribute '{a}'")])
            self.effect("none-deref", a, site)
            raise _Raise(exc)
        if isinstance(base, Tpl) and a == "template":
            return base.text  # string.Template.template: the text it was made from
        if isinstance(base, ExcV):
            if a in base.kwargs:
                return base.kwargs[a]
            if a == "args":
                return base
            if a in base.attrs:
                return base.attrs[a]
            return Sym(f"{base.tag}.{a}")
        if isinstance(base, Ext):
            return self.ext_value(base.dotted + "." + a)
        if isinstance(base, EnumV) and a in ("value", "name"):
            if a == "name":
                return Const(base.member)
            if getattr(base, "value_", None) is not None:
                return base.value_
        if isinstance(base, ClsRef):
            if base.dotted.startswith(PKG + ".") and base.dotted.count(".") == 2:
                _, mod, cls = base.dotted.split(".")
                ev_ = self._enum_member(mod, cls, a)
                if ev_ is not None:
                    return ev_
                fn = self.find_method(mod, cls, a)
                if fn is not None:
                    return Func(fn[0], fn[1], fn[2], self_val=base if _is_classmethod(fn[2]) else None)
                home = self.prog.locate(mod, cls) or (mod, cls)
                ca = self.class_attr(home[0], home[1], a)  # a class used as a namespace of constants: `Class.NAME`
                if ca is not None:
                    return ca
            if base.dotted == "exp.DataType" and a == "Type":
                return Ext("exp.DataType.Type")
            return Bound(base, a)
        if isinstance(base, Sym):
            if a in ("upper", "lower", "startswith", "endswith", "split", "strip", "join", "format", "replace",
                     "get", "items", "keys", "values", "append", "copy", "casefold", "group", "fetchone", "fetchall",
                     "to_pylist", "slice", "sql", "find", "find_all", "substitute", "pop"):
                return Bound(base, a)
            return Sym(f"{base.tag}.{a}", origin=("attr", base, a))
        return Bound(base, a)

    def find_method(self, mod: str, cls: str, name: str):
        m = self.prog.modules.get(mod)
        if m is None:
            return None
        q = f"{cls}.{name}"
        if not getattr(m.classes, "own", m.classes.__contains__)(cls) and cls in m.classes:
            home = self.prog.locate(mod, cls)  # a class this module only re-exports: its methods live (and run) at home
            if home is not None and home[0] != mod:
                return self.find_method(home[0], home[1], name)
        if q in m.functions:
            return mod, q, m.functions[q]
        c = m.classes.get(cls)
        if c is not None:
            for b in c.bases:
                d = self.prog.dotted(m, b) if not isinstance(b, ast.Name) or b.id in m.imports else None
                if isinstance(b, ast.Name) and b.id in m.classes:
                    r = self.find_method(mod, b.id, name)
                    if r:
                        return r
                elif d:
                    rr = self.prog.resolve(d)
                    if rr:
                        r = self.find_method(rr[0], rr[1], name)
                        if r:
                            return r
        return None

    # ------------------------------------------------------------------ sqlglot node model
    def node_arg(self, n: NodeV, key: str) -> Val:
        if key in n.args:
            return n.args[key]
        if not n.open:
            return Const(None)
        at = self.prog.sqlglot.arg_types(n.cls) if n.cls else None
        if at is not None and key not in at:
            return Const(None)  # undeclared side-channel key never set
        v = Sym(f"{n.name}.{key}", origin=("slot", n, key))
        n.args[key] = v
        return v

    def node_attr(self, n: NodeV, a: str, site) -> Val:
        if a == "args":
            return ArgsView(n)
        if a == "key":
            return Const(n.cls.lower()) if n.cls else Sym(f"{n.name}.key", truthy=True, typ="str")
        if a in ("this", "expression", "expressions", "unit", "to"):
            v = self.node_arg(n, a)
            if a == "expressions" and isinstance(v, Const) and v.v is None:
                return Lst([])
            return v
        if a == "name" and n.cls == "Table" and not n.open and "this" not in n.args:
            # sqlglot's Table.name is `self.this.name`: a table expression without `this` (DROP SCHEMA s) raises here
            self.effect("none-deref", "name", site)
            raise _Raise(ExcV("builtins.AttributeError", {}, [Const("'NoneType' object has no attribute 'name'")]))
        if a in ("name", "db", "catalog", "alias", "alias_or_name", "table") and not (a == "table" and n.cls not in (None, "Column")):
            slot = {"name": "this", "db": "db", "catalog": "catalog", "alias": "alias", "alias_or_name": "this", "table": "table"}[a]
            inner = self.node_arg(n, slot)
            return self.text_of(inner, n, a)
        if a == "parent":
            if n.parent is not None:
                return n.parent
            if not n.open:
                return Const(None)
            p = NodeV(None, name=f"{n.name}.parent")
            n.parent = p
            return p
        if a in ("is_string", "quoted", "is_int", "is_number", "is_star"):
            v = n.args.get(a if a != "quoted" else "quoted")
            if a in n.args:
                return n.args[a]
            if not n.open:
                return Const(False)
            s = Sym(f"{n.name}.{a}", typ="bool")
            n.args[a] = s
            return s
        if a in ("left", "right"):
            return self.node_arg(n, "this" if a == "left" else "expression")
        return Bound(n, a)

    def text_of(self, inner, n: NodeV, a: str) -> Val:
        if isinstance(inner, Const):
            return inner if isinstance(inner.v, str) else Const("")
        if isinstance(inner, NodeV):
            t = self.node_arg(inner, "this")
            if isinstance(t, NodeV):
                return self.text_of(t, inner, "name")
            if isinstance(t, (Const, Str)):
                return t
            if isinstance(t, Sym):
                return t
        if isinstance(inner, Sym):
            return Sym(f"{n.name}.{a}", origin=("text", inner), typ="str", truthy=inner.truthy)
        return Sym(f"{n.name}.{a}", typ="str")

    def node_isinstance(self, n: NodeV, cls: str) -> bool:
        sg = self.prog.sqlglot
        if cls == "Expression":
            return True
        if n.cls is not None:
            return sg.issub(n.cls, cls) if n.cls in sg.classes else n.cls == cls
        for nc in n.notcls:
            if sg.issub(cls, nc):
                return False
        if self.decide(f"isinstance({n.name}, exp.{cls})"):
            n.cls = cls  # refinement (the most specific class we learn first)
            return True
        n.notcls.add(cls)
        return False

    # ------------------------------------------------------------------ calls
    def ev_Call(self, e, env):
        f = self.ev(e.func, env)
        args = self._elts(e.args, env)
        kwargs = {}
        for k in e.keywords:
            if k.arg is None:
                v = self.ev(k.value, env)
                if isinstance(v, Dct):
                    kwargs.update({kk: vv for kk, vv in v.items.items() if isinstance(kk, str)})
                else:
                    kwargs["**"] = v
            else:
                kwargs[k.arg] = self.ev(k.value, env)
        return self.call(f, args, kwargs, e, env)

    def _assumed_test(self, test, env):
        """Evaluate the test of an `assert` that is taken as an assumption: unknowns first met inside it do not fork the path;
        they take the first assignment under which the test holds (the assertion fails only if none does)."""
        val0, n_eff = dict(self.val), len(self.effects)
        preset: list[bool] = []
        v = None
        for _ in range(16):
            self.val = dict(val0)
            del self.effects[n_eff:]
            self._tentative, self._tent_tags = preset, []
            try:
                v = self.ev(test, env)
            finally:
                k = len(self._tent_tags)
                self._tentative, self._tent_tags = None, []
            if not (isinstance(v, Const) and not v.v):
                return v
            # next assignment of the k unknowns met (binary counting, True first)
            cur = (preset + [True] * k)[:k]
            while cur and cur[-1] is False:
                cur.pop()
            if not cur:
                return v
            cur[-1] = False
            preset = cur
        return v

    def force(self, v):
        """run a pending generator expression (once): whoever receives or iterates it consumes it"""
        if isinstance(v, Gen):
            if v.result is None:
                if v.call is not None:
                    fn_, a_, k_, site_ = v.call
                    run = Func(fn_.mod, fn_.qual, fn_.node, self_val=fn_.self_val, closure=fn_.closure)
                    run._consuming = True
                    run.defaults = getattr(fn_, "defaults", None)
                    self._yield_collect.append([])
                    try:
                        self.call_func(run, a_, k_, site_)
                    finally:
                        got = self._yield_collect.pop()
                    v.result = Lst(got)
                else:
                    v.result = self.comprehension(v.node, v.env, "gen")
            return v.result
        return v

    def call(self, f, args, kwargs, site, env=None) -> Val:
        if any(isinstance(a, Gen) for a in args) or any(isinstance(a, Gen) for a in kwargs.values()):
            args = [self.force(a) for a in args]
            kwargs = {k: self.force(a) for k, a in kwargs.items()}
        if isinstance(f, Func):
            return self.call_func(f, args, kwargs, site)
        if isinstance(f, Lam):
            sub = Env(f.mod, "lambda", f.env)
            kwargs = self._with_captured(f, f.node.args, args, kwargs)
            self.bind(f.node.args, args, kwargs, sub, None)
            return self.ev(f.node.body, sub)
        if isinstance(f, ClsRef):
            return self.construct(f, args, kwargs, site)
        if isinstance(f, Part):
            if getattr(f, "memo_deco", None) and args:
                m = Part(args[0], [], {})
                m.memo = f.memo_deco
                return m
            if getattr(f, "memo", None):
                self.effect("memo-call", f.memo, list(args), site)
            return self.call(f.func, [*f.args, *args], {**f.kwargs, **kwargs}, site, env)
        if isinstance(f, Bound):
            return self.call_method(f.recv, f.name, args, kwargs, site, env)
        if isinstance(f, Ext):
            return self.call_ext(f.dotted, args, kwargs, site, env)
        if isinstance(f, Sym) and f.origin and f.origin[0] == "attr" and len(f.origin) == 3:
            return self.call_method(f.origin[1], f.origin[2], args, kwargs, site, env)
        if isinstance(f, Sym):
            self.effect("call", f.tag, args, kwargs, site)
            return Sym(f"{f.tag}()@{self.siteid(site)}", origin=("call", f.tag, args, kwargs))
        return Sym(f"call({tagof(f)})@{self.siteid(site)}", origin=("call", tagof(f), args, kwargs))

    def bind(self, a: ast.arguments, args, kwargs, env: Env, self_val) -> None:
        params = [p.arg for p in a.posonlyargs + a.args]
        pos = list(args)
        if self_val is not None:
            pos = [self_val, *pos]
        defaults = dict(zip(params[len(params) - len(a.defaults):], a.defaults))
        kw = dict(kwargs)
        for i, p in enumerate(params):
            if i < len(pos):
                env.vars[p] = pos[i]
            elif p in kw:
                env.vars[p] = kw.pop(p)
            elif p in defaults:
                env.vars[p] = self.ev(defaults[p], Env(env.mod))
            else:
                env.vars[p] = Sym(f"param:{p}")
        if a.vararg:
            env.vars[a.vararg.arg] = Tup(pos[len(params):])
        for p, d in zip(a.kwonlyargs, a.kw_defaults):
            if p.arg in kw:
                env.vars[p.arg] = kw.pop(p.arg)
            elif d is not None:
                env.vars[p.arg] = self.ev(d, Env(env.mod))
            else:
                env.vars[p.arg] = Sym(f"param:{p.arg}")
        if a.kwarg:
            env.vars[a.kwarg.arg] = Dct({k: v for k, v in kw.items() if k != "**"})

    def call_func(self, f: Func, args, kwargs, site) -> Val:
        key = f"{f.mod}.{f.qual}"
        icpt = getattr(self.hooks, "intercept", None)
        if icpt is not None:
            try:
                r = icpt(self, key, args, kwargs, site, f)
            except TypeError:
                r = icpt(self, key, args, kwargs, site)
            if r is not NotImplemented:
                return r
        # functools.lru_cache / cache: one result per argument tuple within a run
        memo_key = None
        if any("lru_cache" in norm(d) or norm(d).endswith("cache") or norm(d).endswith("cache()") for d in getattr(f.node, "decorator_list", [])):
            memo_key = (key, tuple(tagof(a) for a in args), tuple(sorted((k, tagof(v)) for k, v in kwargs.items())))
            if not hasattr(self, "_memo"):
                self._memo = {}
            if memo_key in self._memo:
                self.effect("cache-hit", key, site)
                return self._memo[memo_key]
        if self.depth >= self.MAX_DEPTH or self.callstack.count(key) >= 4:
            self.effect("call", key, args, kwargs, site)
            return Sym(f"{key}()@{self.siteid(site)}", origin=("call", key, args, kwargs))
        node = f.node
        if any(isinstance(n, (ast.Yield, ast.YieldFrom)) for n in walk_no_nested(node)) and not getattr(self.hooks, "run_generators", False) \
                and not getattr(f, "_consuming", False):
            if not node.decorator_list and not isinstance(node, ast.AsyncFunctionDef):
                # a plain generator function: nothing runs until the generator is consumed
                return Gen(None, None, call=(f, list(args), dict(kwargs), site))
            self.effect("call", key, args, kwargs, site)
            return Sym(f"{key}()@{self.siteid(site)}", origin=("call", key, args, kwargs))
        env = Env(f.mod, f.qual, f.closure)
        if site is None and node.args.kwonlyargs and not node.args.vararg:
            # a call made by a rule's harness (no call site): arguments it passes by position go to keyword-only parameters in
            # declaration order when the signature has been tightened (`def _execute(self, transformed, *, params=None)`)
            n_pos = len(node.args.posonlyargs) + len(node.args.args) - (1 if f.self_val is not None else 0)
            if len(args) > n_pos:
                free = [k.arg for k in node.args.kwonlyargs if k.arg not in kwargs]
                kwargs = {**kwargs, **dict(zip(free, args[n_pos:]))}
                args = list(args[:n_pos])
        if getattr(f, "defaults", None) and f.self_val is None:
            kwargs = self._with_captured(f, node.args, args, kwargs)
        self.bind(node.args, args, kwargs, env, f.self_val)
        self.depth += 1
        self.callstack.append(key)
        self.envstack.append(env)
        self.effect("enter", key, site)
        saved_loop = self._loopctr
        self._loopctr = [*saved_loop, hash(self.siteid(site)) % 997] if site is not None and saved_loop else saved_loop
        try:
            self.block(node.body, env)
            return Const(None)
        except _Return as r:
            if memo_key is not None:
                self._memo[memo_key] = r.v
            return r.v
        finally:
            self._loopctr = saved_loop
            self.callstack.pop()
            self.envstack.pop()
            self.depth -= 1
            self.effect("leave", key)

    def construct(self, c: ClsRef, args, kwargs, site) -> Val:
        d = c.dotted
        if d.startswith("exp."):
            cls = d[4:]
            a = dict(kwargs)
            a.pop("**", None)
            at = self.prog.sqlglot.arg_types(cls) or []
            for i, v in enumerate(args):
                if i < len(at):
                    a[at[i]] = v
            n = NodeV(cls, a, name=f"new:{cls}@{self.siteid(site)}", open=False)
            n.fresh = True
            for v in a.values():
                if isinstance(v, NodeV) and v.parent is None:
                    v.parent = n
            self.effect("construct", cls, a, site)
            return n
        if d.startswith(PKG + "."):
            _, mod, cls = d.split(".")
            cdef = self.prog.modules[mod].classes[cls]
            if any((self.prog.dotted(self.prog.modules[mod], b) or "").startswith("sqlglot.exp.") for b in cdef.bases):
                # a package-defined sqlglot expression class (e.g. SHA256(exp.Func))
                a = {k: v for k, v in kwargs.items() if k != "**"}
                n = NodeV(cls, a, name=f"new:{cls}@{self.siteid(site)}", open=False)
                n.fresh = True
                self.effect("construct", cls, a, site)
                return n
            o = Obj(f"{cls}@{self.siteid(site)}", cls=(mod, cls))
            is_nt = any(norm(b).split(".")[-1] == "NamedTuple" for b in cdef.bases)  # typing.NamedTuple: fields in annotation order
            is_dc = is_nt or any("dataclass" in norm(dd) for dd in cdef.decorator_list)
            is_exc = any(isinstance(b, ast.Name) and b.id in ("Exception", "BaseException") for b in cdef.bases)
            if is_dc and not is_exc and not self.find_method(mod, cls, "__init__"):
                # a dataclass: the generated __init__ stores the arguments / per-instance defaults of the annotated fields
                self.effect("new", d, args, kwargs, site, o)
                menv = self.modenv(mod)
                pos = list(args)
                for st_ in cdef.body:
                    if not (isinstance(st_, ast.AnnAssign) and isinstance(st_.target, ast.Name)) or "ClassVar" in norm(st_.annotation):
                        continue
                    fname, val, init_ok = st_.target.id, None, True
                    dv = st_.value
                    if isinstance(dv, ast.Call) and norm(dv.func).split(".")[-1] == "field":
                        fkw = {k.arg: k.value for k in dv.keywords if k.arg}
                        init_ok = not (isinstance(fkw.get("init"), ast.Constant) and fkw["init"].value is False)
                        if "default_factory" in fkw:
                            val = self.call(self.ev(fkw["default_factory"], menv), [], {}, dv, menv)
                        elif "default" in fkw:
                            val = self.ev(fkw["default"], menv)
                    elif dv is not None:
                        val = self.ev(dv, menv)
                    if init_ok and fname in kwargs:
                        val = kwargs[fname]
                    elif init_ok and pos:
                        val = pos.pop(0)
                    if val is None:
                        val = Sym(f"{cls}.{fname}")
                    o.attrs[fname] = val
                    self.effect("store", o, fname, val, st_)
                if is_nt:
                    o.tuple_fields = [st_.target.id for st_ in cdef.body if isinstance(st_, ast.AnnAssign) and isinstance(st_.target, ast.Name)]
                post = self.find_method(mod, cls, "__post_init__")
                if post is not None:
                    self.call_func(Func(post[0], post[1], post[2], self_val=o), [], {}, site)
                return o
            if (is_dc or is_exc) and not self.find_method(mod, cls, "__init__"):
                fields = [s.target.id for s in cdef.body if isinstance(s, ast.AnnAssign) and isinstance(s.target, ast.Name)]
                kw = dict(kwargs)
                for i, v in enumerate(args):
                    if i < len(fields):
                        kw[fields[i]] = v
                ex = ExcV(d, kw, args)
                return ex
            init = self.find_method(mod, cls, "__init__")
            self.effect("new", d, args, kwargs, site, o)
            if init is not None:
                self.call_func(Func(init[0], init[1], init[2], self_val=o), args, kwargs, site)
            return o
        if d.startswith(("duckdb.", "snowflake.", "builtins.")) or d[d.rfind(".") + 1:].endswith(("Error", "Exception")):
            return ExcV(d, kwargs, args)
        return Sym(f"{d}()@{self.siteid(site)}", origin=("call", d, args, kwargs))

    def _enum_member(self, mod: str, cls: str, name: str):
        """member of a package-defined enum class: an EnumV (identity by name), or a FlagV for enum.Flag / IntFlag classes"""
        cdef = self.prog.modules[mod].classes.get(cls) if mod in self.prog.modules else None
        if cdef is None:
            return None
        kinds = {norm(b).split(".")[-1] for b in cdef.bases}
        if not kinds & {"Enum", "IntEnum", "StrEnum", "Flag", "IntFlag"}:
            return None
        members = []
        for st in cdef.body:
            tgt = st.targets[0] if isinstance(st, ast.Assign) and len(st.targets) == 1 else None
            if isinstance(tgt, ast.Name) and not tgt.id.startswith("_"):
                members.append((tgt.id, st.value))
        if name not in {m_ for m_, _ in members}:
            return None
        if kinds & {"Flag", "IntFlag"}:
            zero = {m_ for m_, v_ in members if isinstance(v_, ast.Constant) and v_.value == 0}
            universe = [m_ for m_, v_ in members if m_ not in zero and not isinstance(v_, ast.BinOp)]
            val = dict(members)[name]
            if name in zero:
                return FlagV(cls, (), universe)
            if isinstance(val, ast.BinOp):  # an alias member: A | B
                names = {n_.id if isinstance(n_, ast.Name) else n_.attr for n_ in ast.walk(val) if isinstance(n_, (ast.Name, ast.Attribute))}
                return FlagV(cls, names & set(universe), universe)
            return FlagV(cls, (name,), universe)
        ev_ = EnumV(f"{cls}.{name}", self.ev(dict(members)[name], self.modenv(mod)))
        if kinds & {"IntEnum", "StrEnum", "str", "int"} and isinstance(ev_.value_, Const):
            ev_.mixin = True
        return ev_

    def _enum_members(self, mod: str, cls: str):
        cdef = self.prog.modules[mod].classes.get(cls) if mod in self.prog.modules else None
        names = [st.targets[0].id for st in (cdef.body if cdef is not None else [])
                 if isinstance(st, ast.Assign) and len(st.targets) == 1 and isinstance(st.targets[0], ast.Name) and not st.targets[0].id.startswith("_")]
        out = [self._enum_member(mod, cls, n_) for n_ in names]
        return out if out and all(x is not None for x in out) else None

    def class_attr(self, mod: str, cls: str, name: str):
        """value of a class-level assignment `name = ...` / `name: T = ...` (evaluated once per run in the module's environment)"""
        cache = self.__dict__.setdefault("_class_attrs", {})
        key = (mod, cls, name)
        if key not in cache:
            cache[key] = None
            cdef = self.prog.modules[mod].classes.get(cls) if mod in self.prog.modules else None
            for st in (cdef.body if cdef is not None else []):
                tgt = st.targets[0] if isinstance(st, ast.Assign) and len(st.targets) == 1 else st.target if isinstance(st, ast.AnnAssign) else None
                if isinstance(tgt, ast.Name) and tgt.id == name and getattr(st, "value", None) is not None:
                    cache[key] = self.ev(st.value, self._class_env(mod, cls, cdef))
        return cache[key]

    def _class_env(self, mod: str, cls: str, cdef) -> Env:
        """the namespace a class body is evaluated in: the module's, plus the functions defined in the body (plain functions there,
        not yet methods) and the class-level names assigned before"""
        envs = self.__dict__.setdefault("_class_envs", {})
        if (mod, cls) not in envs:
            env = Env(mod, cls, self.modenv(mod))
            envs[(mod, cls)] = env
            for st in cdef.body:
                if isinstance(st, (ast.FunctionDef, ast.AsyncFunctionDef)):
                    env.vars[st.name] = Func(mod, f"{cls}.{st.name}", st, self_val=None)
            for st in cdef.body:
                tgt = st.targets[0] if isinstance(st, ast.Assign) and len(st.targets) == 1 else st.target if isinstance(st, ast.AnnAssign) else None
                if isinstance(tgt, ast.Name) and getattr(st, "value", None) is not None and tgt.id not in env.vars:
                    try:
                        env.vars[tgt.id] = self.ev(st.value, env)
                    except (_Raise, AnalysisError):
                        pass
        return envs[(mod, cls)]

    def _lazy_init(self, base: Obj) -> None:
        mod, cls = base.cls
        init = self.find_method(mod, cls, "__init__")
        if init is None:
            return
        fdef = init[2]
        params = [p.arg for p in fdef.args.posonlyargs + fdef.args.args][1:]
        given = {}
        for n in ast.walk(fdef):  # self.X = <param>  with X already known on the hand-built object
            if isinstance(n, ast.Assign) and isinstance(n.value, ast.Name) and n.value.id in params:
                for t in n.targets:
                    if isinstance(t, ast.Attribute) and isinstance(t.value, ast.Name) and t.value.id == "self" and t.attr in base.attrs:
                        given[n.value.id] = base.attrs[t.attr]
        shadow = Obj(base.name, cls=base.cls, kind=base.kind)
        shadow.lazy_done = True
        # the constructor runs in a sandbox interpreter with neutral hooks and its own decisions (first path): neither the
        # rule's environment model (recorded engine calls ...) nor this run's decision vector and effects see it
        sub = Interp(self.prog, Hooks(), [])
        sub._modenv = self._modenv
        try:
            sub.call_func(Func(init[0], init[1], fdef, self_val=shadow), [given.get(p, Sym(f"init:{p}")) for p in params], {}, None)
        except (_Raise, AnalysisError):
            pass

        def rebind(v):
            if isinstance(v, Bound) and v.recv is shadow:
                return Bound(base, v.name)
            if isinstance(v, Func) and v.self_val is shadow:
                return Func(v.mod, v.qual, v.node, self_val=base)
            if isinstance(v, Part):
                p = Part(rebind(v.func), [rebind(x) for x in v.args], {k: rebind(x) for k, x in v.kwargs.items()})
                for k in ("memo", "memo_deco"):
                    if hasattr(v, k):
                        setattr(p, k, getattr(v, k))
                return p
            return v

        for k, v in shadow.attrs.items():
            if k not in base.attrs:
                base.attrs[k] = rebind(v)

    def call_ext(self, d: str, args, kwargs, site, env) -> Val:
        r = self.hooks.external(self, d, args, kwargs, site)
        if r is not NotImplemented:
            return r
        b = d[len("builtins."):] if d.startswith("builtins.") else None
        a0 = args[0] if args else None
        if d in ("sqlglot.exp.Literal.string", "sqlglot.exp.Literal.number"):
            if isinstance(a0, Const) and not isinstance(a0.v, str):
                a0 = Const(str(a0.v))  # sqlglot stores literal text
            return self.construct(ClsRef("exp.Literal"), [], {"this": a0, "is_string": Const(d.endswith("string"))}, site)
        if d == "sqlglot.exp.to_identifier":
            return self._to_identifier(a0, kwargs.get("quoted", args[1] if len(args) > 1 else None))
        if d == "sqlglot.exp.table_" and args:
            # table_(table, db=None, catalog=None, quoted=None, alias=None): Table(this, db, catalog[, alias=TableAlias])
            pos = dict(zip(("table", "db", "catalog", "quoted", "alias"), args))
            pos.update(kwargs)
            q = pos.get("quoted")
            slots = {"this": self._to_identifier(pos["table"], q)}
            for k in ("db", "catalog"):
                v = self._to_identifier(pos.get(k), q)
                if not (isinstance(v, Const) and v.v is None):
                    slots[k] = v
            al = pos.get("alias")
            if al is not None and self.truth(al):
                slots["alias"] = self.construct(ClsRef("exp.TableAlias"), [], {"this": self._to_identifier(al, None)}, site)
            return self.construct(ClsRef("exp.Table"), [], slots, site)
        if d in ("typing.cast", "builtins.cast"):
            return args[1]
        if d == "dataclasses.replace" and isinstance(a0, Obj):
            c = Obj(a0.name, cls=a0.cls, kind=a0.kind, **a0.attrs)  # a copy of the record with the named fields changed
            for k_ in ("tuple_fields", "lazy_done"):
                if hasattr(a0, k_):
                    setattr(c, k_, getattr(a0, k_))
            c.attrs.update(kwargs)
            return c
        if b == "isinstance":
            return Const(self.isinstance(args[0], args[1]))
        if b == "str":
            if a0 is None:
                return Const("")
            p = self.to_strpart(a0)
            return Const(p) if isinstance(p, str) else p
        if b == "len":
            if isinstance(a0, ArgsView) and not a0.node.open:
                return Const(len([k for k, v in a0.node.args.items() if ":" not in k and not (isinstance(v, Const) and v.v is None)]))
            if isinstance(a0, (Tup, Lst)) and not getattr(a0, "open", False):
                return Const(len(a0.items))
            if isinstance(a0, Const) and isinstance(a0.v, (str, tuple, list)):
                return Const(len(a0.v))
            if isinstance(a0, Obj) and isinstance(a0.attrs.get("__len__"), Const):
                return a0.attrs["__len__"]
            return Sym(f"len({tagof(a0)})", origin=("len", a0), typ="int")
        if b == "range" and args and all(isinstance(x, Const) and isinstance(x.v, int) for x in args) and len(range(*[x.v for x in args])) <= 64:
            return Lst([Const(i) for i in range(*[x.v for x in args])])
        if b in ("min", "max") and len(args) >= 2 and all(isinstance(x, Const) and isinstance(x.v, (int, float)) for x in args):
            return Const((min if b == "min" else max)(x.v for x in args))
        if d in ("math.ceil", "math.floor") and isinstance(a0, Const) and isinstance(a0.v, (int, float)):
            import math
            return Const(math.ceil(a0.v) if d == "math.ceil" else math.floor(a0.v))
        if b == "sorted" and isinstance(a0, (Tup, Lst)) and not getattr(a0, "open", False) and ("key" in kwargs or "reverse" in kwargs):
            keyf = kwargs.get("key")
            keys = [self.call(keyf, [x], {}, site, env) if keyf is not None else x for x in a0.items]
            if all(isinstance(k, Const) for k in keys):
                try:
                    order = sorted(range(len(keys)), key=lambda i: keys[i].v, reverse=bool(isinstance(kwargs.get("reverse"), Const) and kwargs["reverse"].v))
                    return Lst([a0.items[i] for i in order])
                except TypeError:
                    pass
            return Sym(f"sorted({tagof(a0)})", origin=("call", "sorted", args, kwargs))
        if b in ("tuple", "list", "set", "sorted", "iter", "frozenset"):
            if a0 is None:
                return Lst([])
            if isinstance(a0, Dct) and not getattr(a0, "shared_name", None):
                keys = [a0.keyvals.get(k, Const(k)) for k in a0.items]  # iterating a dict gives its keys
                return Lst(keys) if b != "tuple" else Tup(keys)
            if isinstance(a0, OneShot):
                if b == "iter":
                    return a0  # iter(iterator) is the iterator itself
                got = self.iter_values(a0, site)  # list(it) / tuple(it) / sorted(it) consume it
                return Lst(got) if b != "tuple" else Tup(got)
            if isinstance(a0, (Tup, Lst)):
                if b == "iter" and not getattr(a0, "open", False):
                    return OneShot(list(a0.items))  # an iterator over the sequence's items: consumed as it is read
                return Lst(a0.items, open=getattr(a0, "open", False)) if b != "tuple" else Tup(a0.items)
            if isinstance(a0, Seq):
                return Seq(a0.elem, b, src=a0.src)
            return Sym(f"{b}({tagof(a0)})", origin=("call", b, args, kwargs))
        if b == "dict":
            return Dct(kwargs) if not args else (a0 if isinstance(a0, Dct) else Sym(f"dict({tagof(a0)})"))
        if b == "format" and a0 is not None:
            spec = args[1].v if len(args) > 1 and isinstance(args[1], Const) else ""
            if not spec:
                p_ = self.to_strpart(a0)
                return Const(p_) if isinstance(p_, str) else p_
            if isinstance(a0, Const):
                try:
                    return Const(format(a0.v, spec))
                except (TypeError, ValueError):
                    pass
            return Sym(f"format({tagof(a0)},{spec!r})", origin=("format", a0, spec), typ="str", truthy=True)  # == f"{a0:{spec}}"
        if b == "enumerate":
            start = kwargs.get("start", args[1] if len(args) > 1 else None)
            if isinstance(start, Const) and isinstance(start.v, int) and start.v != 0:
                inner = self.iter_values(a0, site)
                if inner is not None:
                    return Lst([Tup([Const(start.v + i), x]) for i, x in enumerate(inner)])
            return Sym(f"enumerate({tagof(a0)})", origin=("enumerate", a0))
        if b in ("any", "all"):
            if isinstance(a0, (Tup, Lst)) and not getattr(a0, "open", False):
                ts = [self.truth(x) for x in a0.items]
                return Const(any(ts) if b == "any" else all(ts))
            return Sym(f"{b}({tagof(a0)})", origin=("call", b, args, kwargs), typ="bool")
        if b == "print":
            return Const(None)
        if b == "map" and len(args) == 2 and (items_ := self.iter_values(self.force(args[1]), site)) is not None:
            return Lst([self.call(args[0], [x], {}, site, env) for x in items_])
        if b == "filter" and len(args) == 2 and (items_ := self.iter_values(self.force(args[1]), site)) is not None:
            keep = args[0]
            if isinstance(keep, Const) and keep.v is None:
                return Lst([x for x in items_ if self.truth(x)])
            return Lst([x for x in items_ if self.truth(self.call(keep, [x], {}, site, env))])
        if d == "itertools.starmap" and len(args) == 2 and (items_ := self.iter_values(self.force(args[1]), site)) is not None \
                and all(isinstance(x, (Tup, Lst)) for x in items_):
            return Lst([self.call(args[0], list(x.items), {}, site, env) for x in items_])
        if d in ("operator.attrgetter", "operator.itemgetter") and len(args) == 1 and isinstance(a0, Const):
            return Ext(f"{d}:{a0.v!r}")  # a callable that reads that attribute / item of its argument
        if d.startswith("operator.attrgetter:") and len(args) == 1:
            return self.getattr(a0, ast.literal_eval(d.split(":", 1)[1]), site)
        if d.startswith("operator.itemgetter:") and len(args) == 1:
            k_ = ast.literal_eval(d.split(":", 1)[1])
            if isinstance(a0, (Tup, Lst)) and isinstance(k_, int) and -len(a0.items) <= k_ < len(a0.items):
                return a0.items[k_]
            if isinstance(a0, Dct) and k_ in a0.items:
                return a0.items[k_]
        if b == "getattr" and len(args) == 2 and not kwargs and isinstance(args[1], Const) and isinstance(args[1].v, str) \
                and isinstance(a0, (Obj, NodeV)):
            return self.getattr(a0, args[1].v, site)  # getattr(x, "name") is x.name
        if b == "type" and len(args) == 1:
            if isinstance(a0, NodeV) and a0.cls:
                return ClsRef(f"exp.{a0.cls}")  # the exact class of a node of known class
            if isinstance(a0, Obj) and a0.cls:
                return ClsRef(f"{PKG}.{a0.cls[0]}.{a0.cls[1]}")
            if isinstance(a0, Const):
                return ClsRef("builtins." + type(a0.v).__name__)
        if b == "zip" and args and "strict" not in {k for k, v in kwargs.items() if isinstance(v, Const) and v.v}:
            cols = [self.iter_values(self.force(x), site) for x in args]
            if all(c is not None for c in cols):
                return Lst([Tup(list(row)) for row in zip(*cols)])  # pairs up to the shortest operand
        if b in ("int", "min", "max", "bool", "float", "repr", "map", "zip", "range", "getattr", "type", "id", "hash"):
            if b == "bool" and a0 is not None:
                return Const(self.truth(a0))
            if b == "int" and isinstance(a0, Const):
                try:
                    return Const(int(a0.v))
                except (TypeError, ValueError):
                    pass
            return Sym(f"{b}({','.join(tagof(x) for x in args)})", origin=("call", b, args, kwargs))
        if d == "itertools.chain":
            parts_ = [self.iter_values(self.force(x), site) for x in args]
            if all(p_ is not None for p_ in parts_):
                return Lst([y for p_ in parts_ for y in p_])  # consumed once, in order
        if d == "functools.partial" and args:
            return Part(args[0], args[1:], kwargs)
        if d == "re.compile" and args:
            self.effect("call", d, args, kwargs, site)
            return Obj(f"re.compile({tagof(args[0])[:40]})@{self.siteid(site)}", kind="regex", pattern=args[0],
                       flags=kwargs.get("flags", args[1] if len(args) > 1 else None))
        if d == "types.MappingProxyType" and args and isinstance(args[0], Dct):
            return args[0]  # a read-only view: same lookups, nobody can write through it
        if d in ("builtins.frozenset", "frozenset") and args and isinstance(args[0], (Lst, Tup)):
            return Tup(list(args[0].items))
        if d in ("functools.lru_cache", "functools.cache"):
            # memoisation keyed by == / hash of the arguments (and by their types only when typed=True)
            typed = isinstance(kwargs.get("typed"), Const) and kwargs["typed"].v is True
            if args and isinstance(args[0], (Func, Lam, Bound, Part)) and not kwargs:
                m = Part(args[0], [], {})
                m.memo = "untyped"
                return m
            deco = Part(Ext("functools.lru_cache#decorate"), [], {})
            deco.memo_deco = "typed" if typed else "untyped"
            return deco
        if b == "next" and args:
            src = args[0]
            if isinstance(src, OneShot):
                # an iterator object: next() hands out its items one by one, then the default / StopIteration
                if src.items and not src.consumed:
                    return src.items.pop(0)
                src.consumed = True
                if len(args) > 1:
                    return args[1]
                raise _Raise(ExcV("builtins.StopIteration"))
            if isinstance(src, (Lst, Tup)) and not getattr(src, "open", False):
                if src.items:
                    return src.items[0]
                if len(args) > 1:
                    return args[1]
                exc = ExcV("builtins.StopIteration")
                raise _Raise(exc)
            return Sym(f"next({tagof(src)})", origin=("call", "next", args, kwargs))
        if d == "string.Template":
            if isinstance(a0, Str) and all(isinstance(p_, str) for p_ in a0.parts):
                a0 = Const("".join(a0.parts))  # a template text assembled from constant pieces
            return Tpl(a0)
        if d in ("os.fspath", "os.fsdecode") and a0 is not None and ((isinstance(a0, Sym) and a0.typ in ("path", "str")) or isinstance(a0, (Str, Const))):
            return a0  # the text of a path object
        if d in ("os.path.join", "posixpath.join") and args and all(isinstance(x, (Str, Const)) or (isinstance(x, Sym) and x.typ in ("path", "str")) for x in args):
            out = args[0]
            for a_ in args[1:]:
                out = Str([out, "/", self.to_strpart(a_)])
            return out
        if d in ("pathlib.Path", "pathlib.PurePath", "pathlib.PosixPath", "pathlib.PurePosixPath"):
            if isinstance(a0, Sym):
                return Sym(f"Path({a0.tag})", truthy=True, origin=("path", a0), typ="path")
            return Sym(f"Path({tagof(a0)})", truthy=True, typ="path")
        if d in ("sqlglot.parse_one", "sqlglot.parse_one", "sqlglot.parse"):
            return self.parse_one(d, args, kwargs, site)
        if d == "os.environ.get":
            return Sym(f"env:{tagof(a0)}", origin=("environ", a0), typ="str")
        self.effect("call", d, args, kwargs, site)
        return Sym(f"{d}()@{self.siteid(site)}", origin=("call", d, args, kwargs), typ=_EXT_RETURNS.get(d))

    def _transform_tree(self, n: NodeV, fn, extra, kw, site, env, depth: int) -> Val:
        new = self.call(fn, [n, *extra], kw, site, env)
        if new is not n or n.open or depth > 8:
            return new
        for k, v in list(n.args.items()):
            if isinstance(v, NodeV) and not v.open:
                c = self._transform_tree(v, fn, extra, kw, site, env, depth + 1)
                if c is not v:
                    n.args[k] = c
                    if isinstance(c, NodeV):
                        c.parent = n
            elif isinstance(v, (Lst, Tup)) and not getattr(v, "open", False):
                for i, x in enumerate(list(v.items)):
                    if isinstance(x, NodeV) and not x.open:
                        c = self._transform_tree(x, fn, extra, kw, site, env, depth + 1)
                        if c is not x:
                            v.items[i] = c
                            if isinstance(c, NodeV):
                                c.parent = n
        return n

    def _to_identifier(self, v, quoted) -> Val:
        """sqlglot.exp.to_identifier: None stays None, an Identifier is passed through, text becomes an Identifier that is quoted
        when asked for or when the text is not a safe bare name."""
        if v is None or (isinstance(v, Const) and (v.v is None or v.v == "")):
            return Const(None)
        if isinstance(v, NodeV):
            return v
        if isinstance(quoted, Const) and quoted.v:
            q = Const(True)
        elif isinstance(v, Const) and isinstance(v.v, str):
            q = Const(not _re.match(r"^[_a-zA-Z][\w]*$", v.v))
        else:
            q = Sym(f"unsafe_name({tagof(v)})", typ="bool")
        return NodeV("Identifier", {"this": v, "quoted": q}, name=f"id:{tagof(v)}", open=False)

    def parse_one(self, d, args, kwargs, site) -> Val:
        src = args[0] if args else Const("")
        text = src.v if isinstance(src, Const) and isinstance(src.v, str) else src.text() if isinstance(src, Str) else ""
        kw = text.strip().split(None, 1)[0].upper() if text.strip() else ""
        cls = {"SELECT": "Select", "INSERT": "Insert", "UPDATE": "Update", "DELETE": "Delete", "CREATE": "Create",
               "DESCRIBE": "Describe", "WITH": "Select"}.get(kw)
        n = NodeV(cls, {}, name=f"parsed@{self.siteid(site)}", open=True)
        if isinstance(src, (Const, Str)):
            # fakesnow's own template: build a closed descriptor from the text (tables, select list)
            try:
                self._describe_parsed(n, src)
            except Exception:  # noqa: BLE001 - keep the open node
                n.open = True
        n.fresh = True
        n.parsed_from = src  # type: ignore[attr-defined]
        n.parsed_read = kwargs.get("read")  # type: ignore[attr-defined]
        self.effect("parse", d, src, kwargs, site, n)
        return n

    def _describe_parsed(self, n: NodeV, src) -> None:
        from . import sqlt

        stmts = sqlt.split_statements(sqlt.tokenize(src))
        if len(stmts) != 1:
            return
        st = stmts[0]
        c = sqlt.classify(st)

        def mk_ident(tok):
            parts = tok.parts
            v = Const(parts[0]) if len(parts) == 1 and isinstance(parts[0], str) else (
                parts[0] if len(parts) == 1 else Str(parts))
            return NodeV("Identifier", {"this": v, "quoted": Const(tok.kind == "qid")}, name=f"id:{tok.text}", open=False)

        def mk_table(name):
            a = {"this": mk_ident(name[-1])}
            if len(name) > 1:
                a["db"] = mk_ident(name[-2])
            if len(name) > 2:
                a["catalog"] = mk_ident(name[-3])
            t = NodeV("Table", a, name="tbl:" + ".".join(x.text for x in name), open=False)
            return t

        if c["kind"] == "select":
            n.open = False
            tabs = c.get("tables") or []
            if tabs:
                t = mk_table(tabs[0])
                fr = NodeV("From", {"this": t}, name="from", open=False)
                t.parent = fr
                fr.parent = n
                n.args["from"] = fr
            aliases = sqlt.select_aliases(st)
            n.args["expressions"] = Lst([
                NodeV("Alias", {"alias": NodeV("Identifier", {"this": Const(a.strip("'\"")), "quoted": Const(False)},
                                               name=f"id:{a}", open=False)}, name=f"sel:{a}", open=False)
                for a in aliases])
        elif c["kind"] == "describe":
            n.open = False
            n.args["this"] = NodeV("Select", {}, name="described", open=False)
        elif c["kind"] in ("insert", "update", "delete", "create") and (c.get("tables") or c.get("name")):
            n.open = False
            name = (c.get("tables") or [c.get("name")])[0]
            t = mk_table(name)
            t.parent = n
            n.args["this"] = t
            if c["kind"] == "create":
                n.args["kind"] = Const(c["what"])

    def isinstance(self, v, cls) -> bool:
        classes = cls.items if isinstance(cls, Tup) else [cls]
        for c in classes:
            if self._isinstance1(v, c):
                return True
        return False

    def _isinstance1(self, v, c) -> bool:
        d = c.dotted if isinstance(c, (ClsRef, Ext)) else tagof(c)
        if d.startswith("exp."):
            if isinstance(v, NodeV):
                return self.node_isinstance(v, d[4:])
            if isinstance(v, Sym) and not v.typ:
                h = self.hooks.isinstance_unknown(self, v, d)
                if h is not None:
                    return h
                return self.decide(f"isinstance({v.tag}, {d})")
            return False
        py = {"builtins.str": str, "builtins.int": int, "builtins.bool": bool, "builtins.dict": dict,
              "builtins.list": list, "builtins.tuple": tuple, "builtins.float": float}.get(d)
        if py is not None:
            if isinstance(v, Const):
                return isinstance(v.v, py)
            if isinstance(v, Str):
                return py is str
            if isinstance(v, (Tup,)):
                return py is tuple
            if isinstance(v, (Lst,)):
                return py is list
            if isinstance(v, Dct):
                return py is dict
            if isinstance(v, Sym):
                if v.typ:
                    return {"str": str, "int": int, "bool": bool, "path": None}.get(v.typ) is py
                return self.decide(f"isinstance({v.tag}, {d})")
            return False
        if isinstance(v, ExcV):
            return exc_isinstance(v.cls, d)
        if isinstance(v, Obj) and v.cls:
            return d.endswith("." + v.cls[1])
        if isinstance(v, Sym):
            return self.decide(f"isinstance({v.tag}, {d})")
        return False

    # ------------------------------------------------------------------ methods of abstract values
    def call_method(self, recv, name: str, args, kwargs, site, env) -> Val:
        a0 = args[0] if args else None
        if name == "joinpath" and args and ((isinstance(recv, Sym) and recv.typ == "path") or isinstance(recv, Str)):
            out = recv
            for a_ in args:  # PurePath.joinpath(a, b) == path / a / b
                out = Str([out, "/", self.to_strpart(a_)])
            return out
        if isinstance(recv, Obj):
            if recv.kind == "duck":
                return self.hooks.engine(self, recv, name, args, kwargs, site)
            if recv.kind == "regex" and name in ("sub", "subn", "search", "match", "fullmatch", "findall", "finditer", "split"):
                # <compiled>.sub(repl, text, count) == re.sub(pattern, repl, text, count, flags): present it in the module
                # function's argument layout so that every hook and rule sees one form
                kw = dict(kwargs)
                if recv.attrs.get("flags") is not None:
                    kw.setdefault("flags", recv.attrs["flags"])
                return self.call_ext(f"re.{name}", [recv.attrs["pattern"], *args], kw, site, env)
            om = getattr(self.hooks, "obj_method", None)
            if om is not None:
                r = om(self, recv, name, args, kwargs, site)
                if r is not NotImplemented:
                    return r
            self.effect("call", f"{recv.name}.{name}", args, kwargs, site)
            return Sym(f"{recv.name}.{name}()@{self.siteid(site)}", origin=("method", recv, name, args, kwargs))
        if isinstance(recv, ArgsView):
            if name == "get":
                v = self.node_arg(recv.node, a0.v) if isinstance(a0, Const) else Sym(f"{recv.tag}.get({tagof(a0)})")
                if len(args) > 1 and isinstance(v, Const) and v.v is None:
                    return args[1]
                return v
            if name == "pop":
                v = self.node_arg(recv.node, a0.v)
                recv.node.args.pop(a0.v, None)
                return v
            return Sym(f"{recv.tag}.{name}()")
        if isinstance(recv, NodeV):
            return self.node_method(recv, name, args, kwargs, site, env)
        if isinstance(recv, Tpl) and name in ("substitute", "safe_substitute"):
            return self.substitute(recv, kwargs)
        if isinstance(recv, (Const, Str, Sym)) and _strlike(recv) or (isinstance(recv, Const) and isinstance(recv.v, str)):
            r = self.str_method(recv, name, args, kwargs, site)
            if r is not None:
                return r
        if isinstance(recv, (Lst, Tup)):
            if isinstance(recv, Lst) and not recv.open and name in ("sort", "reverse", "insert", "clear"):
                if name == "reverse":
                    recv.items.reverse()
                    return Const(None)
                if name == "clear":
                    del recv.items[:]
                    return Const(None)
                if name == "insert" and isinstance(a0, Const) and isinstance(a0.v, int) and len(args) > 1:
                    recv.items.insert(a0.v, args[1])
                    return Const(None)
                if name == "sort":
                    keyf = kwargs.get("key")
                    keys = [self.call(keyf, [x], {}, site, env) if keyf is not None else x for x in recv.items]
                    rev = bool(isinstance(kwargs.get("reverse"), Const) and kwargs["reverse"].v)
                    if all(isinstance(k, Const) for k in keys):
                        try:
                            order = sorted(range(len(keys)), key=lambda i: keys[i].v, reverse=rev)
                            recv.items[:] = [recv.items[i] for i in order]  # in place: every alias of the list sees it
                            self.effect("list-sort", recv, site)
                            return Const(None)
                        except TypeError:
                            pass
                    recv.open = True  # order unknown
                    self.effect("list-sort", recv, site)
                    return Const(None)
            if name == "append" and isinstance(recv, Lst):
                recv.items.append(a0)
                return Const(None)
            if name == "extend" and isinstance(recv, Lst):
                if isinstance(a0, (Lst, Tup)):
                    recv.items.extend(a0.items)
                else:
                    recv.open = True
                return Const(None)
            if name == "copy":
                return Lst(recv.items, open=getattr(recv, "open", False))
            if name in ("update", "add") and isinstance(recv, Lst):
                # the list stands for a set(): add what is not there yet (by abstract identity / text)
                new = [a0] if name == "add" else (list(a0.items) if isinstance(a0, (Lst, Tup)) else None)
                if new is None:
                    recv.open = True
                    return Const(None)
                have = {tagof(x) for x in recv.items}
                for x in new:
                    if tagof(x) not in have:
                        recv.items.append(x)
                        have.add(tagof(x))
                return Const(None)
        if isinstance(recv, Dct):
            if name == "get":
                k = dkey(a0)
                if k in recv.items:
                    return recv.items[k]
                dg = getattr(self.hooks, "dict_get", None)
                if dg is not None and getattr(recv, "shared_name", None):
                    r = dg(self, recv, a0, site)
                    if r is not NotImplemented:
                        return r
                if getattr(recv, "shared_name", None):
                    return Sym(f"{recv.shared_name}.get({tagof(a0)})", origin=("dictget", recv, a0))
                if isinstance(a0, Const) or not recv.items:
                    return args[1] if len(args) > 1 else Const(None)
                if isinstance(a0, (Ext, ClsRef, EnumV)) and recv.keyvals and all(isinstance(recv.keyvals.get(k), (Ext, ClsRef, EnumV)) for k in recv.items):
                    return args[1] if len(args) > 1 else Const(None)  # a dict literal keyed by named objects: another named object is not in it
                return Sym(f"{recv.tag}.get({tagof(a0)})", origin=("dictget", recv, a0))
            if name == "items":
                return Sym(f"{recv.tag}.items()", origin=("dictitems", recv))
            if name in ("keys",):
                return Lst([Const(k) for k in recv.items])
            if name in ("values",):
                return Lst(list(recv.items.values()))
            if name == "pop":
                k = dkey(a0)
                if k not in recv.items and len(args) < 2 and not getattr(recv, "shared_name", None):
                    exc = ExcV("builtins.KeyError", {}, [a0])
                    self.effect("raise", exc, site)
                    raise _Raise(exc)
                return recv.items.pop(k, args[1] if len(args) > 1 else Sym(f"pop({tagof(a0)})"))
            if name == "update":
                if isinstance(a0, Dct):
                    recv.items.update(a0.items)
                return Const(None)
        if isinstance(recv, ClsRef) and recv.dotted == "exp.Literal" and name in ("string", "number"):
            return self.construct(ClsRef("exp.Literal"), [], {"this": a0, "is_string": Const(name == "string")}, site)
        if isinstance(recv, Sym) and recv.origin and recv.origin[0] == "engine":
            # result of an engine fetch: methods on it are pure
            return Sym(f"{recv.tag}.{name}()", origin=("method", recv, name, args))
        self.effect("call", f"{tagof(recv)}.{name}", args, kwargs, site)
        return Sym(f"{tagof(recv)}.{name}({','.join(tagof(a) for a in args)})@{self.siteid(site)}",
                   origin=("method", recv, name, args, kwargs))

    def substitute(self, t: Tpl, kwargs) -> Val:
        txt = t.text
        if not (isinstance(txt, Const) and isinstance(txt.v, str)):
            return Sym(f"{t.tag}.substitute()", truthy=True, typ="str")
        parts, i = [], 0
        for m in _re.finditer(r"\$\{(\w+)\}|\$(\w+)", txt.v):
            parts.append(txt.v[i:m.start()])
            key = m.group(1) or m.group(2)
            v = kwargs.get(key)
            parts.append(self.to_strpart(v) if v is not None else Sym(f"${key}"))
            i = m.end()
        parts.append(txt.v[i:])
        s = mkstr(parts)
        if isinstance(s, Str):
            s.template = t.name  # type: ignore[attr-defined]
        return s

    def str_method(self, recv, name, args, kwargs, site):
        a0 = args[0] if args else None
        if isinstance(recv, Const) and isinstance(recv.v, str) and all(isinstance(a, Const) for a in args) and not kwargs:
            if name in ("upper", "lower", "strip", "startswith", "endswith", "split", "rsplit", "replace", "casefold", "lstrip",
                        "rstrip", "isdigit", "partition", "rpartition", "removeprefix", "removesuffix", "title", "capitalize",
                        "isalpha", "isalnum", "isupper", "islower", "isidentifier", "count", "find", "index", "zfill"):
                try:
                    r = getattr(recv.v, name)(*[a.v for a in args])
                    if isinstance(r, tuple):
                        return Tup([Const(x) for x in r])
                    return Lst([Const(x) for x in r]) if isinstance(r, list) else Const(r)
                except TypeError:
                    return None
        if name in ("upper", "lower", "casefold", "strip"):
            if isinstance(recv, Sym):
                if recv.origin and recv.origin[0] == name:
                    return recv
                return Sym(f"{name}({recv.tag})", truthy=recv.truthy, origin=(name, recv), typ="str", notnone=True)
            if isinstance(recv, Str):
                return Str([getattr(p, name)() if isinstance(p, str) else (
                    p if isinstance(p, Sym) and p.origin and p.origin[0] == name else
                    Sym(f"{name}({tagof(p)})", truthy=getattr(p, "truthy", None), origin=(name, p), typ="str")) for p in recv.parts])
        if name in ("startswith", "endswith") and isinstance(a0, Const) and isinstance(recv, Str):
            edge = recv.parts[0] if name == "startswith" else recv.parts[-1]
            if isinstance(edge, str) and len(edge) >= len(a0.v):
                return Const(getattr(edge, name)(a0.v))
        if name == "join":
            if isinstance(a0, (Lst, Tup)) and not getattr(a0, "open", False):
                parts = []
                for i, x in enumerate(a0.items):
                    if i:
                        parts.append(self.to_strpart(recv))
                    parts.append(self.to_strpart(x))
                return mkstr(parts)
            return Sym(f"join({tagof(a0)})", origin=("join", recv, a0), typ="str")
        if name == "format":
            if isinstance(recv, Const) and isinstance(recv.v, str):
                import string
                try:
                    parts, auto = [], 0
                    for lit_, field, spec, conv in string.Formatter().parse(recv.v):
                        parts.append(lit_)
                        if field is None:
                            continue
                        if field == "":
                            val, auto = args[auto], auto + 1
                        elif field.isdigit():
                            val = args[int(field)]
                        elif field in kwargs:
                            val = kwargs[field]
                        else:
                            raise KeyError(field)
                        if spec or conv:
                            parts.append(Sym(f"format({tagof(val)},{spec!r})", origin=("format", val, spec), typ="str", truthy=True))
                        else:
                            parts.append(self.to_strpart(val))
                    return mkstr(parts)
                except (KeyError, IndexError, ValueError):
                    pass
            return Sym(f"format({tagof(recv)})", origin=("format", recv, args, kwargs), typ="str", truthy=True)
        if name in ("startswith", "endswith", "isdigit"):
            return Const(self.decide(f"{tagof(recv)}.{name}({','.join(tagof(a) for a in args)})"))
        if name in ("split", "replace", "group"):
            return Sym(f"{tagof(recv)}.{name}({','.join(tagof(a) for a in args)})", origin=("method", recv, name, args),
                       typ="str" if name != "split" else None, truthy=True if name == "split" else None)
        return None

    def node_method(self, n: NodeV, name, args, kwargs, site, env) -> Val:
        a0 = args[0] if args else None
        if name == "sql":
            if n.cls == "Column" and not n.open and not any(k in n.args for k in ("table", "db", "catalog")):
                idn = n.args.get("this")
                t = idn.args.get("this") if isinstance(idn, NodeV) and idn.cls == "Identifier" else None
                q = idn.args.get("quoted") if t is not None else None
                if isinstance(t, Const) and isinstance(t.v, str) and _re.match(r"^[A-Za-z_]\w*$", t.v) and isinstance(q, Const) and not q.v:
                    return Const(t.v)  # a bare unquoted column name renders as itself in every dialect
            extra = {k: v for k, v in kwargs.items() if k != "dialect"}  # generator options (pretty, identify, comments …) change the text
            return Sym(f"sql({n.name})", truthy=True, origin=("sql", n, kwargs.get("dialect"), extra), typ="str")
        if name == "copy":
            c = NodeV(n.cls, dict(n.args), name=n.name + "'", open=n.open, notcls=n.notcls)
            c.fresh = True
            c.copy_of = n  # type: ignore[attr-defined]
            return c
        if name == "set":
            if not (isinstance(a0, Const) and isinstance(a0.v, str)):
                raise _Raise(ExcV("builtins.TypeError", {}, [Const("Expression.set: the argument key must be a string")]))
            n.args[a0.v] = args[1]
            self.effect("nodeset", n, a0.v, args[1], site)
            return Const(None)
        if name == "is_type" and n.cls == "DataType" and isinstance(n.args.get("this"), EnumV) and args:
            # DataType.is_type(*dtypes): the type member equals one of the named ones (sqlglot builds a name with its
            # default tokenizer: "string" is TEXT, "varchar" VARCHAR, "int" INT ...)
            alias = {"STRING": "TEXT", "INTEGER": "INT", "NUMERIC": "DECIMAL", "NUMBER": "DECIMAL", "BOOL": "BOOLEAN", "REAL": "FLOAT"}
            mine, known = n.args["this"].member, True
            for a in args:
                m = a.member if isinstance(a, EnumV) else (alias.get(a.v.upper(), a.v.upper()) if isinstance(a, Const) and isinstance(a.v, str) else None)
                if m is None:
                    known = False
                elif m == mine:
                    return Const(True)
            if known:
                return Const(False)
        if name == "find_ancestor" and not n.open and n.parent is not None:
            classes = [c.short for c in args if isinstance(c, ClsRef)]
            if f"find_ancestor:{'|'.join(classes)}" not in n.args:
                x = n.parent
                while isinstance(x, NodeV):
                    if x.cls and any(self.prog.sqlglot.issub(x.cls, c) for c in classes):
                        return x
                    if x.parent is None:
                        if not x.open and x.name == "stmt":
                            return Const(None)
                        break
                    x = x.parent
        if name in ("find", "find_ancestor"):
            classes = [c.short for c in args if isinstance(c, ClsRef)]
            bfs = not (isinstance(kwargs.get("bfs"), Const) and kwargs["bfs"].v is False)
            key = f"{name}:{'|'.join(classes)}" + ("" if bfs else ":dfs")
            if key in n.args:
                return n.args[key]
            if name == "find" and n.cls and any(self.prog.sqlglot.issub(n.cls, c) for c in classes):
                return n
            if n.open or name == "find_ancestor":
                if self.decide(f"{n.name}.{name}({'|'.join(classes)})"):
                    r = NodeV(classes[0] if len(classes) == 1 else None, name=f"{n.name}.{name}({'|'.join(classes)})")
                else:
                    r = Const(None)
            else:
                r = self.closed_find(n, classes, bfs)
            n.args[key] = r
            return r
        if name == "find_all":
            classes = [c.short for c in args if isinstance(c, ClsRef)]
            if not n.open:
                return Lst(self.closed_find_all(n, classes, not (isinstance(kwargs.get("bfs"), Const) and kwargs["bfs"].v is False)))
            return Seq(NodeV(classes[0] if len(classes) == 1 else None, name=f"{n.name}.find_all({'|'.join(classes)})"), "gen")
        if name == "transform":
            extra = list(args[1:])  # Expression.transform(fun, *args, copy=True, **kwargs) calls fun(node, *args, **kwargs)
            self.effect("transform", n, a0, {**kwargs, **{f"#{j + 1}": v for j, v in enumerate(extra)}}, site)
            r = None
            kw = {k: v for k, v in kwargs.items() if k != "copy"}
            if isinstance(a0, (Func, Lam, Part)):
                nested = any(c.startswith("transforms") for c in self.callstack)
                if nested and not n.open:
                    # a transform started by a rewrite on one of its operands: sqlglot's pre-order walk — the function is applied
                    # to every node of the subtree; below a node it replaced nothing is visited
                    r = self._transform_tree(n, a0, extra, kw, site, env, 0)
                else:
                    r = self.call(a0, [n, *extra], kw, site, env)
            if isinstance(r, NodeV):
                return r
            return NodeV(None, name=f"{n.name}.transform@{self.siteid(site)}")
        if name == "replace":
            self.effect("nodereplace", n, a0, site)
            par = n.parent
            if isinstance(par, NodeV):  # node.replace(new): the parent's slot now holds the new node
                for k, v in list(par.args.items()):
                    if v is n:
                        par.args[k] = a0
                    elif isinstance(v, (Lst, Tup)) and any(x is n for x in v.items):
                        v.items[:] = [a0 if x is n else x for x in v.items]
                if isinstance(a0, NodeV):
                    a0.parent = par
            return a0
        if name == "join":
            self.effect("nodejoin", n, args, kwargs, site)
            return n
        if name == "unnest":
            while n.cls == "Paren" and isinstance(n.args.get("this"), NodeV):
                n = n.args["this"]  # Expression.unnest(): the first non-parenthesis node
            return n
        if name in ("pop", "assert_is"):
            return n
        if name == "flatten" and not n.open and n.cls:
            # Expression.flatten(): the operands of a chain of one connector class (a AND b AND c -> a, b, c), left to right
            out = []

            def leaves(x):
                if isinstance(x, NodeV) and x.cls == n.cls:
                    for k_ in ("this", "expression"):
                        if isinstance(x.args.get(k_), NodeV):
                            leaves(x.args[k_])
                elif isinstance(x, NodeV):
                    y = x
                    while y.cls == "Paren" and isinstance(y.args.get("this"), NodeV):
                        y = y.args["this"]
                    out.append(y)
            leaves(n)
            return Lst(out)
        return Sym(f"{n.name}.{name}()@{self.siteid(site)}", origin=("method", n, name, args))

    def _children(self, x) -> list:
        """child nodes in sqlglot's iteration order (arg order; list arguments contribute their items in place)"""
        out = []
        for k, v in x.args.items():
            if ":" in k:
                continue
            if isinstance(v, (Lst, Tup)):
                out.extend(i for i in v.items if isinstance(i, NodeV))
            elif isinstance(v, NodeV):
                out.append(v)
        return out

    def closed_find_all(self, n: NodeV, classes, bfs: bool = True) -> list:
        """matching nodes of a closed tree in the traversal order sqlglot uses (breadth-first unless bfs=False)"""
        out, seen, todo = [], set(), [n]
        sg = self.prog.sqlglot
        while todo:
            x = todo.pop(0)
            if id(x) in seen or not isinstance(x, NodeV):
                continue
            seen.add(id(x))
            if x.cls and any(sg.issub(x.cls, c) for c in classes):
                out.append(x)
            if bfs:
                todo.extend(self._children(x))
            else:
                todo[0:0] = self._children(x)
        return out

    def closed_find(self, n: NodeV, classes, bfs: bool = True) -> Val:
        r = self.closed_find_all(n, classes, bfs)
        return r[0] if r else Const(None)

    # ------------------------------------------------------------------ statements
    def block(self, stmts, env: Env) -> None:
        for s in stmts:
            self.st(s, env)

    def st(self, s: ast.stmt, env: Env) -> None:
        if isinstance(s, ast.Expr):
            if not isinstance(s.value, ast.Constant):
                self.ev(s.value, env)
            return
        if isinstance(s, ast.Assign):
            self.value_ctx = isinstance(s.value, ast.BoolOp)
            v = self._ev_stored(s.value, env)
            self.value_ctx = False
            for t in s.targets:
                self.assign(t, v, env, s)
            return
        if isinstance(s, ast.AnnAssign):
            if s.value is not None:
                self.assign(s.target, self.ev(s.value, env), env, s)
            return
        if isinstance(s, ast.AugAssign):
            cur = self.ev(s.target, env)
            rhs = self.ev(s.value, env)
            if isinstance(s.op, ast.BitOr) and isinstance(cur, Dct) and isinstance(rhs, Dct):
                cur.items.update(rhs.items)  # dict |= dict is an in-place update: every alias sees it
                cur.keyvals.update(rhs.keyvals)
                for k_, v_ in rhs.items.items():
                    self.effect("dictset", cur, rhs.keyvals.get(k_, Const(k_)), v_, s)
                return
            if isinstance(s.op, ast.Add) and isinstance(cur, Lst) and isinstance(rhs, (Lst, Tup)):
                cur.items.extend(rhs.items)  # list += is an in-place extend: every alias of the list sees it
                self.effect("list-extend", cur, rhs, s)
                return
            if isinstance(s.op, ast.Add) and (_strlike(cur) or _strlike(rhs)):
                v = mkstr([self.to_strpart(cur), self.to_strpart(rhs)])
            elif isinstance(s.op, ast.Add) and isinstance(cur, Const) and isinstance(rhs, Const):
                try:
                    v = Const(cur.v + rhs.v)
                except TypeError as te:  # None += 1 raises in the analysed program too
                    raise _Raise(ExcV("builtins.TypeError", {}, [Const(str(te))])) from None
            elif isinstance(cur, FlagV) and isinstance(rhs, FlagV) and cur.cls == rhs.cls and isinstance(s.op, (ast.BitOr, ast.BitAnd, ast.BitXor)):
                m_ = cur.members | rhs.members if isinstance(s.op, ast.BitOr) else cur.members & rhs.members if isinstance(s.op, ast.BitAnd) \
                    else cur.members ^ rhs.members
                v = FlagV(cur.cls, m_, cur.universe)
            elif isinstance(cur, Const) and isinstance(rhs, Const) and isinstance(cur.v, (int, float)) and isinstance(rhs.v, (int, float)) \
                    and isinstance(s.op, (ast.Sub, ast.Mult)):
                v = Const(cur.v - rhs.v if isinstance(s.op, ast.Sub) else cur.v * rhs.v)
            else:
                v = Sym(f"({tagof(cur)} {type(s.op).__name__}= {tagof(rhs)})", origin=("binop", type(s.op).__name__, cur, rhs))
            self.assign(s.target, v, env, s)
            return
        if isinstance(s, ast.While):
            # concrete tests are followed (bounded); an unknown test is decided per iteration, at most twice
            n_iter, unknown = 0, 0
            broke = False
            while True:
                before_ = getattr(self, "_decide_calls", 0)
                t = self.ev(s.test, env)
                if not isinstance(t, Const) or getattr(self, "_decide_calls", 0) != before_:
                    # unknown, or a constant that is only a decision about an unknown (the same question gets the same answer on
                    # every iteration: the loop would never end)
                    unknown += 1
                    if unknown > 2:
                        break
                if not self.truth(t):
                    break
                n_iter += 1
                if n_iter > 256:
                    raise PathLimit(f"while loop at {env.mod}:{s.lineno} exceeds 256 iterations")
                try:
                    self.block(s.body, env)
                except _Break:
                    broke = True
                    break
                except _Continue:
                    continue
            if not broke and s.orelse:
                self.block(s.orelse, env)
            return
        if isinstance(s, ast.If):
            if self.truth(self.ev(s.test, env)):
                self.block(s.body, env)
            else:
                self.block(s.orelse, env)
            return
        if isinstance(s, ast.Return):
            self.value_ctx = isinstance(s.value, ast.BoolOp)
            v = self._ev_stored(s.value, env) if s.value else Const(None)
            self.value_ctx = False
            raise _Return(v)
        if isinstance(s, ast.Raise):
            if s.exc is None:
                cur = env.lookup("__exc__")
                raise _Raise(cur if isinstance(cur, ExcV) else ExcV("builtins.Exception"))
            v = self.ev(s.exc, env)
            if isinstance(v, ClsRef):
                v = ExcV(v.dotted)
            if not isinstance(v, ExcV):
                v = ExcV("builtins.Exception", {"value": v})
            self.effect("raise", v, s)
            raise _Raise(v)
        if isinstance(s, ast.Assert):
            if self.hooks.assert_mode() == "assume" and self._tentative is None:
                v = self._assumed_test(s.test, env)
            else:
                v = self.ev(s.test, env)
            if self.hooks.assert_mode() == "assume":
                if isinstance(v, Const) and not v.v:
                    ex = ExcV("builtins.AssertionError")
                    self.effect("raise", ex, s)
                    raise _Raise(ex)
                if isinstance(v, Sym) and v.truthy is None:
                    self.assume(f"truthy({v.tag})", True)
                return
            if not self.truth(v):
                ex = ExcV("builtins.AssertionError")
                self.effect("raise", ex, s)
                raise _Raise(ex)
            return
        if isinstance(s, ast.For):
            it = self.force(self.ev(s.iter, env))
            vals = self.iter_values(it, s)
            if vals is None:
                # unknown iterable: zero or one abstract iteration
                if not self.decide(f"nonempty({tagof(it)})@{self.siteid(s)}"):
                    self.block(s.orelse, env)
                    return
                elem = it.elem if isinstance(it, Seq) else Sym(f"elem({tagof(it)})", origin=("elem", it))
                vals = [elem]
            self._loopctr.append(0)
            try:
                broke = False
                for i, x in enumerate(vals):
                    self._loopctr[-1] = i
                    self.assign(s.target, x, env, s)
                    try:
                        self.block(s.body, env)
                    except _Break:
                        broke = True
                        break
                    except _Continue:
                        continue
            finally:
                self._loopctr.pop()
            if not broke:
                self.block(s.orelse, env)
            return
        if isinstance(s, ast.Break):
            raise _Break()
        if isinstance(s, ast.Continue):
            raise _Continue()
        if isinstance(s, ast.Pass):
            return
        if isinstance(s, ast.Try):
            self.st_try(s, env)
            return
        if isinstance(s, (ast.With, ast.AsyncWith)):
            for it in s.items:
                v = self.ev(it.context_expr, env)
                self.effect("with", v, it.context_expr)
                if it.optional_vars is not None:
                    self.assign(it.optional_vars, v, env, s)
            try:
                self.block(s.body, env)
            finally:
                for it in reversed(s.items):
                    self.effect("with-exit", None, it.context_expr)
            return
        if isinstance(s, ast.FunctionDef):
            fnv = Func(env.mod, f"{env.fn}.<locals>.{s.name}", s, closure=env)
            fnv.defaults = self._capture_defaults(s.args, env)  # evaluated when the def statement runs
            env.vars[s.name] = fnv
            return
        if isinstance(s, ast.Delete):
            for t in s.targets:
                if isinstance(t, ast.Subscript):
                    base = self.ev(t.value, env)
                    idx = self.ev(t.slice, env)
                    if isinstance(base, Lst) and not base.open and isinstance(idx, Const) and isinstance(idx.v, int) \
                            and -len(base.items) <= idx.v < len(base.items):
                        del base.items[idx.v]
                    elif isinstance(base, Dct):
                        k = dkey(idx)
                        if k in base.items:
                            del base.items[k]
                            base.keyvals.pop(k, None)
                        elif not getattr(base, "shared_name", None):
                            exc = ExcV("builtins.KeyError", {}, [idx])
                            self.effect("raise", exc, s)
                            raise _Raise(exc)
                    elif isinstance(base, Lst):
                        base.open = True
                    self.effect("delitem", base, idx, s)
                elif isinstance(t, ast.Name):
                    env.vars.pop(t.id, None)
            return
        if isinstance(s, (ast.Import, ast.ImportFrom, ast.Global, ast.Nonlocal, ast.ClassDef)):
            return
        if isinstance(s, ast.Match):
            subject = self.ev(s.subject, env)
            for case in s.cases:
                if self.match_pattern(case.pattern, subject, env) and (case.guard is None or self.truth(self.ev(case.guard, env))):
                    self.block(case.body, env)
                    return
            return
        raise Unsupported(f"interp: unsupported statement {type(s).__name__} at {env.mod}:{s.lineno}")

    def match_pattern(self, pat, v, env: Env) -> bool:
        """structural pattern matching: class patterns (with keyword sub-patterns), values, captures, wildcard, alternatives"""
        if isinstance(pat, ast.MatchAs):
            if pat.pattern is not None and not self.match_pattern(pat.pattern, v, env):
                return False
            if pat.name:
                env.vars[pat.name] = v
            return True
        if isinstance(pat, ast.MatchOr):
            return any(self.match_pattern(p, v, env) for p in pat.patterns)
        if isinstance(pat, ast.MatchValue):
            return self.equal(v, self.ev(pat.value, env))
        if isinstance(pat, ast.MatchSingleton):
            return isinstance(v, Const) and v.v is pat.value
        if isinstance(pat, ast.MatchClass):
            cls = self.ev(pat.cls, env)
            if not self.isinstance(v, cls):
                return False
            if pat.patterns:
                raise Unsupported(f"interp: positional class patterns at {env.mod}:{pat.lineno}")
            return all(self.match_pattern(p, self.getattr(v, k, pat), env) for k, p in zip(pat.kwd_attrs, pat.kwd_patterns))
        if isinstance(pat, ast.MatchSequence):
            if not isinstance(v, (Lst, Tup)) or getattr(v, "open", False) or any(isinstance(p, ast.MatchStar) for p in pat.patterns) \
                    or len(v.items) != len(pat.patterns):
                return False if isinstance(v, (Lst, Tup)) and not getattr(v, "open", False) and not any(isinstance(p, ast.MatchStar) for p in pat.patterns) else \
                    self.decide(f"match-sequence@{self.siteid(pat)}")
            return all(self.match_pattern(p, x, env) for p, x in zip(pat.patterns, v.items))
        raise Unsupported(f"interp: unsupported pattern {type(pat).__name__} at {env.mod}:{pat.lineno}")

    def st_try(self, s: ast.Try, env: Env) -> None:
        try:
            try:
                self.block(s.body, env)
            except _Raise as r:
                for h in s.handlers:
                    if self.handler_matches(h, r.exc, env):
                        self.effect("handler", norm(h.type) if h.type else "bare", r.exc, h)
                        if h.name:
                            env.vars[h.name] = r.exc
                        saved = env.vars.get("__exc__")
                        env.vars["__exc__"] = r.exc
                        try:
                            self.block(h.body, env)
                        finally:
                            if saved is not None:
                                env.vars["__exc__"] = saved
                        break
                else:
                    raise
            else:
                self.block(s.orelse, env)
        finally:
            if s.finalbody:
                self.block(s.finalbody, env)

    def handler_matches(self, h: ast.ExceptHandler, exc: ExcV, env: Env) -> bool:
        if h.type is None:
            return True
        t = self.ev(h.type, env)
        ts = t.items if isinstance(t, Tup) else [t]
        for c in ts:
            d = c.dotted if isinstance(c, (ClsRef, Ext)) else None
            if d and exc_isinstance(exc.cls, d):
                return True
        return False

    def assign(self, t: ast.expr, v: Val, env: Env, site=None) -> None:
        if isinstance(t, ast.Name):
            env.vars[t.id] = v
            return
        if isinstance(t, (ast.Tuple, ast.List)):
            items = None
            if isinstance(v, Obj) and getattr(v, "tuple_fields", None):
                v = Tup([v.attrs.get(f_, Const(None)) for f_ in v.tuple_fields])  # a NamedTuple unpacks like the tuple it is
            if isinstance(v, (Tup, Lst)) and len(v.items) == len(t.elts) and not getattr(v, "open", False):
                items = v.items
            if any(isinstance(x, ast.Starred) for x in t.elts) and isinstance(v, (Tup, Lst)) and not getattr(v, "open", False):
                si = next(i for i, x in enumerate(t.elts) if isinstance(x, ast.Starred))
                after = len(t.elts) - si - 1
                if len(v.items) >= len(t.elts) - 1:
                    for i in range(si):
                        self.assign(t.elts[i], v.items[i], env, site)
                    self.assign(t.elts[si].value, Lst(v.items[si:len(v.items) - after]), env, site)
                    for j in range(after):
                        self.assign(t.elts[si + 1 + j], v.items[len(v.items) - after + j], env, site)
                    return
            if items is None and any(isinstance(x, ast.Starred) for x in t.elts):
                for i, x in enumerate(t.elts):
                    tgt = x.value if isinstance(x, ast.Starred) else x
                    self.assign(tgt, Sym(f"{tagof(v)}.{i}{'*' if isinstance(x, ast.Starred) else ''}",
                                         origin=("unpack", v, i)), env, site)
                return
            for i, x in enumerate(t.elts):
                self.assign(x, items[i] if items else Sym(f"{tagof(v)}.{i}", origin=("unpack", v, i)), env, site)
            return
        if isinstance(t, ast.Attribute):
            base = self.ev(t.value, env)
            if isinstance(base, Obj):
                if base.cls:
                    setter = self.prog.modules[base.cls[0]].functions.get(f"{base.cls[1]}.{t.attr}.setter") if base.cls[0] in self.prog.modules else None
                    getter = self.find_method(base.cls[0], base.cls[1], t.attr) if setter is not None else None
                    if setter is not None and getter is not None and is_property(getter[2]):
                        # a property with a setter: what the attribute reads afterwards is what the getter returns
                        self.call_func(Func(base.cls[0], f"{base.cls[1]}.{t.attr}.setter", setter, self_val=base), [v], {}, site or t)
                        held = base.attrs.pop(t.attr, None)
                        try:
                            v = self.call_func(Func(getter[0], getter[1], getter[2], self_val=base), [], {}, site or t)
                        finally:
                            if held is not None and t.attr not in base.attrs:
                                base.attrs[t.attr] = held
                base.attrs[t.attr] = v
                self.effect("store", base, t.attr, v, site or t)
                return
            if isinstance(base, ExcV):
                base.attrs[t.attr] = v
                return
            self.effect("store", base, t.attr, v, site or t)
            return
        if isinstance(t, ast.Subscript):
            base = self.ev(t.value, env)
            idx = self.ev(t.slice, env)
            if isinstance(base, ArgsView) and isinstance(idx, Const):
                base.node.args[idx.v] = v
                self.effect("nodeset", base.node, idx.v, v, site or t)
                return
            if isinstance(base, Dct):
                base.items[dkey(idx)] = v
                self.effect("dictset", base, idx, v, site or t)
                return
            if isinstance(base, Lst) and not base.open and isinstance(idx, Const) and isinstance(idx.v, int) and -len(base.items) <= idx.v < len(base.items):
                base.items[idx.v] = v  # in place: every alias of the list sees it
                self.effect("setitem", base, idx, v, site or t)
                return
            self.effect("setitem", base, idx, v, site or t)
            return
        raise Unsupported(f"interp: assignment target {norm(t)}")


def _strlike(v) -> bool:
    return isinstance(v, Str) or (isinstance(v, Const) and isinstance(v.v, str)) or (isinstance(v, Sym) and v.typ == "str")


def _could_match(s: Str, text: str) -> bool:
    """Could the template produce exactly `text`?  (literal parts must occur in order)"""
    pos = 0
    parts = s.parts
    if parts and isinstance(parts[0], str) and not text.startswith(parts[0]):
        return False
    if parts and isinstance(parts[-1], str) and not text.endswith(parts[-1]):
        return False
    for p in parts:
        if isinstance(p, str):
            i = text.find(p, pos)
            if i < 0:
                return False
            pos = i + len(p)
    return True


def _root_name(e: ast.AST) -> str | None:
    while isinstance(e, ast.Attribute):
        e = e.value
    return e.id if isinstance(e, ast.Name) else None


def _is_staticmethod(fn) -> bool:
    return any(isinstance(d, ast.Name) and d.id == "staticmethod" for d in fn.decorator_list)


def _is_classmethod(fn) -> bool:
    return any(isinstance(d, ast.Name) and d.id == "classmethod" for d in fn.decorator_list)


class Path:
    def __init__(self, decisions, assumed, effects, outcome, value):
        self.decisions = decisions
        self.assumed = assumed
        self.effects = effects
        self.outcome = outcome  # 'return' | 'raise'
        self.value = value

    def of(self, kind: str):
        return [e for e in self.effects if e[0] == kind]


def explore(prog: Program, hooks_factory, run, max_paths: int = 1024) -> list[Path]:
    """Replay-based enumeration of all decision vectors of `run(interp)`."""
    work: list[list[bool]] = [[]]
    out: list[Path] = []
    while work:
        if len(out) >= max_paths:
            raise PathLimit(f"more than {max_paths} paths")
        dec = work.pop()
        I = Interp(prog, hooks_factory(), dec)
        try:
            v = run(I)
            outcome = "return"
        except _Raise as r:
            v, outcome = r.exc, "raise"
        except _Return as r:
            v, outcome = r.v, "return"
        out.append(Path(I.decisions[: I.dpos], list(I.assumed), I.effects, outcome, v))
        for i in range(len(dec), I.dpos):
            if I.decisions[i] is True:
                work.append(I.decisions[:i] + [False])
    return out
