"""Typestate analysis of the connection constructor (shared by C14, C01.b, C18, C19).

Abstract start points: database argument {absent, present} x schema argument {absent, user,
built-in (information_schema / main: exists iff the catalog does)} x create_database x
create_schema x db_path {None, present} x catalog typestate {db absent, db only, db+schema}.
The engine handle is a typestate object: existence queries are answered from the abstract catalog
by classifying their template; ATTACH / CREATE SCHEMA / SET schema are transfer functions with
preconditions (a violated precondition is an engine error raised into the analysed code).
"""

from __future__ import annotations

import itertools

from . import sqlt
from .interp import Hooks, Interp, _Raise, explore
from .model import AnalysisError, Program
from .values import ClsRef, Const, ExcV, Obj, Str, Sym, tagof

CONN = ("conn", "FakeSnowflakeConnection")


class Point:
    def __init__(self, database, schema, create_database, create_schema, db_path, db0, schema0):
        self.database, self.schema = database, schema  # bool ; None|'user'|'builtin'
        self.create_database, self.create_schema, self.db_path = create_database, create_schema, db_path
        self.db0, self.schema0 = db0, schema0

    def __repr__(self):
        return (f"connect(database={'<db>' if self.database else None}, schema="
                f"{ {None: None, 'user': '<schema>', 'builtin': 'information_schema'}[self.schema]}, "
                f"create_database={self.create_database}, create_schema={self.create_schema}, "
                f"db_path={'<dir>' if self.db_path else None}) with catalog "
                f"{'db+schema' if self.db0 and self.schema0 else 'db only' if self.db0 else 'db absent'}")


def points() -> list[Point]:
    out = []
    for database, schema, cd, cs, dbp, sigma in itertools.product(
        (False, True), (None, "user", "builtin"), (False, True), (False, True), (False, True), (0, 1, 2)
    ):
        db0 = sigma >= 1
        schema0 = sigma == 2
        if schema == "builtin":
            schema0 = db0
            if sigma == 2:
                continue  # same abstract point as sigma == 1
        if schema is None and sigma == 2:
            continue
        if not database and sigma != 0:
            continue  # no database named: the catalog state is irrelevant
        out.append(Point(database, schema, cd, cs, dbp, db0, schema0))
    return out


class EngineState:
    def __init__(self, pt: Point):
        self.pt = pt
        self.db = pt.db0
        self.schema = pt.schema0
        self.search_path = None
        self.log: list[tuple] = []
        self.created_db = False
        self.created_schema = False
        self.bootstrap: set[str] = set()
        self.bootstrap_flags: dict = {}
        self.utc = False
        self.attach_file = None
        self.other: list[str] = []
        self.facts: list[tuple] = []  # template facts (hole folded, column upper-wrapped)
        self.last_exists = None
        self.last_rows = None  # rows of the last catalog listing whose select list is a single name column


def _is_db_hole(v) -> bool:
    return "database" in tagof(v)


def _is_schema_hole(v) -> bool:
    return "schema" in tagof(v)


def _folded(v) -> bool:
    return isinstance(v, Sym) and v.origin is not None and v.origin[0] == "upper"


class ConnectHooks(Hooks):
    def __init__(self, pt: Point):
        self.st = EngineState(pt)

    def assert_mode(self):
        return "fork"

    # ---- the engine typestate
    def engine(self, I: Interp, obj, method, args, kwargs, site):
        st = self.st
        self._interp = I
        I.effect("engine", method, args, kwargs, site)
        if method in ("fetchone", "fetchall"):
            ans = st.last_exists
            rows, st.last_rows = st.last_rows, None
            st.last_exists = None
            if rows is not None:
                # the listing names a column: the rows are the names as the engine stores them
                from .values import Lst, Tup
                if method == "fetchall":
                    return Lst([Tup([r]) for r in rows])
                return Tup([rows[0]]) if rows else Const(None)
            if ans is None:
                return Sym(f"fetch@{I.siteid(site)}")
            return Sym(f"row@{I.siteid(site)}", truthy=True) if ans else (Const(None) if method == "fetchone" else Const(()))
        if method != "execute":
            return Sym(f"duck.{method}()@{I.siteid(site)}")
        sql = args[0] if args else Const("")
        try:
            stmts = sqlt.split_statements(sqlt.tokenize(sql))
        except Exception as e:  # noqa: BLE001
            raise AnalysisError(f"connect model: cannot tokenise engine SQL {tagof(sql)[:80]}: {e}") from None
        for s in stmts:
            self.apply(I, s, sql, site)
        return obj

    def fail(self, I, cls, why, site):
        self.st.log.append(("engine-error", cls, why, getattr(site, "lineno", 0)))
        exc = ExcV(cls, {}, [Const(why)])
        I.effect("engine-error", cls, why, site)
        raise _Raise(exc)

    def apply(self, I, stmt, sql, site):
        st = self.st
        c = sqlt.classify(stmt)
        k = c["kind"]
        if k == "select":
            tabs = [".".join(t.up for t in n) for n in c["tables"]]
            if any(t.endswith("INFORMATION_SCHEMA.SCHEMATA") for t in tabs):
                st.last_exists = self.exists_query(stmt, site)
                st.log.append(("exists?", st.last_exists, getattr(site, "lineno", 0)))
                return
            st.other.append("select " + ",".join(tabs))
            return
        if k == "attach":
            name = c["name"]
            holes = name.holes() if name is not None else []
            if holes and _is_db_hole(holes[0]):
                st.facts.append(("folded", "ATTACH name", _folded(holes[0]), site))
                if st.db and not c["if_not_exists"]:
                    self.fail(I, "duckdb.BinderException", "ATTACH of a database that already exists", site)
                if not st.db:
                    st.created_db = True
                st.db = True
                if st.pt.schema == "builtin":
                    st.schema = True  # information_schema / main exist in every attached catalog
                st.attach_file = c["file"]
                st.log.append(("attach", sqlt.Tok("str", c["file"] or []).text, getattr(site, "lineno", 0)))
                return
            st.other.append("attach " + (name.text if name else "?"))
            return
        if k == "create":
            what, name = c["what"], c["name"]
            if what == "SCHEMA":
                holes = [h for t in name for h in t.holes()]
                st.facts.append(("folded", "CREATE SCHEMA name", all(_folded(h) for h in holes) and bool(holes), site))
                if len(name) != 2 or not (name[0].holes() and _is_db_hole(name[0].holes()[0])) or not (
                    name[1].holes() and _is_schema_hole(name[1].holes()[0])
                ):
                    st.other.append("create schema " + ".".join(t.text for t in name))
                    return
                if not st.db:
                    self.fail(I, "duckdb.BinderException", "CREATE SCHEMA in a catalog that does not exist", site)
                if st.schema and not c["if_not_exists"]:
                    self.fail(I, "duckdb.CatalogException", "CREATE SCHEMA of a schema that already exists", site)
                if not st.schema:
                    st.created_schema = True
                st.schema = True
                st.log.append(("create schema", getattr(site, "lineno", 0)))
                return
            # bootstrap objects: <db>.information_schema._fs_* / views / macros
            full = ".".join(t.text for t in name)
            holes = [h for t in name for h in t.holes()]
            if holes and _is_db_hole(holes[0]):
                if not st.db:
                    self.fail(I, "duckdb.BinderException", f"bootstrap CREATE {what} in a missing catalog", site)
                key = f"{what}:{'.'.join(t.text.lower() for t in name[1:])}"
                st.bootstrap.add(key)
                st.bootstrap_flags[key] = (c["if_not_exists"], c["or_replace"], site)
                return
            st.other.append(f"create {what} {full}")
            return
        if k == "set":
            var = c["var"]
            val = c["value"]
            if var == "SCHEMA":
                parts = val.parts if val is not None and val.kind == "str" else []
                holes = [p for p in parts if not isinstance(p, str)]
                st.facts.append(("folded", "SET schema value", all(_folded(h) for h in holes) and bool(holes), site))
                txt = "".join(p if isinstance(p, str) else ("<db>" if _is_db_hole(p) else "<schema>" if _is_schema_hole(p) else "<?>") for p in parts)
                if txt == "<db>.<schema>":
                    if not (st.db and st.schema):
                        self.fail(I, "duckdb.CatalogException", "SET schema to a catalog/schema that does not exist", site)
                elif txt.lower() == "<db>.main":
                    if not st.db:
                        self.fail(I, "duckdb.CatalogException", "SET schema to a catalog that does not exist", site)
                else:
                    st.other.append("set schema " + txt)
                st.search_path = txt.lower() if txt.lower() == "<db>.main" else txt
                st.log.append(("set schema", txt, getattr(site, "lineno", 0)))
                return
            if var == "TIMEZONE":
                if val is not None and val.kind == "str" and val.text.upper() == "UTC":
                    st.utc = True
                    st.utc_global = c["global"]
                else:
                    st.other.append("set timezone " + (val.text if val else "?"))
                return
            st.other.append("set " + var)
            return
        st.other.append(k + ":" + c.get("head", ""))

    def exists_query(self, stmt, site) -> bool:
        st = self.st
        try:
            wp = sqlt.where_pred(stmt)
        except ValueError as e:
            raise AnalysisError(f"connect model: cannot parse existence predicate: {e}") from None
        if wp is None:
            return True
        ans = True
        cols_seen = set()
        for cj in sqlt.conjuncts(wp[0]):
            pattern_match = cj[0] in ("like", "ilike") and len(cj) >= 3 and cj[2][0] == "lit" and any(not isinstance(p, str) for p in cj[2][1])
            if pattern_match:
                # name LIKE/ILIKE '<requested name>': `_` and `%` in the requested name act as wildcards, so a look-alike object
                # answers for it — treated as an exact, case-insensitive comparison for the typestate, and recorded as a fact
                st.facts.append(("an exact comparison (LIKE/ILIKE treats `_` and `%` in the requested name as wildcards)", f"{cj[1][1] if cj[1][0] == 'col' else cj[1]} lookup", False, site))
                cj = ("cmp", "=", ("func", "UPPER", [cj[1]]) if cj[0] == "ilike" else cj[1], cj[2])
            if cj[0] != "cmp" or cj[1] != "=":
                raise AnalysisError(f"connect model: unexpected existence conjunct {cj!r}")
            lhs, rhs = cj[2], cj[3]
            if rhs[0] != "lit":
                lhs, rhs = rhs, lhs
            col, wrapped = None, False
            if lhs[0] == "func" and lhs[1] == "UPPER" and lhs[2] and lhs[2][0][0] == "col":
                col, wrapped = lhs[2][0][1], True
            elif lhs[0] == "col":
                col = lhs[1]
            holes = [p for p in rhs[1] if not isinstance(p, str)] if rhs[0] == "lit" else []
            cols_seen.add(col)
            if col == "CATALOG_NAME" and holes and _is_db_hole(holes[0]):
                st.facts.append(("upper-wrapped", "catalog_name", wrapped, site))
                st.facts.append(("folded", "catalog_name value", _folded(holes[0]), site))
                ans = ans and st.db
            elif col == "SCHEMA_NAME" and holes and _is_schema_hole(holes[0]):
                st.facts.append(("upper-wrapped", "schema_name", wrapped, site))
                st.facts.append(("folded", "schema_name value", _folded(holes[0]), site))
                exists = st.schema
                if st.pt.schema == "builtin" and not wrapped:
                    exists = False  # 'information_schema' is stored lower-case by the engine
                ans = ans and exists
            elif col in ("SCHEMA_NAME", "CATALOG_NAME") and rhs[0] == "lit" and not holes:
                # a name the code spells out itself (a schema nobody asked for): whether it exists is not part of the start point
                name_ = "".join(rhs[1])
                st.facts.append(("requested by the caller", f"{col.lower()} '{name_}' probed", False, site))
                ans = ans and self._interp.decide(f"exists {col.lower()} {name_}") if getattr(self, "_interp", None) is not None else False
            else:
                raise AnalysisError(f"connect model: unexpected existence conjunct on {col} {rhs!r}")
        if "SCHEMA_NAME" in cols_seen:
            # a schema of the same name may exist in another database of the instance
            st.facts.append(("scoped to the connection's database (catalog_name conjunct)", "schema existence check", "CATALOG_NAME" in cols_seen, site))
        # a listing of names (select schema_name / catalog_name … where <catalog conjunct>): the stored names, for code that
        # decides existence on the Python side.  Stored as the engine stores them: built-ins lower-case, what connect itself
        # created upper-case (the folded argument).
        sel = [t for t in stmt[1:next((i for i, t in enumerate(stmt) if t.is_kw("FROM")), len(stmt))] if t.kind == "word"]
        if len(sel) == 1 and sel[0].up in ("SCHEMA_NAME", "CATALOG_NAME") and "SCHEMA_NAME" not in cols_seen:
            rows = []
            if sel[0].up == "SCHEMA_NAME" and st.db:
                rows = [Const("main"), Const("information_schema")] if st.pt.schema != "builtin" or True else []
                if st.schema and st.pt.schema == "user":
                    rows.append(Sym("upper(schema)", origin=("upper", Sym("schema", truthy=True, typ="str")), typ="str", truthy=True))
            elif sel[0].up == "CATALOG_NAME" and st.db:
                rows = [Sym("upper(database)", origin=("upper", Sym("database", truthy=True, typ="str")), typ="str", truthy=True)]
            st.last_rows = rows
        return ans


def make_args(pt: Point):
    database = Sym("database", truthy=True, typ="str") if pt.database else Const(None)
    schema = Sym("schema", truthy=True, typ="str") if pt.schema else Const(None)
    db_path = Sym("db_path", truthy=True, typ="str") if pt.db_path else Const(None)
    return database, schema, db_path


def run_point(prog: Program, pt: Point, via_instance: bool = True):
    """Enumerate the paths of connect at one abstract start point.
    Returns list of (path, hooks.st, conn object)."""
    results = []

    def factory():
        h = ConnectHooks(pt)
        factory.last = h
        return h

    def run(I: Interp):
        duck = Obj("duck", kind="duck")
        database, schema, db_path = make_args(pt)
        conn = I.construct(
            ClsRef("fakesnow.conn.FakeSnowflakeConnection"),
            [duck, database, schema],
            {"create_database": Const(pt.create_database), "create_schema": Const(pt.create_schema),
             "db_path": db_path, "nop_regexes": Const(None)},
            None,
        )
        return conn

    paths = explore(prog, factory, run, max_paths=64)
    # re-run to pair each path with its state: explore creates hooks per path; collect via closure
    return paths


# what the rules read off a finished connection: read through the class's properties when it defines them
OBSERVED_ATTRS = ("database", "schema", "database_set", "schema_set", "variables", "db_path", "nop_regexes")


def run_point_states(prog: Program, pt: Point):
    out = []
    hooks_list = []

    def factory():
        h = ConnectHooks(pt)
        hooks_list.append(h)
        return h

    def run(I: Interp):
        duck = Obj("duck", kind="duck")
        database, schema, db_path = make_args(pt)
        conn = I.construct(
            ClsRef("fakesnow.conn.FakeSnowflakeConnection"),
            [duck, database, schema],
            {"create_database": Const(pt.create_database), "create_schema": Const(pt.create_schema),
             "db_path": db_path, "nop_regexes": Const(None)},
            None,
        )
        I.refresh_properties(conn, OBSERVED_ATTRS)
        return conn

    paths = explore(prog, factory, run, max_paths=64)
    for p, h in zip(paths, hooks_list):
        out.append((p, h.st))
    return out
