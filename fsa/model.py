"""E1 — program model: parsed modules, import aliases, functions, classes, constants.

Sources come from the working tree of the repository under analysis (``FSA_REPO`` or /repo) or
from an in-memory map (used by the self-validation, which analyses AST-edited variants without
writing them to disk).  Nothing here imports or executes the analysed code.
"""

from __future__ import annotations

import ast
import hashlib
import os
from pathlib import Path

REPO = Path(os.environ.get("FSA_REPO", "/repo"))
PKG = "fakesnow"
SITE = Path("/venv/lib/python3.12/site-packages")


class AnalysisError(Exception):
    """Unsupported syntax, vanished anchor, inventory below floor: exit 2, never a verdict."""


def norm(node: ast.AST | str) -> str:
    """Normalised source text of a node (finding keys never use line numbers)."""
    s = node if isinstance(node, str) else ast.unparse(node)
    return " ".join(s.split())


class AliasDict(dict):
    """Top-level definitions of a module by name. Iteration sees the module's own definitions only; a lookup by name also
    finds what the module merely re-exports from a sibling module (a facade left behind after code moved keeps answering for
    the old address, the definition itself — with its own file and home module — is what is returned)."""

    def __init__(self, *a, **kw):
        super().__init__(*a, **kw)
        self.aliases: dict = {}

    def own(self, k) -> bool:
        return dict.__contains__(self, k)

    def __missing__(self, k):
        return self.aliases[k]

    def __contains__(self, k):
        return dict.__contains__(self, k) or k in self.aliases

    def get(self, k, default=None):
        if dict.__contains__(self, k):
            return dict.__getitem__(self, k)
        return self.aliases.get(k, default)


class Module:
    def __init__(self, name: str, src: str, path: str, subpackage: str | None = None):
        self.name = name  # e.g. "cursor"
        self.path = path
        self.src = src
        self.subpackage = subpackage  # "transforms" for fakesnow/transforms/show.py: relative imports start one level deeper
        try:
            self.tree = ast.parse(src)
        except SyntaxError as e:  # the tree no longer compiles: not ours to judge
            raise AnalysisError(f"{path}: syntax error {e}") from None
        for parent in ast.walk(self.tree):
            parent._srcfile = path  # type: ignore[attr-defined]
            for ch in ast.iter_child_nodes(parent):
                ch._parent = parent  # type: ignore[attr-defined]
        self.imports: dict[str, str] = {}
        self.star_imports: list[str] = []
        self.functions: dict[str, ast.FunctionDef | ast.AsyncFunctionDef] = AliasDict()
        self.classes: dict[str, ast.ClassDef] = AliasDict()
        self.consts: dict[str, ast.expr] = AliasDict()
        self.const_stmts: dict[str, ast.stmt] = AliasDict()
        self._index()
        for d_ in (self.functions, self.classes):
            for node_ in d_.values():
                node_._home = name  # type: ignore[attr-defined]

    def _index(self) -> None:
        def imports(body: list[ast.stmt]) -> None:
            for s in body:
                if isinstance(s, ast.Import):
                    for a in s.names:
                        if a.asname:
                            self.imports[a.asname] = a.name
                        else:
                            root = a.name.split(".")[0]
                            self.imports.setdefault(root, root)
                elif isinstance(s, ast.ImportFrom):
                    base = s.module or ""
                    if s.level:
                        anchor = PKG + ("." + self.subpackage if self.subpackage and s.level == 1 else "")
                        base = anchor + ("." + base if base else "")
                    for a in s.names:
                        if a.name == "*":
                            self.star_imports.append(base)
                            continue
                        self.imports[a.asname or a.name] = f"{base}.{a.name}"
                elif isinstance(s, ast.If):
                    imports(s.body)
                    imports(s.orelse)
                elif isinstance(s, ast.Try):
                    imports(s.body)

        imports(self.tree.body)
        for s in self.tree.body:
            if isinstance(s, (ast.FunctionDef, ast.AsyncFunctionDef)):
                self.functions[s.name] = s
            elif isinstance(s, ast.ClassDef):
                self.classes[s.name] = s
                for m in s.body:
                    if isinstance(m, (ast.FunctionDef, ast.AsyncFunctionDef)):
                        # property setters share the getter's name: keep both
                        key = f"{s.name}.{m.name}"
                        if key in self.functions and _is_setter(m):
                            key = f"{s.name}.{m.name}.setter"
                        self.functions[key] = m
            elif isinstance(s, ast.Assign) and len(s.targets) == 1 and isinstance(s.targets[0], ast.Name):
                self.consts[s.targets[0].id] = s.value
                self.const_stmts[s.targets[0].id] = s
            elif isinstance(s, ast.AnnAssign) and isinstance(s.target, ast.Name) and s.value is not None:
                self.consts[s.target.id] = s.value
                self.const_stmts[s.target.id] = s

    def loc(self, node: ast.AST) -> str:
        return f"{getattr(node, '_srcfile', self.path)}:{getattr(node, 'lineno', 0)}"

    @classmethod
    def merged(cls, name: str, parts: list["Module"]) -> "Module":
        """A package directory presented as one module: the top-level definitions of `__init__.py` and of every sub-module under
        the package's name (a module turned into a package keeps its name for every rule; nodes remember their own file)."""
        m = cls.__new__(cls)
        m.name, m.path, m.subpackage = name, f"{PKG}/{name}/__init__.py", None
        m.src = "\n".join(p.src for p in parts)
        m.tree = ast.Module(body=[st for p in parts for st in p.tree.body], type_ignores=[])
        m.submodules = [p.name.split(".", 1)[1] for p in parts]
        m.imports, m.functions, m.classes, m.consts, m.const_stmts = {}, AliasDict(), AliasDict(), AliasDict(), AliasDict()
        m.star_imports = [x for p in parts for x in p.star_imports if not x.startswith(f"{PKG}.{name}.")]
        for p in parts:
            m.functions.update(p.functions)
            m.classes.update(p.classes)
            m.consts.update(p.consts)
            m.const_stmts.update(p.const_stmts)
        defined = set(m.functions) | set(m.classes) | set(m.consts)
        for p in parts:
            for k, v in p.imports.items():
                if k not in defined:  # an import of a sibling's definition is the definition itself
                    m.imports[k] = v
        return m

    def text_sources(self) -> list[tuple[str, ast.AST, ast.AST]]:
        """(name, expression, statement) of every module-level text the module defines, whichever way it spells it: a constant
        (`X = "…"`, `X = f"…"`, `X = Template("…")`) or a function whose body is one `return` of such an expression
        (`def x_sql(catalog): return f"…"`), the parameters being the holes."""
        # a facade's re-exports count: the texts are reachable under this module's name
        consts = {**getattr(self.consts, "aliases", {}), **dict(self.consts.items())}
        fns = {**getattr(self.functions, "aliases", {}), **dict(self.functions.items())}
        out = [(k, v, self.const_stmts[k]) for k, v in consts.items()]
        for name, fn in fns.items():
            if "." in name:
                continue
            body = [b for b in fn.body if not (isinstance(b, ast.Expr) and isinstance(b.value, ast.Constant))]
            if len(body) == 1 and isinstance(body[0], ast.Return) and body[0].value is not None:
                out.append((name, body[0].value, fn))
        return out

    def sql_templates(self) -> list[tuple[str, str, ast.AST]]:
        """(name, text with holes written `${expr}`, statement) for the texts of text_sources() that are literal enough to read."""
        def text(e):
            if isinstance(e, ast.Constant) and isinstance(e.value, str):
                return e.value
            if isinstance(e, ast.JoinedStr):
                parts = []
                for x in e.values:
                    if isinstance(x, ast.Constant):
                        parts.append(str(x.value))
                    elif isinstance(x, ast.FormattedValue):
                        parts.append("${" + ast.unparse(x.value) + "}")
                return "".join(parts)
            if isinstance(e, ast.Call) and e.args and getattr(e.func, "id", getattr(e.func, "attr", "")) == "Template":
                return text(e.args[0])
            return None
        out = []
        for name, e, stmt in self.text_sources():
            t = text(e)
            if t is not None:
                out.append((name, t, stmt))
        return out


def _is_setter(fn: ast.FunctionDef | ast.AsyncFunctionDef) -> bool:
    return any(isinstance(d, ast.Attribute) and d.attr == "setter" for d in fn.decorator_list)


def is_property(fn: ast.FunctionDef | ast.AsyncFunctionDef) -> bool:
    return any(isinstance(d, ast.Name) and d.id == "property" for d in fn.decorator_list)


class Program:
    """The whole package, parsed."""

    def __init__(self, sources: dict[str, str] | None = None, root: Path | None = None):
        self.root = root or REPO
        self.modules: dict[str, Module] = {}
        if sources is None:
            pkg = self.root / PKG
            if not pkg.is_dir():
                raise AnalysisError(f"{pkg} does not exist")
            sources = {p.stem: p.read_text() for p in sorted(pkg.glob("*.py"))}
            for d in sorted(x for x in pkg.iterdir() if x.is_dir() and (x / "__init__.py").exists()):
                for p in sorted(d.glob("*.py")):
                    sources[f"{d.name}/{p.stem}"] = p.read_text()
        self.sources = dict(sources)
        packages: dict[str, list[Module]] = {}
        for name, src in sources.items():
            if "/" in name:
                pk, stem = name.split("/", 1)
                packages.setdefault(pk, []).append(Module(f"{pk}.{stem}", src, f"{PKG}/{pk}/{stem}.py", subpackage=pk))
            else:
                self.modules[name] = Module(name, src, f"{PKG}/{name}.py")
        for pk, parts in packages.items():
            parts.sort(key=lambda m_: (not m_.name.endswith(".__init__"), m_.name))
            self.modules[pk] = Module.merged(pk, parts)
            for d_ in (self.modules[pk].functions, self.modules[pk].classes):
                for node_ in d_.values():
                    node_._home = pk  # type: ignore[attr-defined]
        self._link_reexports()
        self._sqlglot = None

    def _link_reexports(self) -> None:
        """names a module imports from a sibling module answer lookups on the importing module too (see AliasDict)"""
        for m in self.modules.values():
            pairs = list(m.imports.items())
            for base in m.star_imports:
                r = base.split(".")
                src = self.modules.get(r[1]) if len(r) >= 2 and r[0] == PKG else None
                if src is not None and src is not m:
                    for d_ in (src.functions, src.classes, src.consts):
                        pairs += [(k, f"{PKG}.{src.name}.{k}") for k in dict.keys(d_) if "." not in k and not k.startswith("_")]
            for alias, target in pairs:
                if not target.startswith(PKG + ".") or alias in m.functions and m.functions.own(alias):
                    continue
                loc = self.resolve(target)
                if loc is None or "." in loc[1] or loc[0] == m.name:
                    continue
                home, name = self.modules[loc[0]], loc[1]
                if home.functions.own(name) and not m.functions.own(alias):
                    m.functions.aliases[alias] = home.functions[name]
                elif home.classes.own(name) and not m.classes.own(alias):
                    m.classes.aliases[alias] = home.classes[name]
                    for q, f in dict.items(home.functions):
                        if q.startswith(name + "."):
                            m.functions.aliases[alias + q[len(name):]] = f
                elif home.consts.own(name) and not m.consts.own(alias):
                    m.consts.aliases[alias] = home.consts[name]
                    m.const_stmts.aliases[alias] = home.const_stmts[name]

    def locate(self, mod: str, name: str) -> tuple[str, str] | None:
        """(home module, name) of a top-level name visible in `mod`: its own definition, or the sibling definition it imports"""
        m = self.modules.get(mod)
        if m is None:
            return None
        head = name.split(".")[0]
        if any(d_.own(head) for d_ in (m.functions, m.classes, m.consts)) or m.functions.own(name):
            return mod, name
        tgt = m.imports.get(head)
        if tgt is None:
            for base in m.star_imports:
                r = base.split(".")
                src = self.modules.get(r[1]) if len(r) >= 2 and r[0] == PKG else None
                if src is not None and any(d_.own(head) for d_ in (src.functions, src.classes, src.consts)):
                    tgt = f"{PKG}.{src.name}.{head}"
                    break
        if tgt and tgt.startswith(PKG + "."):
            loc = self.resolve(tgt)
            if loc is not None:
                rest = name[len(head):]
                return loc[0], loc[1] + rest
        return None

    # ------------------------------------------------------------------ lookup
    def mod(self, name: str) -> Module:
        if name not in self.modules:
            raise AnalysisError(f"anchor vanished: module {PKG}/{name}.py")
        return self.modules[name]

    def fn(self, mod: str, qual: str) -> ast.FunctionDef:
        m = self.mod(mod)
        if qual not in m.functions:
            home = self.locate(mod, qual)
            if home is not None and home[0] != mod and home[1] in self.modules[home[0]].functions:
                return self.modules[home[0]].functions[home[1]]  # type: ignore[return-value]
            raise AnalysisError(f"anchor vanished: {PKG}/{mod}.py::{qual}")
        return m.functions[qual]  # type: ignore[return-value]

    def has_fn(self, mod: str, qual: str) -> bool:
        return mod in self.modules and qual in self.modules[mod].functions

    def cls(self, mod: str, name: str) -> ast.ClassDef:
        m = self.mod(mod)
        if name not in m.classes:
            raise AnalysisError(f"anchor vanished: class {PKG}/{mod}.py::{name}")
        return m.classes[name]

    def digest(self) -> str:
        h = hashlib.sha256()
        for k in sorted(self.sources):
            h.update(k.encode())
            h.update(self.sources[k].encode())
        return h.hexdigest()[:16]

    # ------------------------------------------------------------------ names
    def dotted(self, mod: Module | str, e: ast.AST) -> str | None:
        """Canonical dotted name of a Name/Attribute chain rooted at an import alias
        (``exp.Select`` -> ``sqlglot.exp.Select``); None if it is not such a chain."""
        m = self.modules[mod] if isinstance(mod, str) else mod
        parts: list[str] = []
        cur = e
        while isinstance(cur, ast.Attribute):
            parts.append(cur.attr)
            cur = cur.value
        if not isinstance(cur, ast.Name):
            return None
        root = m.imports.get(cur.id)
        if root is None:
            return None
        return ".".join([root, *reversed(parts)])

    def resolve(self, dotted: str) -> tuple[str, str] | None:
        """Follow re-exports: 'fakesnow.fakes.write_pandas' -> ('pandas_tools', 'write_pandas')."""
        seen = set()
        while dotted and dotted not in seen:
            seen.add(dotted)
            parts = dotted.split(".")
            if parts[0] != PKG or len(parts) < 2:
                return None
            # package-level name (fakesnow.patch)
            if len(parts) == 2:
                if parts[1] in self.modules:
                    return None
                modname, rest = "__init__", parts[1:]
            else:
                modname, rest = parts[1], parts[2:]
                if modname not in self.modules:
                    modname, rest = "__init__", parts[1:]
                elif rest and rest[0] in getattr(self.modules[modname], "submodules", ()) and len(rest) > 1:
                    rest = rest[1:]  # fakesnow.transforms.show.show_keys: a sub-module of a package presented as one module
            m = self.modules.get(modname)
            if m is None or not rest:
                return None
            head = rest[0]
            if m.functions.own(head) or m.classes.own(head) or m.consts.own(head):
                return modname, ".".join(rest)
            if head in m.imports:
                dotted = ".".join([m.imports[head], *rest[1:]])
                continue
            return None
        return None

    # ------------------------------------------------------------------ sqlglot facts
    @property
    def sqlglot(self):
        if self._sqlglot is None:
            from . import sqlglotfacts

            self._sqlglot = sqlglotfacts.SqlglotFacts()
        return self._sqlglot


def walk_no_nested(node: ast.AST):
    """ast.walk that does not descend into nested function/class definitions or lambdas."""
    todo = list(ast.iter_child_nodes(node))
    while todo:
        n = todo.pop()
        yield n
        if isinstance(n, (ast.FunctionDef, ast.AsyncFunctionDef, ast.ClassDef, ast.Lambda)):
            continue
        todo.extend(ast.iter_child_nodes(n))


def parent(node: ast.AST) -> ast.AST | None:
    return getattr(node, "_parent", None)


def enclosing_function(node: ast.AST) -> ast.FunctionDef | ast.AsyncFunctionDef | None:
    cur = parent(node)
    while cur is not None and not isinstance(cur, (ast.FunctionDef, ast.AsyncFunctionDef)):
        cur = parent(cur)
    return cur
