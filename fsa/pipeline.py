"""E5/E6 — the rewrite pipeline: ordered stage list and per-stage summaries.

The order is obtained by interpreting the cursor's pipeline method on a neutral descriptor and reading
the sequence of ``.transform(f, **kw)`` effects, so a method chain, a loop over a tuple of callables
or a reduce all give the same list.  Stage *summaries* (match classes, constructed classes, side-channel
keys, in-place vs fresh) are syntactic facts of each stage function.
"""

from __future__ import annotations

import ast
from functools import lru_cache

from .execmodel import ExecHooks, make_session, node
from .interp import explore
from .model import AnalysisError, Program, norm
from .values import ClsRef, Const, Func, Lam, NodeV, Part, Sym, tagof

_cache: dict = {}


class Stage:
    def __init__(self, index: int, name: str, fn: ast.FunctionDef | None, kwargs: dict, site):
        self.index, self.name, self.fn, self.kwargs, self.site = index, name, fn, kwargs, site

    def __repr__(self):
        return f"{self.index}:{self.name}"


def stages(prog: Program) -> list[Stage]:
    key = ("stages", prog.digest())
    if key in _cache:
        return _cache[key]
    result: list[Stage] = []

    def run(I):
        duck, conn, cur = make_session()
        stmt = node("Grant", "neutral")  # matched by no stage: the chain is traversed to its end
        return I.call(I.getattr(cur, "_transform"), [stmt], {}, None)

    paths = explore(prog, lambda: ExecHooks(None), run, max_paths=8)
    if not paths:
        raise AnalysisError("pipeline: no path through _transform")
    p = paths[0]
    eff = p.effects
    for i, e in enumerate(eff):
        if e[0] != "transform":
            continue
        fn, kwargs, site = e[2], e[3], e[4]
        name = None
        if isinstance(fn, Part) and isinstance(fn.func, Func):
            kwargs = {**(kwargs or {}), **fn.kwargs}
            fn = fn.func
        fused: list[str] = []
        wrapper_call = None
        if isinstance(fn, Func) and "." in fn.qual and "<locals>" not in fn.qual:
            # a bound method that only forwards to a rewrite with some session values (`return set_schema(expression,
            # current_database=self._conn.database)`): the stage is that rewrite, the forwarded values its arguments
            body = [b for b in fn.node.body if not (isinstance(b, ast.Expr) and isinstance(b.value, ast.Constant))]
            if len(body) == 1 and isinstance(body[0], ast.Return) and isinstance(body[0].value, ast.Call):
                callee = body[0].value.func
                cname = callee.id if isinstance(callee, ast.Name) else callee.attr if isinstance(callee, ast.Attribute) else None
                tm = prog.modules.get("transforms")
                if cname and tm is not None and cname in tm.functions and "." not in cname:
                    wrapper_call = body[0].value
                    name = cname
        if wrapper_call is not None:
            pass
        elif isinstance(fn, Func):
            name = fn.qual
        else:
            # a lambda: the package functions it calls directly (depth 1 of the enter/leave nesting); more than one means
            # several rewrites share one traversal (a fused pass)
            depth = 0
            for e2 in eff[i + 1:]:
                if e2[0] == "enter":
                    if depth == 0 and e2[1].startswith("transforms."):
                        fused.append(e2[1].split(".", 1)[1])
                    depth += 1
                elif e2[0] == "leave":
                    depth -= 1
                elif e2[0] == "transform" and depth == 0:
                    break
            name = fused[0] if fused else None
        if name is None:
            name = tagof(fn)
        fdef = prog.modules["transforms"].functions.get(name) if "transforms" in prog.modules else None
        lam_kwargs = {}
        fwd = fn.node.body if isinstance(fn, Lam) and isinstance(fn.node.body, ast.Call) else wrapper_call
        if fwd is not None:
            lam_kwargs = {k.arg: norm(k.value) for k in fwd.keywords if k.arg}
            for j, a in enumerate(fwd.args[1:]):
                lam_kwargs[f"#{j + 1}"] = norm(a)
        kw = {k: tagof(v) for k, v in (kwargs or {}).items()}
        kw.update(lam_kwargs)
        idx = len({st_.index for st_ in result})
        result.append(Stage(idx, name, fdef, kw, site))
        for extra in fused[1:]:
            # the other rewrites of a fused pass: same position in the chain
            if "transforms" in prog.modules and extra in prog.modules["transforms"].functions and extra != name:
                result.append(Stage(idx, extra, prog.modules["transforms"].functions[extra], dict(kw), site))
    if len(result) < 10:
        raise AnalysisError(f"pipeline: only {len(result)} stages found in _transform")
    _cache[key] = result
    return result


def stage_index(prog: Program, name: str) -> int | None:
    for s in stages(prog):
        if s.name == name:
            return s.index
    return None


# ---------------------------------------------------------------------- summaries
class Summary:
    def __init__(self):
        self.match: set[str] = set()  # classes in isinstance(<param>, exp.X)
        self.constructs: list[tuple[str, ast.Call]] = []  # exp.X(...) constructor calls
        self.side_keys: set[str] = set()  # <node>.args["k"] = ... with k not a declared arg
        self.anon_names: set[str] = set()  # Anonymous function names compared against
        self.returns_nop = False
        self.parses: list[ast.Call] = []


def summary(prog: Program, fn: ast.FunctionDef) -> Summary:
    s = Summary()
    if not fn.args.args:
        return s
    param = fn.args.args[0].arg
    m = prog.modules["transforms"]
    for n in ast.walk(fn):
        if isinstance(n, ast.Call):
            f = n.func
            if isinstance(f, ast.Name) and f.id == "isinstance" and len(n.args) == 2 and isinstance(n.args[0], ast.Name) and n.args[0].id == param:
                for c in (n.args[1].elts if isinstance(n.args[1], ast.Tuple) else [n.args[1]]):
                    d = prog.dotted(m, c)
                    if d and d.startswith("sqlglot.exp."):
                        s.match.add(d.rsplit(".", 1)[-1])
            d = prog.dotted(m, f)
            if d and d.startswith("sqlglot.exp.") and d.count(".") == 2 and d.rsplit(".", 1)[-1][:1].isupper():
                s.constructs.append((d.rsplit(".", 1)[-1], n))
            if d in ("sqlglot.parse_one",):
                s.parses.append(n)
        if isinstance(n, ast.Assign):
            for t in n.targets:
                if isinstance(t, ast.Subscript) and isinstance(t.value, ast.Attribute) and t.value.attr == "args" and isinstance(t.slice, ast.Constant):
                    s.side_keys.add(t.slice.value)
        if isinstance(n, (ast.Return,)) and n.value is not None and "SUCCESS_NOP" in norm(n.value):
            s.returns_nop = True
        if isinstance(n, ast.Compare) and isinstance(n.comparators[0], (ast.Constant, ast.List, ast.Tuple)):
            consts = [n.comparators[0]] if isinstance(n.comparators[0], ast.Constant) else n.comparators[0].elts
            if "upper()" in norm(n.left) and ".this" in norm(n.left):
                s.anon_names |= {c.value for c in consts if isinstance(c, ast.Constant) and isinstance(c.value, str)}
    return s


def apply_stage_to(prog: Program, stage_fn: str, descriptor_factory, kwargs_factory=None, max_paths=32):
    """Interpret one stage function on a descriptor; returns list of (path, result value)."""
    def run(I):
        f = I.global_lookup("transforms", stage_fn)
        kw = kwargs_factory(I) if kwargs_factory else {}
        return I.call(f, [descriptor_factory()], kw, None)

    return explore(prog, lambda: ExecHooks(None), run, max_paths=max_paths)


def run_pipeline_on(prog: Program, descriptor_factory, max_paths=64):
    """Interpret the whole pipeline method (every stage at the root) on a descriptor."""
    def run(I):
        duck, conn, cur = make_session()
        return I.call(I.getattr(cur, "_transform"), [descriptor_factory()], {}, None)

    return explore(prog, lambda: ExecHooks(None), run, max_paths=max_paths)
