"""CLI: python -m fsa check <Cnn> [--tier quick|thorough]"""

from __future__ import annotations

import argparse
import importlib
import os
import sys
import time
import traceback

from .model import AnalysisError, Program
from .report import Ctx, finish, seed_from_env


def run_check(prop: str, tier: str, prog: Program | None = None, write: bool = True) -> tuple[int, Ctx]:
    t0 = time.time()
    prog = prog or Program()
    from . import execmodel
    execmodel.set_prog(prog)
    mod = importlib.import_module(f"fsa.rules.{prop.lower()}")
    ctx = Ctx(prop, tier, prog, seed_from_env())
    for rid, fn, tiers in mod.RULES:
        if tier not in tiers:
            continue
        ctx.rules_run.append(rid)
        try:
            fn(ctx)
        except AnalysisError as e:
            # one rule that cannot analyse the tree must not hide what the other rules of the property find
            ctx.errors.append(f"{rid}: {e}")
    if not write:
        if ctx.errors and not ctx.findings:
            raise AnalysisError("; ".join(ctx.errors))
        return 0, ctx
    return finish(ctx, t0, mod.EXPLANATION, mod.RULE_TEXT, mod.TRUSTED), ctx


def main(argv=None) -> int:
    ap = argparse.ArgumentParser(prog="fsa")
    sub = ap.add_subparsers(dest="cmd", required=True)
    c = sub.add_parser("check")
    c.add_argument("prop")
    c.add_argument("--tier", default=os.environ.get("VERIF_TIER", "quick"), choices=["quick", "thorough"])
    s = sub.add_parser("selftest")
    s.add_argument("--jobs", type=int, default=16)
    s.add_argument("--only", default=None)
    args = ap.parse_args(argv)
    try:
        if args.cmd == "check":
            rc, _ = run_check(args.prop.upper(), args.tier)
            if rc == 0 and args.tier == "thorough":
                from . import selftest

                rc = selftest.run_for(args.prop.upper())
            return rc
        if args.cmd == "selftest":
            from . import selftest

            return selftest.main(args.jobs, args.only)
    except AnalysisError as e:
        print(f"ANALYSIS-ERROR property={getattr(args, 'prop', '-')} {e}")
        return 2
    except Exception:  # noqa: BLE001 - an internal error is never a verdict
        print(f"ANALYSIS-ERROR property={getattr(args, 'prop', '-')} internal error")
        traceback.print_exc()
        return 2
    return 0


if __name__ == "__main__":
    sys.exit(main())
