"""Self-validation: every rule is run on *armed* variants of today's sources (one instance broken:
the rule must fire and name the rule id) and on *neutral* variants (behaviour-preserving edits: every
rule must stay silent).  Variants are source-to-source edits held in memory: they are parsed by the
analyser, never written to disk, never executed.

`python -m fsa selftest` runs all of them (development / CI of the checker itself, exit 2 on a
failure); the thorough tier of a check runs the variants of its property and records the outcome
in the evidence without changing the verdict (on an edited tree an anchor text may be gone, which
says nothing about the property).
"""

from __future__ import annotations

import json
import multiprocessing as mp
import time
from pathlib import Path

from .model import AnalysisError, Program

def load_variants() -> list[dict]:
    from .variants import VARIANTS

    return VARIANTS


def apply_variant(sources: dict[str, str], v: dict) -> dict[str, str] | None:
    out = dict(sources)
    for ed in v["edits"]:
        src = out.get(ed["module"])
        if src is None or ed["old"] not in src:
            return None
        out[ed["module"]] = src.replace(ed["old"], ed["new"], ed.get("count", 1))
    return out


def _findings(prop: str, prog: Program):
    from .__main__ import run_check

    _, ctx = run_check(prop, "quick", prog=prog, write=False)
    return {f.key: f for f in ctx.findings}


_BASE: dict[str, set] = {}


def _baseline(prop: str) -> set:
    if prop not in _BASE:
        _BASE[prop] = set(_findings(prop, Program()))
    return _BASE[prop]


def run_variant(v: dict) -> dict:
    t0 = time.time()
    res = {"name": v["name"], "kind": v["kind"], "props": v["props"], "status": "ok", "detail": ""}
    try:
        srcs = apply_variant(Program().sources, v)
        if srcs is None:
            res["status"] = "skipped"
            res["detail"] = "anchor text not present in the current tree"
            return res
        prog = Program(sources=srcs)
        for prop in v["props"]:
            if not (Path(__file__).parent / "rules" / f"{prop.lower()}.py").exists():
                continue
            base = _baseline(prop)
            try:
                got = _findings(prop, prog)
            except AnalysisError as e:
                if v["kind"] == "armed" and v.get("accept_error"):
                    continue
                res["status"] = "FAIL"
                res["detail"] = f"{prop}: ANALYSIS-ERROR {e}"
                return res
            new = {k: f for k, f in got.items() if k not in base}
            if v["kind"] == "armed":
                want = v.get("rule")
                hit = [f for f in new.values() if not want or f.rule.startswith(want)]
                if not hit:
                    res["status"] = "FAIL"
                    res["detail"] = f"{prop}: rule {want or '*'} did not fire (new findings: {[f.rule for f in new.values()]})"
                    return res
                res["detail"] += f"{prop}:{hit[0].rule} "
            else:
                if new:
                    res["status"] = "FAIL"
                    res["detail"] = f"{prop}: false alarm {[(f.rule, f.construct[:60]) for f in new.values()]}"
                    return res
    except Exception as e:  # noqa: BLE001
        res["status"] = "FAIL"
        res["detail"] = f"internal error {type(e).__name__}: {e}"
    finally:
        res["wall_s"] = round(time.time() - t0, 2)
    return res


def run_all(variants: list[dict], jobs: int = 16) -> list[dict]:
    if not variants:
        return []
    with mp.get_context("fork").Pool(min(jobs, len(variants))) as pool:
        return pool.map(run_variant, variants, chunksize=1)


SEEDED = Path(__file__).resolve().parent.parent / "seeded"


def _apply_and_check(job):
    """(kind, prop, patch dir) -> (dir name, status, new findings): one scratch copy of the package per patch (outside /repo
    and /verif, removed afterwards), the property's rules run on it."""
    import shutil
    import subprocess
    import tempfile

    from .model import REPO

    kind, prop, d = job
    d = Path(d)
    base = _baseline(prop)
    tmp = Path(tempfile.mkdtemp(prefix=f"fsa_{kind}_", dir="/tmp"))
    try:
        shutil.copytree(REPO / "fakesnow", tmp / "fakesnow", ignore=shutil.ignore_patterns("__pycache__"))
        r = subprocess.run(["patch", "-p1", "-s", "-f", "-i", str(d / "patch.diff")], cwd=tmp, capture_output=True, text=True)
        if r.returncode != 0:
            return d.name, "skipped", []
        try:
            got = _findings(prop, Program(root=tmp))
            new = [k for k in got if k not in base]
        except AnalysisError as e:
            new = [] if kind == "seed" else [f"ANALYSIS-ERROR {e}"]
        return d.name, "applied", new
    finally:
        shutil.rmtree(tmp, ignore_errors=True)


def _pool_map(jobs_list, jobs):
    if not jobs_list:
        return []
    with mp.get_context("fork").Pool(min(jobs, len(jobs_list))) as pool:
        return pool.map(_apply_and_check, jobs_list, chunksize=1)


def run_seeded(prop: str, jobs: int = 16) -> dict:
    """Apply each seeded change written for `prop` to a scratch copy of the package and run the property's rules on it.
    A patch that no longer applies to the current tree is skipped."""
    out = {"applied": 0, "reported": 0, "skipped": 0, "missed": [], "not_decided": []}
    if not SEEDED.is_dir():
        return out
    todo, undecided = [], {}
    for d in sorted(SEEDED.iterdir()):
        meta_p, patch = d / "meta.json", d / "patch.diff"
        if meta_p.exists() and patch.exists() and (meta := json.loads(meta_p.read_text())).get("property") == prop:
            todo.append(("seed", prop, str(d)))
            if meta.get("not_decided"):
                undecided[d.name] = meta["not_decided"]  # kept on record: a change this family cannot decide (reason in the meta file)
    for name, status, new in _pool_map(todo, jobs):
        if status == "skipped":
            out["skipped"] += 1
            continue
        out["applied"] += 1
        if new:
            out["reported"] += 1
        elif Path(name).name in undecided or name in undecided:
            out["not_decided"].append({"change": Path(name).name, "reason": undecided.get(Path(name).name, undecided.get(name))})
        else:
            out["missed"].append(name)
    return out


NEUTRAL = Path(__file__).resolve().parent.parent / "neutral"


def run_neutral(prop: str, jobs: int = 16) -> dict:
    """Behaviour-preserving refactorings written by independent sub-agents: the property's rules must stay silent."""
    out = {"applied": 0, "silent": 0, "skipped": 0, "false_alarms": []}
    if not NEUTRAL.is_dir():
        return out
    todo = [("neutral", prop, str(d)) for d in sorted(NEUTRAL.iterdir()) if (d / "patch.diff").exists()]
    for name, status, new in _pool_map(todo, jobs):
        if status == "skipped":
            out["skipped"] += 1
            continue
        out["applied"] += 1
        if new:
            out["false_alarms"].append({"patch": name, "findings": new[:3]})
        else:
            out["silent"] += 1
    return out


def run_for(prop: str, jobs: int = 16) -> int:
    """Thorough tier: run this property's variants, record in the evidence, never change the verdict."""
    from .report import EVID

    vs = [v for v in load_variants() if prop in v["props"]]
    results = run_all(vs, jobs)
    fails = [r for r in results if r["status"] == "FAIL"]
    summary = {
        "variants": len(results),
        "armed_fired": sum(1 for r in results if r["kind"] == "armed" and r["status"] == "ok"),
        "neutral_silent": sum(1 for r in results if r["kind"] == "neutral" and r["status"] == "ok"),
        "skipped": sum(1 for r in results if r["status"] == "skipped"),
        "failed": [{"name": r["name"], "detail": r["detail"]} for r in fails],
        "samples": [{"name": r["name"], "kind": r["kind"], "result": r["status"], "detail": r["detail"]} for r in results[:12]],
    }
    seeded = run_seeded(prop, jobs)
    summary["seeded_changes"] = seeded
    neutral = run_neutral(prop, jobs)
    summary["neutral_refactorings"] = neutral
    p = EVID / f"{prop}.json"
    if p.exists():
        ev = json.loads(p.read_text())
        ev["coverage"]["self_validation"] = summary
        p.write_text(json.dumps(ev, indent=1, default=str) + "\n")
    print(f"[{prop}] self-validation: {summary['armed_fired']} armed fired, {summary['neutral_silent']} neutral silent, "
          f"{summary['skipped']} skipped, {len(fails)} failed")
    print(f"[{prop}] seeded changes written for this property: {seeded['applied']} applied, {seeded['reported']} reported, "
          f"{seeded['skipped']} no longer apply, missed: {seeded['missed']}"
          + (f", on record as not decidable by this family: {[x['change'] for x in seeded['not_decided']]}" if seeded["not_decided"] else ""))
    print(f"[{prop}] independent neutral refactorings: {neutral['applied']} applied, {neutral['silent']} silent, "
          f"{neutral['skipped']} no longer apply, false alarms: {neutral['false_alarms']}")
    for r in fails:
        print(f"SELFTEST-WARN {r['name']}: {r['detail']}")
    return 0


def main(jobs: int = 16, only: str | None = None) -> int:
    vs = load_variants()
    if only:
        vs = [v for v in vs if only in v["name"] or only in v["props"]]
    t0 = time.time()
    results = run_all(vs, jobs)
    bad = 0
    for r in results:
        if r["status"] != "ok":
            print(f"{r['status']:8} {r['kind']:8} {r['name']}: {r['detail']}")
        bad += r["status"] == "FAIL"
    print(f"selftest: {len(results)} variants, {sum(r['status'] == 'ok' for r in results)} ok, "
          f"{sum(r['status'] == 'skipped' for r in results)} skipped, {bad} failed in {time.time() - t0:.1f}s")
    return 2 if bad else 0
