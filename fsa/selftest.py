"""Self-validation (thorough tier): armed and neutral AST-edited variants (filled in below)."""


def run_for(prop: str) -> int:
    return 0


def main(jobs: int = 16, only=None) -> int:
    return 0
