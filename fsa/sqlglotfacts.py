"""Facts about the pinned sqlglot, read with ``ast`` from its installed source (never imported).

* the expression class table (bases, arg_types),
* ``DataType.Type`` members,
* the DuckDB generator's ``TYPE_MAPPING`` (composed with the base generator's),
* parser-normalisation witnesses: which string slots the Snowflake parser upper-cases and which it
  leaves as raw user text.  Each entry names the parser method and the expression shape that must
  still be present in it; a mismatch is an AnalysisError (exit 2), never a verdict.
"""

from __future__ import annotations

import ast
from functools import cached_property

from .model import SITE, AnalysisError

SG = SITE / "sqlglot"


def _parse(rel: str) -> ast.Module:
    p = SG / rel
    if not p.exists():
        raise AnalysisError(f"sqlglot source not found: {p}")
    return ast.parse(p.read_text())


def _dict_keys(d: ast.Dict) -> list[str]:
    return [k.value for k in d.keys if isinstance(k, ast.Constant) and isinstance(k.value, str)]


class SqlglotFacts:
    @cached_property
    def _exp(self) -> ast.Module:
        return _parse("expressions.py")

    @cached_property
    def classes(self) -> dict[str, dict]:
        out: dict[str, dict] = {}
        for n in self._exp.body:
            if isinstance(n, ast.ClassDef):
                bases = [b.id for b in n.bases if isinstance(b, ast.Name)]
                arg_types = None
                for s in n.body:
                    if (
                        isinstance(s, ast.Assign)
                        and isinstance(s.targets[0], ast.Name)
                        and s.targets[0].id == "arg_types"
                    ):
                        if isinstance(s.value, ast.Dict):
                            arg_types = _dict_keys(s.value)
                            # {**Base.arg_types, ...}
                            for k, v in zip(s.value.keys, s.value.values):
                                if k is None and isinstance(v, ast.Attribute) and isinstance(v.value, ast.Name):
                                    arg_types = ["**" + v.value.id, *arg_types]
                out[n.name] = {"bases": bases, "arg_types": arg_types}
        if len(out) < 400:
            raise AnalysisError(f"sqlglot class table too small ({len(out)})")
        return out

    @cached_property
    def type_sets(self) -> dict[str, list[str]]:
        """DataType.<NAME>_TYPES class-level sets (TEXT_TYPES, NUMERIC_TYPES, …): name -> member names, splats resolved"""
        out: dict[str, list[str]] = {}
        dt = next((n for n in self._exp.body if isinstance(n, ast.ClassDef) and n.name == "DataType"), None)
        for s in (dt.body if dt is not None else []):
            if isinstance(s, ast.Assign) and isinstance(s.targets[0], ast.Name) and s.targets[0].id.endswith("_TYPES") and isinstance(s.value, ast.Set):
                members: list[str] = []
                for e in s.value.elts:
                    if isinstance(e, ast.Starred) and isinstance(e.value, ast.Name):
                        members += out.get(e.value.id, [])
                    elif isinstance(e, ast.Attribute):
                        members.append(e.attr)
                out[s.targets[0].id] = members
        return out

    def mro(self, cls: str) -> list[str]:
        seen: list[str] = []
        todo = [cls]
        while todo:
            c = todo.pop(0)
            if c in seen or c not in self.classes:
                continue
            seen.append(c)
            todo.extend(self.classes[c]["bases"])
        return seen

    def issub(self, cls: str, base: str) -> bool:
        return base in self.mro(cls)

    def arg_types(self, cls: str) -> list[str] | None:
        for c in self.mro(cls):
            at = self.classes[c]["arg_types"]
            if at is not None:
                out: list[str] = []
                for k in at:
                    if k.startswith("**"):
                        out.extend(self.arg_types(k[2:]) or [])
                    else:
                        out.append(k)
                return out
        return None

    @cached_property
    def datatype_members(self) -> set[str]:
        for n in self._exp.body:
            if isinstance(n, ast.ClassDef) and n.name == "DataType":
                for s in n.body:
                    if isinstance(s, ast.ClassDef) and s.name == "Type":
                        return {
                            t.targets[0].id
                            for t in s.body
                            if isinstance(t, ast.Assign) and isinstance(t.targets[0], ast.Name)
                        }
        raise AnalysisError("sqlglot DataType.Type not found")

    # ------------------------------------------------------------------ generator
    @staticmethod
    def _type_mapping(tree: ast.Module, cls_path: list[str]) -> dict[str, str]:
        body = tree.body
        node = None
        for name in cls_path:
            node = next((n for n in body if isinstance(n, ast.ClassDef) and n.name == name), None)
            if node is None:
                raise AnalysisError(f"sqlglot generator class {'.'.join(cls_path)} not found")
            body = node.body
        for s in body:
            if isinstance(s, ast.Assign) and isinstance(s.targets[0], ast.Name) and s.targets[0].id == "TYPE_MAPPING":
                out = {}
                assert isinstance(s.value, ast.Dict)
                for k, v in zip(s.value.keys, s.value.values):
                    if k is not None and isinstance(v, ast.Constant):
                        out[ast.unparse(k).split(".")[-1]] = v.value
                return out
        raise AnalysisError("TYPE_MAPPING not found")

    @cached_property
    def duckdb_type_mapping(self) -> dict[str, str]:
        base = self._type_mapping(_parse("generator.py"), ["Generator"])
        duck = self._type_mapping(_parse("dialects/duckdb.py"), ["DuckDB", "Generator"])
        return {**base, **duck}

    # ------------------------------------------------------------------ parser witnesses
    @cached_property
    def _parser_methods(self) -> dict[str, ast.FunctionDef]:
        out: dict[str, ast.FunctionDef] = {}
        for rel, prefix in (("parser.py", ""), ("dialects/snowflake.py", "snowflake.")):
            for n in ast.walk(_parse(rel)):
                if isinstance(n, ast.FunctionDef):
                    out.setdefault(prefix + n.name, n)
        return out

    def witness(self, method: str, fragment: str, present: bool = True) -> None:
        fn = self._parser_methods.get(method)
        if fn is None:
            raise AnalysisError(f"sqlglot witness: parser method {method} not found")
        text = " ".join(ast.unparse(fn).split())
        if (fragment in text) != present:
            raise AnalysisError(
                f"sqlglot witness mismatch: {method} {'lacks' if present else 'contains'} `{fragment}`"
            )
