"""Three-valued evaluator for small SQL scalar expressions in fakesnow's own templates (macro bodies):
IS [NOT] NULL, IS [NOT] DISTINCT FROM, = <> != < >, AND OR NOT, CASE WHEN .. THEN .. ELSE .. END, COALESCE,
NULLIF, IFNULL, parentheses, TRUE/FALSE/NULL, named parameters.  Values: None (NULL), True/False, or opaque atoms."""

from __future__ import annotations

from . import sqlt


class Unsupported(Exception):
    pass


class E:
    def __init__(self, toks, env):
        self.t, self.i, self.env = toks, 0, env

    def peek(self):
        return self.t[self.i] if self.i < len(self.t) else None

    def kw(self, *k):
        t = self.peek()
        if t is not None and t.is_kw(*k):
            self.i += 1
            return t.up
        return None

    def op(self, *o):
        t = self.peek()
        if t is not None and t.kind == "op" and t.parts in o:
            self.i += 1
            return t.parts
        return None

    def expr(self):
        return self.or_()

    def or_(self):
        v = self.and_()
        while self.kw("OR"):
            w = self.and_()
            v = True if (v is True or w is True) else (None if (v is None or w is None) else False)
        return v

    def and_(self):
        v = self.not_()
        while self.kw("AND"):
            w = self.not_()
            v = False if (v is False or w is False) else (None if (v is None or w is None) else True)
        return v

    def not_(self):
        if self.kw("NOT"):
            v = self.not_()
            return None if v is None else (not v)
        return self.cmp()

    def cmp(self):
        l = self.atom()
        while True:
            if self.kw("IS"):
                neg = bool(self.kw("NOT"))
                if self.kw("NULL"):
                    r = l is None
                elif self.kw("DISTINCT"):
                    self.kw("FROM")
                    rr = self.atom()
                    r = not ((l is None and rr is None) or (l is not None and rr is not None and l == rr))
                elif self.kw("TRUE"):
                    r = l is True
                elif self.kw("FALSE"):
                    r = l is False
                else:
                    raise Unsupported("IS ?")
                l = (not r) if neg else r
                continue
            o = self.op("=", "==", "<>", "!=")
            if o:
                r = self.atom()
                if l is None or r is None:
                    l = None
                else:
                    l = (l == r) if o in ("=", "==") else (l != r)
                continue
            return l

    def atom(self):
        t = self.peek()
        if t is None:
            raise Unsupported("end")
        if self.op("("):
            v = self.expr()
            if not self.op(")"):
                raise Unsupported("paren")
            return v
        if self.kw("CASE"):
            result, decided = None, False
            operand = None
            if not (self.peek() and self.peek().is_kw("WHEN")):
                operand = ("op", self.expr())
            while self.kw("WHEN"):
                c = self.expr()
                if not self.kw("THEN"):
                    raise Unsupported("THEN")
                v = self.expr()
                hit = (c is True) if operand is None else (operand[1] is not None and c is not None and operand[1] == c)
                if hit and not decided:
                    result, decided = v, True
            if self.kw("ELSE"):
                v = self.expr()
                if not decided:
                    result, decided = v, True
            if not self.kw("END"):
                raise Unsupported("END")
            return result
        if t.kind == "word":
            self.i += 1
            up = t.up
            if up == "NULL":
                return None
            if up == "TRUE":
                return True
            if up == "FALSE":
                return False
            if self.op("("):
                args = []
                if not self.op(")"):
                    args.append(self.expr())
                    while self.op(","):
                        args.append(self.expr())
                    if not self.op(")"):
                        raise Unsupported("call")
                if up in ("COALESCE", "IFNULL", "NVL"):
                    return next((a for a in args if a is not None), None)
                if up == "NULLIF":
                    return None if (args[0] is not None and args[0] == args[1]) else args[0]
                raise Unsupported(f"function {up}")
            name = t.text.lower()
            if name in self.env:
                return self.env[name]
            raise Unsupported(f"name {t.text}")
        if t.kind == "str":
            self.i += 1
            return ("lit", t.text)
        raise Unsupported(f"token {t}")


def evaluate(body_tokens, env):
    e = E(body_tokens, env)
    v = e.expr()
    if e.i != len(body_tokens):
        raise Unsupported(f"trailing tokens {body_tokens[e.i:e.i + 3]}")
    return v
