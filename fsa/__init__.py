"""fsa — fakesnow static analyser.

Every check parses /repo/fakesnow/*.py from the working tree on each run (stdlib ``ast`` only),
never imports or executes fakesnow, and reports a specific construct.  See /verif/DESIGN.md.
"""

__all__ = ["model"]
