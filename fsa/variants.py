"""Armed and neutral source variants for the self-validation (see selftest.py).

Each edit replaces one exact fragment of today's source in memory.  Armed: the named rule of the named
property must report a new finding.  Neutral: no rule of the named properties may report a new one.
"""

VARIANTS: list[dict] = []


def V(name, kind, props, rule, *edits, accept_error=False):
    VARIANTS.append({
        "name": name, "kind": kind, "props": props if isinstance(props, list) else [props], "rule": rule,
        "edits": [{"module": m, "old": o, "new": n} for m, o, n in edits], "accept_error": accept_error,
    })


A, N = "armed", "neutral"

# ---------------------------------------------------------------- C14
V("c14-create-schema-without-db-check", A, "C14", "C14.a",
  ("conn", """            and self.schema
            and duck_conn.execute(
                f\"\"\"select * from information_schema.schemata
                where upper(catalog_name) = '{self.database}'\"\"\"
            ).fetchone()
            and not duck_conn.execute(""", """            and self.schema
            and not duck_conn.execute("""))
V("c14-drop-utc", A, ["C14", "C01"], None, ("conn", """        duck_conn.execute("SET GLOBAL TimeZone = 'UTC'")""", "        pass"))
V("c14-schema-set-when-db-only", A, "C14", "C14.a",
  ("conn", """            duck_conn.execute(f"SET schema='{self.database}.main'")
            self.database_set = True""", """            duck_conn.execute(f"SET schema='{self.database}.main'")
            self.database_set = True
            self.schema_set = True"""))
V("c14-no-upper-on-schema-name", A, "C14", "C14.a",
  ("conn", "self.schema = schema and schema.upper()", "self.schema = schema"))
V("c14-existence-not-case-insensitive", A, "C14", "C14.a",
  ("conn", """where upper(catalog_name) = '{self.database}' and upper(schema_name) = '{self.schema}'\"\"\"
            ).fetchone()
        ):
            duck_conn.execute(f"CREATE SCHEMA""", """where upper(catalog_name) = '{self.database}' and schema_name = '{self.schema}'\"\"\"
            ).fetchone()
        ):
            duck_conn.execute(f"CREATE SCHEMA"""))
V("c14-skip-macros", A, ["C14"], "C14.a", ("conn", "            duck_conn.execute(macros.creation_sql(self.database))\n", ""))
V("c14-forward-flag-dropped", A, "C14", "C14.b",
  ("instance", "create_schema=self.create_schema_on_connect,", "create_schema=True,"))
V("c14-memory-when-db-path", A, ["C14"], "C14.a",
  ("conn", """db_file = f"{self.db_path/self.database}.db" if self.db_path else ":memory:\"""", """db_file = ":memory:\""""))
V("c14-neutral-reorder-utc-first", N, ["C14", "C01"], None,
  ("conn", """        # create database if needed
        if (
            create_database""", """        duck_conn.execute("SET GLOBAL TimeZone = 'UTC'")
        # create database if needed
        if (
            create_database"""),
  ("conn", """        # use UTC instead of local time zone for consistent testing
        duck_conn.execute("SET GLOBAL TimeZone = 'UTC'")""", ""))
V("c14-neutral-create-schema-if-not-exists", N, "C14", None,
  ("conn", 'duck_conn.execute(f"CREATE SCHEMA {self.database}.{self.schema}")', 'duck_conn.execute(f"CREATE SCHEMA IF NOT EXISTS {self.database}.{self.schema}")'))

# ---------------------------------------------------------------- C04
V("c04-rowcount-or", A, "C04", "C04.a",
  ("cursor", "self._rowcount = self._arrow_table.num_rows if affected_count is None else affected_count",
   "self._rowcount = affected_count or self._arrow_table.num_rows"))
V("c04-swap-update-delete-templates", A, "C04", "C04.b",
  ("cursor", "result_sql = SQL_UPDATED_ROWS.substitute(count=affected_count)", "result_sql = SQL_DELETED_ROWS.substitute(count=affected_count)"))
V("c04-status-name-not-upper", A, ["C04", "C02"], None,
  ("cursor", "ident = eid.this if eid.quoted else eid.this.upper()", "ident = eid.this.lower()"))
V("c04-keycmd-no-upper", A, "C04", "C04.c",
  ("expr", 'key = f"{expression.key.upper()} {kind.upper()}"', 'key = f"{expression.key.upper()} {kind}"'))
V("c04-bookkeeping-after-status", A, ["C04", "C06"], "C0",
  ("cursor", "            result_sql = result_sql or SQL_SUCCESS\n\n        if (text_lengths", "\n        if (text_lengths"))
V("c04-count-from-wrong-place", A, "C04", None,
  ("cursor", """        elif cmd == "DELETE":
            (affected_count,) = self._duck_conn.fetchall()[0]""", """        elif cmd == "DELETE":
            affected_count = 1"""))
V("c04-neutral-early-template-var", N, ["C04", "C06"], None,
  ("cursor", """        elif cmd == "INSERT":
            (affected_count,) = self._duck_conn.fetchall()[0]
            result_sql = SQL_INSERTED_ROWS.substitute(count=affected_count)""", """        elif cmd == "INSERT":
            rows = self._duck_conn.fetchall()
            affected_count = rows[0][0]
            tmpl = SQL_INSERTED_ROWS
            result_sql = tmpl.substitute(count=affected_count)"""))

# ---------------------------------------------------------------- C06
V("c06-description-executes-on-self", A, "C06", "C06.c",
  ("cursor", """        with self._conn.cursor() as cur:
            # TODO: can we replace with self._duck_conn.description?
            expression = sqlglot.parse_one(f"DESCRIBE {self._last_sql}", read="duckdb")
            cur._execute(expression, self._last_params)  # noqa: SLF001
            return cur.fetchall()""", """        expression = sqlglot.parse_one(f"DESCRIBE {self._last_sql}", read="duckdb")
        self._execute(expression, self._last_params)
        return self.fetchall()"""))
V("c06-last-sql-always-user-sql", A, "C06", None,
  ("cursor", "self._last_sql = result_sql or sql", "self._last_sql = sql"))
V("c06-type-table-drop-varchar", A, "C06", "C06.d", ("types", '    "VARCHAR": "text",\n', ""))

# ---------------------------------------------------------------- C03
V("c03-share-instance-handle", A, ["C03", "C13"], "C03.a",
  ("instance", "            self.duck_conn.cursor(),\n            database,", "            self.duck_conn,\n            database,"))
V("c03-context-before-engine", A, ["C03", "C07"], "C03.b",
  ("cursor", """        result_sql = None

        try:
            self._log_sql(sql, params)""", """        result_sql = None
        if transformed.args.get("set_schema"):
            self._conn.schema = transformed.args.get("set_schema")
            self._conn.schema_set = True

        try:
            self._log_sql(sql, params)"""))
V("c03-guard-drops-schema-set", A, ["C03", "C07"], "C03.d",
  ("cursor", "elif no_schema and not self._conn.schema_set:", "elif no_schema and not self._conn.database_set:"))
V("c03-guard-wrong-code", A, ["C03", "C07"], "C03.d", ("cursor", "errno=90106,", "errno=90105,"))
V("c03-use-database-keeps-schema", A, "C03", "C03.c",
  ("cursor", """            self._conn.schema = None
            self._conn.schema_set = False

        elif set_schema""", """
        elif set_schema"""))
V("c03-describe-uses-wrong-schema", A, "C03", "C03.e",
  ("cursor", "lambda e: transforms.describe_table(e, self._conn.database, self._conn.schema)",
   "lambda e: transforms.describe_table(e, self._conn.database, None)"))
V("c03-neutral-extract-context-method", N, ["C03", "C07", "C04", "C06"], None,
  ("cursor", """        if set_database := transformed.args.get("set_database"):
            self._conn.database = set_database
            self._conn.database_set = True
            # duckdb now uses the database's main schema, ie: there's no current (snowflake) schema
            self._conn.schema = None
            self._conn.schema_set = False
""", """        if set_database := transformed.args.get("set_database"):
            self._use_database(set_database)
"""),
  ("cursor", """    def _log_sql(self, sql: str""", """    def _use_database(self, name: str) -> None:
        self._conn.database = name
        self._conn.database_set = True
        self._conn.schema = None
        self._conn.schema_set = False

    def _log_sql(self, sql: str"""))

# ---------------------------------------------------------------- C07
V("c07-swap-binder-catalog-codes", A, "C07", "C07.a",
  ("cursor", 'raise snowflake.connector.errors.ProgrammingError(msg=msg, errno=2043, sqlstate="02000") from None',
   'raise snowflake.connector.errors.ProgrammingError(msg=msg, errno=2003, sqlstate="42S02") from None'))
V("c07-drop-connection-handler", A, "C07", "C07",
  ("cursor", """        except duckdb.ConnectionException as e:
            raise snowflake.connector.errors.DatabaseError(msg=e.args[0], errno=250002, sqlstate="08003") from None
""", ""))
V("c07-no-sqlstate-reset", A, "C07", "C07.b", ("cursor", "            self._sqlstate = None\n\n            if os.environ", "            if os.environ"))
V("c07-swallow-transaction-errors", A, ["C07", "C13"], None,
  ("cursor", """                result_sql = SQL_SUCCESS
            else:
                raise e""", """                result_sql = SQL_SUCCESS
            else:
                result_sql = SQL_SUCCESS"""))
V("c07-variable-check-after-parse", A, ["C07"], "C07.e",
  ("cursor", """            command = self._inline_variables(command)
            command, params = self._rewrite_with_params(command, params)""", """            command, params = self._rewrite_with_params(command, params)"""))
V("c07-neutral-handlers-reordered", N, ["C07", "C13"], None,
  ("cursor", """        except duckdb.BinderException as e:
            msg = e.args[0]
            raise snowflake.connector.errors.ProgrammingError(msg=msg, errno=2043, sqlstate="02000") from None
        except duckdb.CatalogException as e:
            # minimal processing to make it look like a snowflake exception, message content may differ
            msg = cast(str, e.args[0]).split("\\n")[0]
            raise snowflake.connector.errors.ProgrammingError(msg=msg, errno=2003, sqlstate="42S02") from None
""", """        except duckdb.CatalogException as e:
            msg = cast(str, e.args[0]).split("\\n")[0]
            raise snowflake.connector.errors.ProgrammingError(msg=msg, errno=2003, sqlstate="42S02") from None
        except duckdb.BinderException as e:
            raise snowflake.connector.errors.ProgrammingError(msg=e.args[0], errno=2043, sqlstate="02000") from None
"""))

# ---------------------------------------------------------------- C05
V("c05-advance-size-minus-one", A, "C05", "C05.c",
  ("cursor", "            self._arrow_table_fetch_index += size", "            self._arrow_table_fetch_index += size - 1"))
V("c05-no-reset-index", A, "C05", "C05.a",
  ("cursor", "        self._arrow_table_fetch_index = None\n        self._rowcount = None\n\n        cmd", "        self._rowcount = None\n\n        cmd"))
V("c05-fetchall-no-none-test", A, "C05", "C05.d",
  ("cursor", """        if self._arrow_table is None:
            # mimic snowflake python connector error type
            raise TypeError("No open result set")
        return self.fetchmany(self._arrow_table.num_rows)""", """        return self.fetchmany(self._arrow_table.num_rows)"""))
V("c05-tuple-from-dict", A, "C05", "C05.b",
  ("cursor", "        return list(zip(*(c.to_pylist() for c in tslice.columns)))", "        return [tuple(d.values()) for d in tslice.to_pylist()]"))
V("c05-offset-always-zero", A, "C05", "C05.c",
  ("cursor", "slice(offset=self._arrow_table_fetch_index or 0, length=size)", "slice(offset=0, length=size)"))
V("c05-arraysize-ignored", A, "C05", "C05",
  ("cursor", "        size = size or self._arraysize", "        size = size or 1"))
V("c05-neutral-fetchone-direct", N, "C05", None,
  ("cursor", """        result = self.fetchmany(1)
        return result[0] if result else None""", """        rows = self.fetchmany(1)
        if not rows:
            return None
        return rows[0]"""))

# ---------------------------------------------------------------- C13
V("c13-cursor-per-fake-cursor", A, "C13", "C13.b",
  ("conn", "return FakeSnowflakeCursor(conn=self, duck_conn=self._duck_conn,", "return FakeSnowflakeCursor(conn=self, duck_conn=self._duck_conn.cursor(),"))
V("c13-only-rollback-message", A, "C13", "C13.c",
  ("cursor", """            if "cannot rollback - no transaction is active" in str(
                e
            ) or "cannot commit - no transaction is active" in str(e):""", """            if "cannot rollback - no transaction is active" in str(e):"""))
V("c13-rollback-runs-commit", A, "C13", "C13.d", ("conn", 'self.cursor().execute("ROLLBACK")', 'self.cursor().execute("COMMIT")'))

# ---------------------------------------------------------------- C08
V("c08-drop-escape", A, "C08", "C08.a",
  ("cursor", "return self._converter.quote(self._converter.escape(self._converter.to_snowflake(param)))",
   "return self._converter.quote(self._converter.to_snowflake(param))"))
V("c08-swap-quote-escape", A, "C08", "C08.a",
  ("cursor", "return self._converter.quote(self._converter.escape(self._converter.to_snowflake(param)))",
   "return self._converter.escape(self._converter.quote(self._converter.to_snowflake(param)))"))
V("c08-inline-after-substitution", A, ["C08"], "C08",
  ("cursor", """            command = self._inline_variables(command)
            command, params = self._rewrite_with_params(command, params)""", """            command, params = self._rewrite_with_params(command, params)
            command = self._inline_variables(command)"""))
V("c08-read-global-paramstyle", A, "C08", None,
  ("cursor", 'if params and self._conn._paramstyle in ("pyformat", "format"):', 'if params and snowflake.connector.paramstyle in ("pyformat", "format"):'))
V("c08-qmark-drops-params", A, "C08", "C08.d", ("cursor", "        return command, params\n\n    def _inline_variables", "        return command, None\n\n    def _inline_variables"))
V("c08-executemany-break", A, "C08", "C08.e",
  ("cursor", "        for p in seqparams:\n            self.execute(command, p)", "        for p in seqparams:\n            self.execute(command, p)\n            break"))
V("c08-neutral-convert-as-method", N, "C08", None,
  ("cursor", """            def convert(param: Any) -> Any:  # noqa: ANN401
                return self._converter.quote(self._converter.escape(self._converter.to_snowflake(param)))
""", """            conv = self._converter

            def convert(param: Any) -> Any:  # noqa: ANN401
                sf = conv.to_snowflake(param)
                esc = conv.escape(sf)
                return conv.quote(esc)
"""))

# ---------------------------------------------------------------- C15
V("c15-no-boundary", A, "C15", "C15.b", ("variables", 'rf"\\${name}(?!\\w)"', 'rf"\\${name}"'))
V("c15-string-replacement", A, "C15", "C15.c", ("variables", "lambda _, v=value: v", "value"))
V("c15-case-sensitive", A, "C15", "C15.b", ("variables", ", sql, flags=re.IGNORECASE)", ", sql)"))
V("c15-class-level-store", A, "C15", "C15.a",
  ("variables", "    def __init__(self) -> None:\n        self._variables = {}", "    _variables = {}\n\n    def __init__(self) -> None:\n        pass"))
V("c15-default-dialect-value", A, "C15", "C15.g", ('variables', 'value = eq.args.get("expression").sql(dialect="snowflake")', 'value = eq.args.get("expression").sql()'))
V("c15-undefined-returns-sql", A, ["C15", "C07"], "C07.e",
  ("variables", """            raise snowflake.connector.errors.ProgrammingError(
                msg=f"Session variable '{remaining_variables.group().upper()}' does not exist"
            )""", "            pass"))
V("c15-neutral-word-boundary", N, "C15", None, ("variables", 'rf"\\${name}(?!\\w)"', 'rf"\\${name}\\b"'))
V("c15-neutral-def-replacement", N, "C15", None,
  ("variables", """            sql = re.sub(rf"\\${name}(?!\\w)", lambda _, v=value: v, sql, flags=re.IGNORECASE)""",
   """            def _value(_m, v=value):
                return v

            sql = re.sub(rf"\\${name}(?!\\w)", _value, sql, flags=re.IGNORECASE)"""))

# ---------------------------------------------------------------- C16
V("c16-also-filter-commands", A, "C16", "C16.a",
  ("conn", "if e and not isinstance(e, exp.Semicolon)  # ignore comments", "if e and not isinstance(e, (exp.Semicolon, exp.Update))"))
V("c16-shared-cursor", A, "C16", "C16.a",
  ("conn", """        cursors = [
            self.cursor(cursor_class).execute(e.sql(dialect="snowflake"))""", """        cur = self.cursor(cursor_class)
        cursors = [
            cur.execute(e.sql(dialect="snowflake"))"""))
V("c16-ignore-cursor-class", A, "C16", "C16.a",
  ("conn", 'self.cursor(cursor_class).execute(e.sql(dialect="snowflake"))', 'self.cursor().execute(e.sql(dialect="snowflake"))'))
V("c16-swallow-errors", A, "C16", "C16.a",
  ("conn", """        cursors = [
            self.cursor(cursor_class).execute(e.sql(dialect="snowflake"))
            for e in sqlglot.parse(sql_text, read="snowflake")
            if e and not isinstance(e, exp.Semicolon)  # ignore comments
        ]""", """        cursors = []
        for e in sqlglot.parse(sql_text, read="snowflake"):
            if e and not isinstance(e, exp.Semicolon):
                try:
                    cursors.append(self.cursor(cursor_class).execute(e.sql(dialect="snowflake")))
                except snowflake.connector.errors.ProgrammingError:
                    pass"""))
V("c16-duckdb-dialect", A, "C16", "C16.a", ("conn", 'e.sql(dialect="snowflake")', 'e.sql(dialect="duckdb")'))
V("c16-nop-search", A, "C16", "C16.b", ("cursor", "any(re.match(p, command, re.IGNORECASE)", "any(re.search(p, command, re.IGNORECASE)"))
V("c16-nop-case-sensitive", A, "C16", "C16.b", ("cursor", "any(re.match(p, command, re.IGNORECASE)", "any(re.match(p, command)"))
V("c16-nop-falls-through", A, "C16", "C16.b",
  ("cursor", """                self._execute(transformed, params)
                return self

            expression = parse_one""", """                self._execute(transformed, params)

            expression = parse_one"""))
V("c16-neutral-loop", N, "C16", None,
  ("conn", """        cursors = [
            self.cursor(cursor_class).execute(e.sql(dialect="snowflake"))
            for e in sqlglot.parse(sql_text, read="snowflake")
            if e and not isinstance(e, exp.Semicolon)  # ignore comments
        ]""", """        cursors = []
        for e in sqlglot.parse(sql_text, read="snowflake"):
            if not e or isinstance(e, exp.Semicolon):
                continue
            cursors.append(self.cursor(cursor_class).execute(e.sql(dialect="snowflake")))"""))

# ---------------------------------------------------------------- C20
V("c20-acquire-before-try", A, "C20", "C20.a",
  ("__init__", """    stack = contextlib.ExitStack()

    try:""", """    stack = contextlib.ExitStack()
    stack.enter_context(mock.patch("snowflake.connector.connect", side_effect=fs.connect))
    importlib.import_module("snowflake.connector.pandas_tools")

    try:"""))
V("c20-close-not-in-finally", A, "C20", "C20.a",
  ("__init__", """        yield None
    finally:
        stack.close()
        fs.duck_conn.close()""", """        yield None
    finally:
        pass
    stack.close()
    fs.duck_conn.close()"""))
V("c20-engine-not-closed", A, "C20", "C20.a", ("__init__", "        stack.close()\n        fs.duck_conn.close()", "        stack.close()"))
V("c20-guard-after-patching", A, "C20", "C20.b",
  ("__init__", '    assert not isinstance(snowflake.connector.connect, mock.MagicMock), "Snowflake connector is already patched"\n', ""))
V("c20-write-pandas-unmapped", A, "C20", "C20.c",
  ("__init__", "        snowflake.connector.pandas_tools.write_pandas: fakes.write_pandas,\n", ""))
V("c20-neutral-rename-stack", N, "C20", None,
  ("__init__", "    stack = contextlib.ExitStack()", "    exit_stack = contextlib.ExitStack()"),
  ("__init__", "            stack.enter_context(p)", "            exit_stack.enter_context(p)"),
  ("__init__", "        stack.close()", "        exit_stack.close()"))
